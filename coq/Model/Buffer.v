(* The fixed-size, back-to-front message buffer (src/buf/buffer.rs) and every encoder written
   on top of it.  The buffer is modelled by its occupied region [data] (memory from [pos] to the end);
   [pos = BUF_MAX_SIZE - length data].  Cells exposed by [skip] without having been written are the
   poison value -1, so "only written bytes are exposed" is [wfb (data b)]. *)
From GS Require Import Model.Base Gen.Constants Model.Ber Model.Pdu.

Record buffer := { data : bytes; bookmark : Z }.
Definition POISON : Z := -1.

Definition empty_buffer : buffer := {| data := []; bookmark := 0 |}.
Definition blen (b : buffer) : Z := len (data b).
Definition pos (b : buffer) : Z := BUF_MAX_SIZE - blen b.
Definition with_data (b : buffer) (d : bytes) : buffer := {| data := d; bookmark := bookmark b |}.

Definition push_u8 (b : buffer) (v : Z) : res buffer :=
  if pos b =? 0 then Err OutOfBuffer else Ok (with_data b (v :: data b)).
Definition push (b : buffer) (chunk : bytes) : res buffer :=
  if pos b <? len chunk then Err OutOfBuffer else Ok (with_data b (chunk ++ data b)).
Definition push_tag_len (b : buffer) (tag v : Z) : res buffer :=
  if v <? 128 then
    if pos b <? 2 then Err OutOfBuffer else Ok (with_data b (tag :: wrap8 v :: data b))
  else if v <? 256 then
    if pos b <? 3 then Err OutOfBuffer else Ok (with_data b (tag :: 129 :: wrap8 v :: data b))
  else
    if pos b <? 4 then Err OutOfBuffer
    else Ok (with_data b (tag :: 130 :: wrap8 (Z.shiftr v 8) :: wrap8 v :: data b)).
Definition push_tagged (b : buffer) (tag : Z) (d : bytes) : res buffer :=
  b <- push b d ;; push_tag_len b tag (len d).
Definition set_bookmark (b : buffer) (delta : Z) : buffer := {| data := data b; bookmark := pos b + delta |}.
Definition get_bookmark (b : buffer) : Z := wrap64 (bookmark b - pos b).
Fixpoint poison (n : nat) : bytes := match n with O => [] | S k => POISON :: poison k end.
Definition skip (b : buffer) (size : Z) : buffer :=
  with_data b (poison (Z.to_nat (Z.min size (pos b))) ++ data b).
Definition reset (b : buffer) : buffer := with_data b [].

(* ---- encoders ---- *)
Fixpoint int_pos_loop (fuel : nat) (b : buffer) (left : Z) : res buffer :=
  match fuel with
  | O => Panic
  | S f =>
    b <- push_u8 b (Z.land left 255) ;;
    if left <? 255 then
      (if Z.land left 128 =? 128 then push_u8 b 0 else Ok b)
    else int_pos_loop f b (Z.shiftr left 8)
  end.
Fixpoint int_neg_loop (fuel : nat) (b : buffer) (left : Z) : res buffer :=
  match fuel with
  | O => Panic
  | S f =>
    b <- push_u8 b (Z.land left 255) ;;
    if -128 <=? left then Ok b else int_neg_loop f b (Z.shiftr left 8)
  end.
Definition push_int (b : buffer) (v : Z) : res buffer :=
  if v =? 0 then push b [TAG_INT; 1; 0]
  else
    let start := blen b in
    b' <- (if 0 <? v then int_pos_loop 10 b v else int_neg_loop 10 b v) ;;
    push_tag_len b' TAG_INT (blen b' - start).

Definition push_oid (b : buffer) (oid : bytes) : res buffer :=
  b <- push b oid ;; push_tag_len b TAG_OBJECT_ID (len oid).
Definition push_null (b : buffer) : res buffer := push b [5; 0].

(* for oid in vars.iter().rev() { null; oid; tag_len 0x30 } *)
Fixpoint push_vars_rev (b : buffer) (rvars : list bytes) : res buffer :=
  match rvars with
  | [] => Ok b
  | oid :: r =>
    let start := blen b in
    b <- push_null b ;;
    b <- push_oid b oid ;;
    b <- push_tag_len b 48 (blen b - start) ;;
    push_vars_rev b r
  end.

Definition push_get (b : buffer) (g : getreq) : res buffer :=
  let rest := blen b in
  b <- push_vars_rev b (rev (g_vars g)) ;;
  b <- push_tag_len b 48 (blen b - rest) ;;
  b <- push b [2; 1; 0; 2; 1; 0] ;;
  push_int b (g_request_id g).

Definition push_getbulk (b : buffer) (g : getbulk) : res buffer :=
  let rest := blen b in
  b <- push_vars_rev b (rev (gb_vars g)) ;;
  b <- push_tag_len b 48 (blen b - rest) ;;
  b <- push_int b (gb_max_repetitions g) ;;
  b <- push_int b (gb_non_repeaters g) ;;
  push_int b (gb_request_id g).

Definition push_pdu (b : buffer) (p : pdu) : res buffer :=
  let rest := blen b in
  match p with
  | PGetRequest g => b <- push_get b g ;; push_tag_len b PDU_TAG_GET (blen b - rest)
  | PGetNextRequest g => b <- push_get b g ;; push_tag_len b PDU_TAG_GETNEXT (blen b - rest)
  | PGetBulkRequest g => b <- push_getbulk b g ;; push_tag_len b PDU_TAG_GETBULK (blen b - rest)
  | _ => Err NotImplemented
  end.

Definition push_cmsg (version : Z) (b : buffer) (m : cmsg) : res buffer :=
  b <- push_pdu b (cm_pdu m) ;;
  b <- push_tagged b TAG_OCTET_STRING (cm_community m) ;;
  b <- push b [TAG_INT; 1; version] ;;
  push_tag_len b 48 (blen b).

Definition EMPTY_BER : bytes := [TAG_OCTET_STRING; 0].
Definition push_os_or_empty (b : buffer) (d : bytes) : res buffer :=
  match d with [] => push b EMPTY_BER | _ => push_tagged b TAG_OCTET_STRING d end.

Definition push_usm (b : buffer) (u : usm) : res buffer :=
  let l0 := blen b in
  b <- push_os_or_empty b (u_privacy_params u) ;;
  b <- (match u_auth_params u with
        | [] => push b EMPTY_BER
        | a => b <- push_tagged b TAG_OCTET_STRING a ;; Ok (set_bookmark b 2)
        end) ;;
  b <- push_tagged b TAG_OCTET_STRING (u_user_name u) ;;
  b <- push_int b (u_engine_time u) ;;
  b <- push_int b (u_engine_boots u) ;;
  b <- push_os_or_empty b (u_engine_id u) ;;
  push_tag_len b 48 (blen b - l0).

Definition push_scoped (b : buffer) (s : scoped) : res buffer :=
  let rest := blen b in
  b <- push_pdu b (s_pdu s) ;;
  b <- push b EMPTY_BER ;;
  b <- push_os_or_empty b (s_engine_id s) ;;
  push_tag_len b 48 (blen b - rest).

Definition push_msgdata (b : buffer) (d : msgdata) : res buffer :=
  match d with
  | Plaintext s => push_scoped b s
  | Encrypted x => push_tagged b TAG_OCTET_STRING x
  end.

Definition flags_octet (m : v3msg) : Z :=
  (if m_flag_auth m then FLAG_AUTH else 0) + (if m_flag_priv m then FLAG_PRIV else 0)
  + (if m_flag_report m then FLAG_REPORT else 0).

Definition push_v3 (b : buffer) (m : v3msg) : res buffer :=
  b <- push_msgdata b (m_data m) ;;
  let ln := blen b in
  b <- push_usm b (m_usm m) ;;
  b <- push_tag_len b TAG_OCTET_STRING (blen b - ln) ;;
  let ln := blen b in
  b <- push b [TAG_INT; 1; USM_MODEL] ;;
  b <- push_u8 b (flags_octet m) ;;
  b <- push_tag_len b TAG_OCTET_STRING 1 ;;
  b <- push_int b V3_MAX_SIZE ;;
  b <- push_int b (m_msg_id m) ;;
  b <- push_tag_len b 48 (blen b - ln) ;;
  b <- push b [TAG_INT; 1; SNMP_V3] ;;
  push_tag_len b 48 (blen b).

(* GS.Model.Crypto.HashCommon
   Shared helpers for the executable MD5 / SHA-1 models.

   Conventions: a byte is a [Z] in 0..255, a byte string is a [list Z],
   a 32-bit word is a [Z] in 0..2^32-1.  Wrapping is always written
   explicitly with [Z.land _ MASK32] (never [mod]).

   The second half of the file is the generic Merkle-Damgard streaming
   layer (state record, byte-at-a-time [hs_feed], [hs_update], padding)
   shared by both hashes; MD5.v and SHA1.v instantiate it with their
   compression function.  Definitions only; proofs are in
   GS.Proofs.HashStream. *)
From Coq Require Import ZArith List.
Import ListNotations.
Open Scope Z_scope.

(* ---------- 32-bit word arithmetic ---------- *)

Definition MASK32 : Z := 4294967295.

Definition wrap32 (x : Z) : Z := Z.land x MASK32.
Definition add32 (a b : Z) : Z := Z.land (a + b) MASK32.
Definition not32 (x : Z) : Z := Z.lxor x MASK32.

(* rotate left by n, 0 < n < 32, for x in 0..2^32-1 *)
Definition rotl32 (x n : Z) : Z :=
  Z.lor (Z.land (Z.shiftl x n) MASK32) (Z.shiftr x (32 - n)).

(* Same rotation written so that the bits that wrap around are cut off
   BEFORE shifting: [m] must be 32 - n and [lowmask] must be 2^m - 1.
   Equal to [rotl32 x n] for x in 0..2^32-1 (see HashVectors.v), but the
   mask touches only m bits, which is much cheaper once extracted when n
   is large (SHA-1 rotates by 30 in every round). *)
Definition rotl32_split (x n m lowmask : Z) : Z :=
  Z.lor (Z.shiftl (Z.land x lowmask) n) (Z.shiftr x m).

(* ---------- bytes <-> words ---------- *)

(* a is the least significant byte.  The result is masked so that the
   word is in range even when the input "bytes" are not. *)
Definition le32 (a b c d : Z) : Z :=
  Z.land (Z.lor a (Z.lor (Z.shiftl b 8) (Z.lor (Z.shiftl c 16) (Z.shiftl d 24)))) MASK32.

(* a is the most significant byte *)
Definition be32 (a b c d : Z) : Z := le32 d c b a.

Definition le_bytes (w : Z) : list Z :=
  [Z.land w 255; Z.land (Z.shiftr w 8) 255; Z.land (Z.shiftr w 16) 255; Z.land (Z.shiftr w 24) 255].

Definition be_bytes (w : Z) : list Z :=
  [Z.land (Z.shiftr w 24) 255; Z.land (Z.shiftr w 16) 255; Z.land (Z.shiftr w 8) 255; Z.land w 255].

(* 64-bit length fields *)
Definition le64_bytes (n : Z) : list Z :=
  le_bytes (Z.land n MASK32) ++ le_bytes (Z.land (Z.shiftr n 32) MASK32).
Definition be64_bytes (n : Z) : list Z :=
  be_bytes (Z.land (Z.shiftr n 32) MASK32) ++ be_bytes (Z.land n MASK32).

(* little-endian words of a byte string, in order; a trailing group of
   fewer than 4 bytes is dropped *)
Fixpoint le_words (l : list Z) : list Z :=
  match l with
  | a :: b :: c :: d :: r => le32 a b c d :: le_words r
  | _ => []
  end.

(* big-endian words of a byte string pushed onto [acc], i.e. the result
   is [rev (be_words l) ++ acc] : the LAST word of [l] comes first *)
Fixpoint be_words_rev (l : list Z) (acc : list Z) : list Z :=
  match l with
  | a :: b :: c :: d :: r => be_words_rev r (be32 a b c d :: acc)
  | _ => acc
  end.

(* ---------- generic streaming layer ---------- *)

Section Stream.
  Variable H : Type.                       (* chaining value *)
  Variable compress : H -> list Z -> H.    (* one 64-byte block, bytes in order *)

  (* [hs_pend] is the pending partial block, most recent byte FIRST
     (i.e. reversed), always shorter than 64 bytes; [hs_plen] is its
     length, kept as a Z so that [hs_feed] never has to measure the
     list.  [hs_total] is the number of bytes absorbed so far. *)
  Record hstate : Type := mk_hstate
    { hs_h : H; hs_total : Z; hs_plen : Z; hs_pend : list Z }.

  Definition hs_start (iv : H) : hstate :=
    {| hs_h := iv; hs_total := 0; hs_plen := 0; hs_pend := [] |}.

  (* absorb one byte; compress when the block becomes full *)
  Definition hs_feed (s : hstate) (b : Z) : hstate :=
    if hs_plen s =? 63 then
      {| hs_h := compress (hs_h s) (rev_append (b :: hs_pend s) []);
         hs_total := hs_total s + 1; hs_plen := 0; hs_pend := [] |}
    else
      {| hs_h := hs_h s;
         hs_total := hs_total s + 1; hs_plen := hs_plen s + 1; hs_pend := b :: hs_pend s |}.

  Definition hs_update (s : hstate) (l : list Z) : hstate := fold_left hs_feed l s.

  (* number of zero bytes after the 0x80 marker, given the pending length
     p (0..63) AFTER the marker was absorbed: pad to 56 mod 64 *)
  Definition hs_nzeros (p : Z) : nat :=
    Z.to_nat (if p <=? 56 then 56 - p else 120 - p).

  (* absorb 0x80, the zero padding and the 8 length bytes; returns the
     final chaining value *)
  Definition hs_finish (lenbytes : list Z) (s : hstate) : H :=
    let s1 := hs_feed s 128 in
    hs_h (hs_update (hs_update s1 (repeat 0 (hs_nzeros (hs_plen s1)))) lenbytes).
End Stream.

Arguments mk_hstate {H}.
Arguments hs_h {H}.
Arguments hs_total {H}.
Arguments hs_plen {H}.
Arguments hs_pend {H}.
Arguments hs_start {H}.
Arguments hs_feed {H}.
Arguments hs_update {H}.
Arguments hs_finish {H}.

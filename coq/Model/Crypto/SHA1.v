(* GS.Model.Crypto.SHA1
   Executable SHA-1 (FIPS 180-4) on lists of Z bytes.  Definitions only;
   test vectors are in HashVectors.v, the streaming law in
   GS.Proofs.HashStream. *)
From Coq Require Import ZArith List.
From GS Require Import Model.Crypto.HashCommon.
Import ListNotations.
Open Scope Z_scope.

(* chaining value (H0, H1, H2, H3, H4) *)
Definition sha1_words : Type := (Z * Z * Z * Z * Z)%type.

Definition sha1_iv : sha1_words :=
  (1732584193, 4023233417, 2562383102, 271733878, 3285377520).

(* FIPS 180-4 section 4.1.1 *)
Definition sha1_Ch (x y z : Z) : Z := Z.lxor (Z.land x y) (Z.land (not32 x) z).
Definition sha1_Parity (x y z : Z) : Z := Z.lxor x (Z.lxor y z).
Definition sha1_Maj (x y z : Z) : Z := Z.lxor (Z.land x y) (Z.lxor (Z.land x z) (Z.land y z)).

(* the three rotation amounts used by SHA-1 *)
Definition sha1_rotl1 (x : Z) : Z := rotl32_split x 1 31 2147483647.
Definition sha1_rotl5 (x : Z) : Z := rotl32_split x 5 27 134217727.
Definition sha1_rotl30 (x : Z) : Z := rotl32_split x 30 2 3.

(* Message schedule.  [acc] holds the words computed so far, most recent
   first: acc = W(t-1) :: W(t-2) :: ... ; the next word is
   ROTL1 (W(t-3) xor W(t-8) xor W(t-14) xor W(t-16)). *)
Definition sha1_next_w (acc : list Z) : Z :=
  match acc with
  | _ :: _ :: w3 :: _ :: _ :: _ :: _ :: w8 :: _ :: _ :: _ :: _ :: _ :: w14 :: _ :: w16 :: _ =>
      sha1_rotl1 (Z.lxor w3 (Z.lxor w8 (Z.lxor w14 w16)))
  | _ => 0
  end.

Fixpoint sha1_expand (n : nat) (acc : list Z) : list Z :=
  match n with
  | O => acc
  | S n' => sha1_expand n' (sha1_next_w acc :: acc)
  end.

(* W0 .. W79 of a 64-byte block *)
Definition sha1_schedule (block : list Z) : list Z :=
  rev_append (sha1_expand 64 (be_words_rev block [])) [].

(* one round *)
Definition sha1_round (f : Z -> Z -> Z -> Z) (k : Z)
           (st : sha1_words) (w : Z) : sha1_words :=
  let '(a, b, c, d, e) := st in
  (Z.land (sha1_rotl5 a + f b c d + e + k + w) MASK32, a, sha1_rotl30 b, c, d).

(* run [n] rounds with the same f and k, consuming the schedule *)
Fixpoint sha1_rounds (n : nat) (f : Z -> Z -> Z -> Z) (k : Z)
         (st : sha1_words) (ws : list Z) : sha1_words * list Z :=
  match n, ws with
  | S n', w :: r => sha1_rounds n' f k (sha1_round f k st w) r
  | _, _ => (st, ws)
  end.

(* compression of one 64-byte block (bytes in order) *)
Definition sha1_compress (h : sha1_words) (block : list Z) : sha1_words :=
  let w := sha1_schedule block in
  let '(s1, w1) := sha1_rounds 20 sha1_Ch     1518500249 h  w  in
  let '(s2, w2) := sha1_rounds 20 sha1_Parity 1859775393 s1 w1 in
  let '(s3, w3) := sha1_rounds 20 sha1_Maj    2400959708 s2 w2 in
  let '(s4, _)  := sha1_rounds 20 sha1_Parity 3395469782 s3 w3 in
  let '(a0, b0, c0, d0, e0) := h in
  let '(a, b, c, d, e) := s4 in
  (add32 a0 a, add32 b0 b, add32 c0 c, add32 d0 d, add32 e0 e).

(* ---------- streaming interface ---------- *)

Definition sha1_state : Type := hstate sha1_words.

Definition sha1_init : sha1_state := hs_start sha1_iv.

Definition sha1_update : sha1_state -> list Z -> sha1_state := hs_update sha1_compress.

Definition sha1_final (s : sha1_state) : list Z :=
  let '(a, b, c, d, e) := hs_finish sha1_compress (be64_bytes (8 * hs_total s)) s in
  be_bytes a ++ be_bytes b ++ be_bytes c ++ be_bytes d ++ be_bytes e.

Definition sha1 : list Z -> list Z := fun l => sha1_final (sha1_update sha1_init l).

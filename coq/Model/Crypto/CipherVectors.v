(* Known-answer tests for DES, AES-128, CBC and CFB, checked by [vm_compute].

   Sources: FIPS 46-3 / FIPS 81 / NBS SP 500-20 DES vectors, FIPS 197
   Appendix B and C.1, NIST SP 800-38A F.3.13, plus vectors generated with the
   Rust crates des 0.8.1, aes 0.8.4, cbc 0.1.2, cfb-mode 0.8.2 (marked "Rust"). *)

Require Import ZArith List String Ascii Bool.
Require Import GS.Model.Crypto.DES GS.Model.Crypto.AES GS.Model.Crypto.Modes.
Import ListNotations.
Open Scope string_scope.
Open Scope Z_scope.

(* hex string -> bytes (test support only) *)
Definition hexval (c : ascii) : Z :=
  let n := Z.of_N (N_of_ascii c) in
  if (48 <=? n) && (n <=? 57) then n - 48
  else if (97 <=? n) && (n <=? 102) then n - 87
  else if (65 <=? n) && (n <=? 70) then n - 55
  else 0.

Fixpoint hex (s : string) : list Z :=
  match s with
  | String a (String b rest) => (16 * hexval a + hexval b) :: hex rest
  | _ => []
  end.

Definition list_Z_eqb (a b : list Z) : bool :=
  (Nat.eqb (List.length a) (List.length b)) && forallb (fun p => Z.eqb (fst p) (snd p)) (combine a b).

Definition des_kat (v : string * string * string) : bool :=
  let '(k, p, c) := v in
  list_Z_eqb (des_encrypt_block (hex k) (hex p)) (hex c) &&
  list_Z_eqb (des_decrypt_block (hex k) (hex c)) (hex p).

Definition aes_kat (v : string * string * string) : bool :=
  let '(k, p, c) := v in
  list_Z_eqb (aes128_encrypt_block (hex k) (hex p)) (hex c).

Definition des_cbc_kat (v : string * string * string * string) : bool :=
  let '(k, iv, p, c) := v in
  list_Z_eqb (cbc_encrypt (des_encrypt_block (hex k)) 8 (hex iv) (hex p)) (hex c) &&
  list_Z_eqb (cbc_decrypt (des_decrypt_block (hex k)) 8 (hex iv) (hex c)) (hex p).

Definition aes_cfb_kat (v : string * string * string * string) : bool :=
  let '(k, iv, p, c) := v in
  list_Z_eqb (cfb_encrypt (aes128_encrypt_block (hex k)) 16 (hex iv) (hex p)) (hex c) &&
  list_Z_eqb (cfb_decrypt (aes128_encrypt_block (hex k)) 16 (hex iv) (hex c)) (hex p).

Example hex_ok : hex "00ff7Fa5" = [0; 255; 127; 165].
Proof. vm_compute; reflexivity. Qed.

(* ------------------------------------------------------------------ *)
(* DES single block *)

(* classic worked example *)
Example des_enc_classic :
  des_encrypt_block (hex "133457799bbcdff1") (hex "0123456789abcdef")
  = hex "85e813540f0ab405".
Proof. vm_compute; reflexivity. Qed.

Example des_dec_classic :
  des_decrypt_block (hex "133457799bbcdff1") (hex "85e813540f0ab405")
  = hex "0123456789abcdef".
Proof. vm_compute; reflexivity. Qed.

(* FIPS 81 ECB example *)
Example des_enc_fips81_now_is_t :
  des_encrypt_block (hex "0123456789abcdef") (hex "4e6f772069732074")
  = hex "3fa40e8a984d4815".
Proof. vm_compute; reflexivity. Qed.

Example des_dec_fips81_now_is_t :
  des_decrypt_block (hex "0123456789abcdef") (hex "3fa40e8a984d4815")
  = hex "4e6f772069732074".
Proof. vm_compute; reflexivity. Qed.

(* NBS SP 500-20 IP/E test 1 *)
Example des_enc_sp500_20_ip_1 :
  des_encrypt_block (hex "0101010101010101") (hex "8000000000000000")
  = hex "95f8a5e5dd31d900".
Proof. vm_compute; reflexivity. Qed.

Example des_dec_sp500_20_ip_1 :
  des_decrypt_block (hex "0101010101010101") (hex "95f8a5e5dd31d900")
  = hex "8000000000000000".
Proof. vm_compute; reflexivity. Qed.

(* NBS SP 500-20 variable-key test 1 *)
Example des_enc_sp500_20_key_1 :
  des_encrypt_block (hex "8001010101010101") (hex "0000000000000000")
  = hex "95a8d72813daa94d".
Proof. vm_compute; reflexivity. Qed.

Example des_dec_sp500_20_key_1 :
  des_decrypt_block (hex "8001010101010101") (hex "95a8d72813daa94d")
  = hex "0000000000000000".
Proof. vm_compute; reflexivity. Qed.

(* all-zero key and block (Rust cross-checked) *)
Example des_enc_zero :
  des_encrypt_block (hex "0000000000000000") (hex "0000000000000000")
  = hex "8ca64de9c1b123a7".
Proof. vm_compute; reflexivity. Qed.

Example des_dec_zero :
  des_decrypt_block (hex "0000000000000000") (hex "8ca64de9c1b123a7")
  = hex "0000000000000000".
Proof. vm_compute; reflexivity. Qed.

(* all-one key and block (Rust cross-checked) *)
Example des_enc_ones :
  des_encrypt_block (hex "ffffffffffffffff") (hex "ffffffffffffffff")
  = hex "7359b2163e4edc58".
Proof. vm_compute; reflexivity. Qed.

Example des_dec_ones :
  des_decrypt_block (hex "ffffffffffffffff") (hex "7359b2163e4edc58")
  = hex "ffffffffffffffff".
Proof. vm_compute; reflexivity. Qed.

(* Rust des 0.8.1, random *)
Example des_enc_rust_1 :
  des_encrypt_block (hex "e15333ead5ed1ce1") (hex "891728010d1f4ed4")
  = hex "f4799063e71beeef".
Proof. vm_compute; reflexivity. Qed.

Example des_dec_rust_1 :
  des_decrypt_block (hex "e15333ead5ed1ce1") (hex "f4799063e71beeef")
  = hex "891728010d1f4ed4".
Proof. vm_compute; reflexivity. Qed.

(* Rust des 0.8.1, random *)
Example des_enc_rust_2 :
  des_encrypt_block (hex "738759ba8f3a0baa") (hex "c1cda878b69333fb")
  = hex "cb18e4a487e1bd03".
Proof. vm_compute; reflexivity. Qed.

Example des_dec_rust_2 :
  des_decrypt_block (hex "738759ba8f3a0baa") (hex "cb18e4a487e1bd03")
  = hex "c1cda878b69333fb".
Proof. vm_compute; reflexivity. Qed.

(* Rust des 0.8.1, random *)
Example des_enc_rust_3 :
  des_encrypt_block (hex "12024c100b9a9e34") (hex "cf87edb287945cda")
  = hex "0b5511d2b264f2f3".
Proof. vm_compute; reflexivity. Qed.

Example des_dec_rust_3 :
  des_decrypt_block (hex "12024c100b9a9e34") (hex "0b5511d2b264f2f3")
  = hex "cf87edb287945cda".
Proof. vm_compute; reflexivity. Qed.

(* parity bits of the key are ignored *)
Example des_parity_ignored :
  des_encrypt_block (hex "123456789abcdef0") (hex "0123456789abcdef")
  = des_encrypt_block (hex "133457799bbcdff1") (hex "0123456789abcdef").
Proof. vm_compute; reflexivity. Qed.

(* 97 random vectors from the Rust des crate, encrypt and decrypt;
   together they exercise every S-box entry with overwhelming probability. *)
Definition des_rust_vectors : list (string * string * string) :=
  [
   ("133457799bbcdff1", "0123456789abcdef", "85e813540f0ab405");
   ("e15333ead5ed1ce1", "891728010d1f4ed4", "f4799063e71beeef");
   ("738759ba8f3a0baa", "c1cda878b69333fb", "cb18e4a487e1bd03");
   ("12024c100b9a9e34", "cf87edb287945cda", "0b5511d2b264f2f3");
   ("f72aa11f328b76ce", "d1091ff47f471ebc", "b48b0cd90f1e68a7");
   ("0aee9396fdd23668", "da6d92b3119d5050", "6f8d910fc59eb431");
   ("f2b7e630840c609d", "14a4e4bdd6c07012", "226d6265de171bb9");
   ("592d54166b9ed932", "4414d47cc3319c85", "8977ea03df4d79d4");
   ("df3ef9a20b9d8391", "4eb164d87a0ffa91", "377cd5355c160e18");
   ("45f741fb061484c2", "212ab4292c06f8ab", "2340001a6e534a46");
   ("419cd806963baa56", "9d9c25cd8a67f230", "5f8991015c49f9b7");
   ("8c971c383f1670d0", "e34e3fcf46f0bc7b", "39516380447dd658");
   ("a0a492be4bfc2a0b", "9cf9d132b2b78934", "f854a082336d0bda");
   ("a3d3dd7e988dcc16", "b419db4de1c2b85c", "a86a188400ca9b3f");
   ("0dccb4743a8dd90b", "00ccb9c7e5c9048f", "3c0ac2b7794a6797");
   ("78df5fea732bf55e", "5eb20ca899a49005", "5d1c85ebf7dbb073");
   ("245e300a6f318d2e", "bf5fe60984de59c7", "60ebb261a6e223c9");
   ("b1c4864466a03304", "a9d5bdda45f78fa5", "cd3f13a957207b70");
   ("8821c8167f380c93", "aa869b4617cc425e", "37859462dc53e894");
   ("7353eaac0d61edf7", "3b620e2be7ad0587", "00163a6277a70234");
   ("eb88f4d39e068de0", "946f63327999dbb0", "6e26f572a0aec152");
   ("9a8c00d357da6545", "fa6b960120281f37", "9a644a85e6250b90");
   ("885d4d952a84ab09", "f0f495ff8a9ab761", "d46c3ae0507a2321");
   ("828fc0ae5734f11c", "edc1323d1d973e26", "cafd013a7a930fa5");
   ("2af276bfc326e597", "f25f64ee63107e3b", "76a7e1f677554272");
   ("4409d0ae9c8eb34f", "9efd48060dd3d5d1", "6ddf1e38ae3f6a76");
   ("a9c9853bd6678d68", "31be60650343ff95", "98a602828c80a1ec");
   ("771f3071f8b9d15c", "fb1496270dbbba63", "1e986a727b77ba09");
   ("ecc5ea6bb3bf4dfb", "c7ad85878320d139", "211e8ed6ad97ad50");
   ("74db5dfad87930ef", "b25e79e09c1406de", "806ed0c1b79722f0");
   ("6cd3dda0182a142d", "f4a4c145c45965c8", "8187f8f8eb738a12");
   ("131c0065143eadea", "1b26b3388be06cbc", "6023a4a8daed5243");
   ("311e3f0d481c9985", "3cc4fff5a2fca4a1", "dafd84415e842604");
   ("edff111c3e62d4eb", "90b5b8d96e421017", "ae09d278143636cb");
   ("57b20b3f99064df6", "0a23ad67a6950542", "150576ff2d3070ee");
   ("20cf858a72e81b49", "56e175608dd7e14d", "0af208fca924b906");
   ("0cb23b10854bd922", "d29ac97a35c92730", "c570fe8a7e0dd9e1");
   ("8d707655adb79ba4", "f619993157937524", "14ae7bd9c76d1135");
   ("1501321c3bc41322", "ae1167304173ea5d", "5822e6b8b8b74bbb");
   ("994dc90e965647e1", "25f35fd3501f5e71", "9441614af3fea311");
   ("c86ea2b9b2b979cd", "844dba457d430a09", "b9c7c9947439fb6a");
   ("70c75b69d62ea6b4", "2136d6ba81b7053a", "7238ab476a206a74");
   ("9664fb65375f2c75", "a23e9e4008d6322a", "b5815da3bb327301");
   ("c41ea6f1e3400ea5", "936daaa96f84015f", "e4c55a34c569f3e0");
   ("04144fc380d56235", "e5c9a40fa45a9d53", "8634fd7022ff0b59");
   ("0fe0ef3c57685991", "f0eb6f7a867df3bb", "2dfc687cc6412a10");
   ("3023bd0b3ca26ab1", "5417931466a32811", "aaca0172352152a4");
   ("55d5e9a1bc1522b2", "5b62667e0dbfdecd", "32280d2b90759617");
   ("d3db580226ae195c", "436279bee2d1f0dc", "4a5d10921df4d227");
   ("616fe36fe08c7c26", "03e7ca4a956ffed7", "7b60be09fa07dc5a");
   ("bed0956b92c7cc3c", "f84131a1e366686f", "3420f589a224acfa");
   ("8cb5709ca39e2bef", "0a889711ec14238c", "029f7eb8d81d44a7");
   ("de142e018394dd31", "c4776a0498e3f4b7", "8939d028cdaf3669");
   ("f9ad8d034cec5d7c", "dd4fd4778e748a2c", "2254d4bd7ade35b2");
   ("bee18fe7361a9dbb", "ac3e34fc44ecff34", "9b2dd8653814a7cc");
   ("574f4d10589de3ac", "1dd75ae595f4352e", "fd3a84b2bef3bd4a");
   ("85c5bca23bb6cc3a", "861304fd73dd99dd", "eb6f433ff5e37fbc");
   ("26ed01fbc9a0eb53", "fe571f622771c565", "cb69951e27d488e2");
   ("7752bd8afe9993b7", "9a0844f3a6eb8a89", "bce365f8e35cfeae");
   ("7324e27bfb693841", "252cffe1709ed2a2", "5205381625da8b29");
   ("f94a86c0ddc7fd2a", "c38b54d28ac1f0ce", "75a34fecb0c6ab53");
   ("184438f8f22cdcc5", "0be8041f07e5c5db", "f18b8d0fb44b6e44");
   ("114a5ea6b691f13a", "11b719b0a39b556b", "f16dff2e0695624c");
   ("864106482c986eb3", "e0e22fefebbd30d1", "98edd1d6b588ba43");
   ("64f7cacdfc97a888", "ea1e045681e5492b", "0a4355cf030e9f13");
   ("f9222ddbf119c8e7", "e83ec216e98da734", "37af9a2d6993239a");
   ("bcb1f874423fa770", "ab1a99596f587c4c", "bee70bcaf853413f");
   ("46e61e7528923c4e", "607c089d96071c46", "30d5cfb9777035fc");
   ("03b6a37252b83b4e", "c7967caaa5965661", "1c72b33516dbe553");
   ("11f8fc63a19b4e67", "db869fa4bb04b205", "c41fef60b32b27a0");
   ("cbd97eb5bb726f45", "6b5ef6b0fa460eb7", "b06fa5477c066f1b");
   ("951c462eed3ced49", "273c3ebc46e21cc8", "ac0b07f6263304d3");
   ("49a82230e21e8684", "9ee803d911b4473d", "922cee337d3c39bd");
   ("e4d703d2ab2e2d2b", "ab8003b7bd60736f", "4db2fa94fc4b7954");
   ("d91b6d54942af208", "dea7d3b20fea26e8", "a6a0c9161332d1f3");
   ("a460687058938064", "4ac63a0030fd8ffc", "2b743d1e443ba933");
   ("fec2740116bcd0e6", "4ad3dd79c853ed95", "f754ca8df33d0cc4");
   ("550b0386a5376cf4", "c01fa371a5d3e1c1", "0a4b2d05ba32d71a");
   ("e474e9ffb635e10a", "39b75f3773d01373", "ae1b2d71b860b98b");
   ("0e3962a4444bc989", "8bc53da40ef5ca03", "96907315ca536bf7");
   ("5f7503f3dd260082", "63816d4eda5cdbe4", "5f2c2d594f918350");
   ("c2c13e9f38a374fe", "442a93cbb84d791a", "b2598a6c4ea38bb0");
   ("6f2ae5d09fd41d3d", "7b897894092771e3", "c7adaf7bb88d21a3");
   ("fee12447ab718f6a", "82827e033df53d1d", "b8a6cc9651a4b680");
   ("3d438dd0cf30b656", "562655e5812f80e9", "d05cc6310c908714");
   ("2aa59b9c3a87339d", "3fd7732df31a6203", "e69a4166a58e6e68");
   ("a26939e78858d1d4", "8af3ca39eb634d55", "08ca520637533954");
   ("4bdcd083c80dae26", "b58c493ddd548c48", "0b1239a96cc99842");
   ("216850b74a9172f2", "8da29339443d4f4b", "f094e913d689067d");
   ("4480bffbcfc23add", "bf72841521848c15", "33c381575618f355");
   ("6ce2cb0a7fc496e4", "5846ef5292de461f", "c7a9319c57def1b8");
   ("98a2dbd233bc35e3", "bb5220d5f233b8e0", "9884287d6408ba61");
   ("667621bf957dac19", "881fa54e13add936", "db3ef8ba86b5148e");
   ("a8da35db8e9cdf27", "eef9d2b5046fcb95", "9e4ecefc067b6afb");
   ("a070aa4889688f04", "feeb8f66ef75a96b", "08297178f3541308");
   ("7734299f05568a70", "5fc7dc548023373b", "0ed56f362c2bbc87");
   ("5ef58f98fc4cfb5f", "01b0a5d66afcf0f9", "4eee13ecfe6901f1")
  ].

Example des_rust_all : forallb des_kat des_rust_vectors = true.
Proof. vm_compute; reflexivity. Qed.

(* ------------------------------------------------------------------ *)
(* AES-128 single block *)

(* FIPS 197 Appendix B *)
Example aes_fips197_B :
  aes128_encrypt_block (hex "2b7e151628aed2a6abf7158809cf4f3c") (hex "3243f6a8885a308d313198a2e0370734")
  = hex "3925841d02dc09fbdc118597196a0b32".
Proof. vm_compute; reflexivity. Qed.

(* FIPS 197 Appendix C.1 *)
Example aes_fips197_C1 :
  aes128_encrypt_block (hex "000102030405060708090a0b0c0d0e0f") (hex "00112233445566778899aabbccddeeff")
  = hex "69c4e0d86a7b0430d8cdb78070b4c55a".
Proof. vm_compute; reflexivity. Qed.

(* FIPS 197 Appendix A.1: last round key of the key expansion *)
Example aes_fips197_A1_last_round_key :
  nth 10 (aes128_round_keys (hex "2b7e151628aed2a6abf7158809cf4f3c")) []
  = hex "d014f9a8c9ee2589e13f0cc8b6630ca6".
Proof. vm_compute; reflexivity. Qed.

(* SP 800-38A F.1.1 ECB-AES128 block 1 *)
Example aes_sp800_38a_ecb1 :
  aes128_encrypt_block (hex "2b7e151628aed2a6abf7158809cf4f3c") (hex "6bc1bee22e409f96e93d7e117393172a")
  = hex "3ad77bb40d7a3660a89ecaf32466ef97".
Proof. vm_compute; reflexivity. Qed.

(* 32 random vectors from the Rust aes crate *)
Definition aes_rust_vectors : list (string * string * string) :=
  [
   ("e99b879998645cdc3cbb4c9270fd0018", "16b22e9ac2898beddf0a81f7912a94d9", "772775f0597635285badd468d9925e6e");
   ("86c635e3f48b83e9ba00cde3b3c11752", "70040527f31530c80df66dce709bc6ac", "00f7800c332021ea25e48d0dc37fba6d");
   ("b9a76272c212f0f676fbe8246c2e301d", "caad1a7c7df9291ac822e925c0c4151e", "c2c4dafffd1948cc8d35807e0f04edfa");
   ("915828c778848d4f57d6d7f0f5551f58", "36f9e62b354f7b6b38b9b51e178d0ccc", "2341f746f30780e0a881f5a66855fe71");
   ("0484b725ade8fcaaed8ec277517cacb5", "ff70bb9466bdee640dae5a499f6f49a6", "c970fb9d605fa1093677da3351fd174c");
   ("b05aff45e582c932538395cf1875ef5f", "a300b0d9e5738412a78e323a3e0e16da", "0772ba479146ed956ff59fca7238f198");
   ("17f5d78de90e2706927d3dccec7f2a1b", "5dac09519fa971abadc5f49a4e5a8032", "8e44abcbd9921900d6e03aeacd9c1f61");
   ("694aa8c4917e2a467c4479556ca31ef5", "1cbb1d7fac9a94d63974b9c1cc2bf4fe", "6e9dc4512567aac563d6ea616737a6be");
   ("ba99964618377c9116a21f369f8de95a", "0f5ec588df03716c70b687c8075b5677", "aa82a6f1684b72be9ef329d30f206435");
   ("ce5525bdeecd990d71f9e97be9ee5bc7", "9ce43e23da1eabc2a7745a1ed5679aa5", "8cafa5c94aac1b5b4ff89026e3dc668e");
   ("5293694e083f89ed0e4bb93c7c56d1e9", "e8659a149821fc6905acaea03f8adcc2", "547f7c668a32c6fc890b78e930301433");
   ("a0f7a957b0b81471c0c665fd48918e41", "d4eca01f8739aa76a143872ab85afa22", "7a99df829cd7f8bb25f400fab8e367b5");
   ("0120899ed7c881730dd6fe796a87924d", "7f283d7c11098944274df7acc7e6ae95", "31f40d56164c6c7d28c8186fa6d18b7f");
   ("6c98b809e823ca660bae9efd2395f62a", "489869cab2a66bbef3df2dc53e51274e", "b2e213a7533fe32a56598ae039870f6e");
   ("c73e10d314de5adac956aa3b436cc2ba", "4f37908a87131e20b858f9d0e9f21d47", "257a75560a6e914a578664bc08b8aa48");
   ("ab334a3c282b4187253aa09f1c6f4a48", "74a77b0e6040e43d9e32d87ebdec7226", "eee763ac78f9a5c031db374b4f403cb2");
   ("a2491bc6db97f1ce38325d24f38c03b0", "d9e4bbf250876c44e4497ceb8c5346a4", "a7e028b9c5201773e6dbe235528efa6b");
   ("e6efe8e5a0c672be3014e9aaf39fdcfe", "e66c900fbfa54a0500afd32f35c1906f", "fb4727c8601406efae94847549bb27bf");
   ("aa9ce734f7b02398b3bfbdca9a4a1b9c", "c4ed52f1f93cf0b640f5957953773990", "9f6efdcc03724dd1b55f213daf8cadf7");
   ("d1c0ce2a3f5fead9c1a9902aaf54b2ee", "64725dc942cf2b38eef7479d70fab452", "fe5c94d46b0563fae41f0ee61e8d7298");
   ("372ff654042ef4b912e99956ac861a7b", "fb1274e8663d14deeb2bc930b92e15a3", "148e28a7000c9c20619de654d2a0a745");
   ("6d0d0902d47fea33fdc8610eb708ad95", "071ab1aec6be92aed7715a1927f6affd", "4805438ba7d2407e9d3b1752ccadd6ed");
   ("fc3b2a828c00ac8bd0cd03240e3e7a77", "cebde902f0634c28ac5728a5374d29ca", "b36e66bbbb286796efc1433bd268554c");
   ("28479ad22c638850ba45fec9f923a5f0", "5f3c9648ab0f278ce3f1512019e71646", "684c5b87a1c362e7c62086d8c6111766");
   ("2cd6e7d6279ef6e4275975663a2a3a85", "139b43d28bf83b9f131e73e5604d13e9", "a8bb6b3cba3ee8c4d4e76fe82f223a4e");
   ("0092910f34a4ce7ea294fff101988a19", "8fc76fd9fda04eed1357aff933775c47", "6133fd67cdb222e9ceeb5b7272353761");
   ("959635ca9ea702b134f1eebf5c62020c", "4544fef1de57ce919aff381b01ede579", "430d95ae357d15085625b34211e34ff8");
   ("9c5d34dd17d1d8734b6c14df248884e7", "715e1afc8b32467a612c5559ae61f4ff", "012731a6bae966b27cbfd6bb1f8eefca");
   ("c12dddd60984a39b140913e874f7437c", "a2d3a1a16c8d5e2dc3f5f22b45d03c28", "4b65e87e64ee3e049a5ea0091a23cf20");
   ("720717b26213f9ef6167215295e0168f", "b4ff0e410c044c0fe042a2002c1873f4", "36c57e75569d7f3cbf1ba4e406f6e97e");
   ("1b0f8a11ed0571a306c9514b749a56f7", "518cde6ba9f4d2243a162c57d01d6a7b", "58ae23d12d65517841dac747dd551082");
   ("e77e44f01dccd75ebea3600a8dfa3645", "f99c7dd14176b65adc5a9457db61abd1", "94e547ce5cf59d70634684924d52e59a")
  ].

Example aes_rust_all : forallb aes_kat aes_rust_vectors = true.
Proof. vm_compute; reflexivity. Qed.

(* ------------------------------------------------------------------ *)
(* CBC-DES *)

(* FIPS 81 CBC example: "Now is the time for all " (also cross-checked with Rust cbc + des) *)
Example des_cbc_fips81_enc :
  cbc_encrypt (des_encrypt_block (hex "0123456789abcdef")) 8 (hex "1234567890abcdef")
    (hex "4e6f77206973207468652074696d6520666f7220616c6c20")
  = hex "e5c7cdde872bf27c43e934008c389c0f683788499a7c05f6".
Proof. vm_compute; reflexivity. Qed.

Example des_cbc_fips81_dec :
  cbc_decrypt (des_decrypt_block (hex "0123456789abcdef")) 8 (hex "1234567890abcdef")
    (hex "e5c7cdde872bf27c43e934008c389c0f683788499a7c05f6")
  = hex "4e6f77206973207468652074696d6520666f7220616c6c20".
Proof. vm_compute; reflexivity. Qed.

(* Rust cbc 0.1.2 + des 0.8.1, 5 blocks *)
Example des_cbc_rust_enc :
  cbc_encrypt (des_encrypt_block (hex "08f5ca5829078a91")) 8 (hex "7e1a63b077949bae")
    (hex "70087696a71e792e516e519473ecb60a991496a94a03c6cb709ccf23c2b91f56a722f52ca22268a0")
  = hex "1d8fcf50b56a5e5d43b65e6d9d5812e3bd013952d4f71e5e093e54058caaaf65a1fe70a213919103".
Proof. vm_compute; reflexivity. Qed.

Example des_cbc_rust_dec :
  cbc_decrypt (des_decrypt_block (hex "08f5ca5829078a91")) 8 (hex "7e1a63b077949bae")
    (hex "1d8fcf50b56a5e5d43b65e6d9d5812e3bd013952d4f71e5e093e54058caaaf65a1fe70a213919103")
  = hex "70087696a71e792e516e519473ecb60a991496a94a03c6cb709ccf23c2b91f56a722f52ca22268a0".
Proof. vm_compute; reflexivity. Qed.

(* Rust cbc + des, lengths 8, 24, 40, 64 *)
Definition des_cbc_rust_vectors : list (string * string * string * string) :=
  [
   ("070de9d56105e8c3", "89aaf9a762369be9",
    "7b78aebf26dbbc48",
    "59923f0940c3af13");
   ("f5309fdde1218d6c", "6adf558cf2368c73",
    "8f5e826d673c76d8fbbd720d0faa1a7afcbbe51694f5d007",
    "adf8b2ee7839dd604e27f52e710b0aed40b2b0f22aea4920");
   ("08f5ca5829078a91", "7e1a63b077949bae",
    "70087696a71e792e516e519473ecb60a991496a94a03c6cb709ccf23c2b91f56a722f52ca22268a0",
    "1d8fcf50b56a5e5d43b65e6d9d5812e3bd013952d4f71e5e093e54058caaaf65a1fe70a213919103");
   ("5dd92fe0fc26986d", "de373e51dad4f8db",
    "47170eab3ffa282ec3b2270f4acd55cb35f5b6915cf4041b5e7726396cfee78e91bf44b79fd151ac3f6225df90600bb0b8f30be1a27655dda77eb997f5201d49",
    "abe0d6004db84c216afb7f8f69be9e5de46ea3439c493a1addcc57d8ce0bd835ca14ff7ef9571a42c511927aa60b8e13e14f2f07ae8bf6535959bd6d52127d0f")
  ].

Example des_cbc_rust_all : forallb des_cbc_kat des_cbc_rust_vectors = true.
Proof. vm_compute; reflexivity. Qed.

(* ------------------------------------------------------------------ *)
(* CFB128-AES128 *)

(* NIST SP 800-38A F.3.13 CFB128-AES128.Encrypt, blocks 1-2 *)
Example aes_cfb_sp800_38a_2blocks :
  cfb_encrypt (aes128_encrypt_block (hex "2b7e151628aed2a6abf7158809cf4f3c")) 16 (hex "000102030405060708090a0b0c0d0e0f")
    (hex "6bc1bee22e409f96e93d7e117393172aae2d8a571e03ac9c9eb76fac45af8e51")
  = hex "3b3fd92eb72dad20333449f8e83cfb4ac8a64537a0b3a93fcde3cdad9f1ce58b".
Proof. vm_compute; reflexivity. Qed.

(* F.3.13 all four blocks, and F.3.14 Decrypt *)
Example aes_cfb_sp800_38a_enc :
  cfb_encrypt (aes128_encrypt_block (hex "2b7e151628aed2a6abf7158809cf4f3c")) 16 (hex "000102030405060708090a0b0c0d0e0f")
    (hex "6bc1bee22e409f96e93d7e117393172aae2d8a571e03ac9c9eb76fac45af8e5130c81c46a35ce411e5fbc1191a0a52eff69f2445df4f9b17ad2b417be66c3710")
  = hex "3b3fd92eb72dad20333449f8e83cfb4ac8a64537a0b3a93fcde3cdad9f1ce58b26751f67a3cbb140b1808cf187a4f4dfc04b05357c5d1c0eeac4c66f9ff7f2e6".
Proof. vm_compute; reflexivity. Qed.

Example aes_cfb_sp800_38a_dec :
  cfb_decrypt (aes128_encrypt_block (hex "2b7e151628aed2a6abf7158809cf4f3c")) 16 (hex "000102030405060708090a0b0c0d0e0f")
    (hex "3b3fd92eb72dad20333449f8e83cfb4ac8a64537a0b3a93fcde3cdad9f1ce58b26751f67a3cbb140b1808cf187a4f4dfc04b05357c5d1c0eeac4c66f9ff7f2e6")
  = hex "6bc1bee22e409f96e93d7e117393172aae2d8a571e03ac9c9eb76fac45af8e5130c81c46a35ce411e5fbc1191a0a52eff69f2445df4f9b17ad2b417be66c3710".
Proof. vm_compute; reflexivity. Qed.

(* same key/IV, plaintext truncated to 37 bytes (not a multiple of 16); Rust cfb-mode 0.8.2 *)
Example aes_cfb_partial_enc :
  cfb_encrypt (aes128_encrypt_block (hex "2b7e151628aed2a6abf7158809cf4f3c")) 16 (hex "000102030405060708090a0b0c0d0e0f")
    (hex "6bc1bee22e409f96e93d7e117393172aae2d8a571e03ac9c9eb76fac45af8e5130c81c46a3")
  = hex "3b3fd92eb72dad20333449f8e83cfb4ac8a64537a0b3a93fcde3cdad9f1ce58b26751f67a3".
Proof. vm_compute; reflexivity. Qed.

Example aes_cfb_partial_dec :
  cfb_decrypt (aes128_encrypt_block (hex "2b7e151628aed2a6abf7158809cf4f3c")) 16 (hex "000102030405060708090a0b0c0d0e0f")
    (hex "3b3fd92eb72dad20333449f8e83cfb4ac8a64537a0b3a93fcde3cdad9f1ce58b26751f67a3")
  = hex "6bc1bee22e409f96e93d7e117393172aae2d8a571e03ac9c9eb76fac45af8e5130c81c46a3".
Proof. vm_compute; reflexivity. Qed.

(* Rust cfb-mode + aes, lengths 1, 15, 16, 17, 37, 64, 75 *)
Definition aes_cfb_rust_vectors : list (string * string * string * string) :=
  [
   ("e8d4bd12bac97b806e935813a2c4a517", "3286d1c36db4c8ba117015a09dad260d",
    "d1",
    "d4");
   ("30b33a83d027417c885ceef4870cdc7d", "b22d75203e1bdbfd5831c00e2944fc23",
    "559a33791f5489f0116df1d955edab",
    "8e7dc918203b0b2eac3f12bdc329de");
   ("a11953969149a2f69716874f45eaad61", "e1f9e6de968fd29eabba4fd690fb314a",
    "f6c88bbf3c4ae12c17cd3dc2e5523f30",
    "a908b947d1f2927c2e0ecc7ee85ced09");
   ("9f1257cfc1791d986c76b5ffd3defa60", "c484bb91f117a37582ced067088bbc0f",
    "6265be9cc213ba06ced02c6eedff19b366",
    "1a017af1f28cb7805b37a430ec95f6fa3c");
   ("957551077d987fea0739948cc982d902", "9449baad4e080fcb93863b487107f4e9",
    "1677f70e666b1530ed985ce9ffc4a508a54ecdd72fa21bbcfbbc867d5a61ff2bc1bcc7fd6d",
    "36fbde09e67e9171be544bf302df6acc1bd35a80a98730ee55f23c6a3162423f78929fb0c6");
   ("580546ed5fc88124454713178e7d46b2", "2ff9db6061ede86fdda4823a0066e502",
    "4a85ee55f88c6deb8d59b66a04cfa421c27e42638282b7f1c3e9d8e0ce6a24047317fcc4ee36d302a6c0db2b29f4adf6b2b16f9c14407b2aecd04e14027710dd",
    "9ad22e98d4462a610b146db84c1142f09a415f2eb65ed56cc0ed72a038846d6b8b62341c60a5201584c466f20e1b5ab403ca018f33a132a6f32902fce586977c");
   ("63ed16179ae9b5ce52ada288c0a41f34", "ee6c42c6db003b6a349d5d0fd8cd2f22",
    "a0d2f7d2489040aac627c45221ef3248dd80806dd4ec0083759975247260e2adc4892e13de93a2a1e20b7296fc927f61af5fd2181d76eecb04592197e46f9b3c12b960fa0d0c55adeb97b8",
    "926addb26050909aba6b98d19b363a975efeecf158a12e8f0f5bfe7de2ca5685c314349321d4b28438b51577211de97250c92f784091b2496e9be4fbec6a49eeb7bcda4cb5b93523dd07f1")
  ].

Example aes_cfb_rust_all : forallb aes_cfb_kat aes_cfb_rust_vectors = true.
Proof. vm_compute; reflexivity. Qed.

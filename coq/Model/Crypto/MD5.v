(* GS.Model.Crypto.MD5
   Executable MD5 (RFC 1321) on lists of Z bytes.  Definitions only;
   test vectors are in HashVectors.v, the streaming law in
   GS.Proofs.HashStream. *)
From Coq Require Import ZArith List.
From GS Require Import Model.Crypto.HashCommon.
Import ListNotations.
Open Scope Z_scope.

(* chaining value (A, B, C, D) *)
Definition md5_words : Type := (Z * Z * Z * Z)%type.

Definition md5_iv : md5_words := (1732584193, 4023233417, 2562383102, 271733878).

(* RFC 1321 section 3.4 auxiliary functions *)
Definition md5_F (x y z : Z) : Z := Z.lor (Z.land x y) (Z.land (not32 x) z).
Definition md5_G (x y z : Z) : Z := Z.lor (Z.land x z) (Z.land y (not32 z)).
Definition md5_H (x y z : Z) : Z := Z.lxor x (Z.lxor y z).
Definition md5_I (x y z : Z) : Z := Z.lxor y (Z.lor x (not32 z)).

(* One table per round of 16 steps.  An entry is (T[i], s, k): the sine
   constant floor(2^32 * |sin(i+1)|), the rotation amount and the index
   of the message word used by step i. *)
Definition md5_T1 : list (Z * Z * nat) :=
  [ (3614090360, 7, 0%nat);  (3905402710, 12, 1%nat);  (606105819, 17, 2%nat);  (3250441966, 22, 3%nat);
    (4118548399, 7, 4%nat);  (1200080426, 12, 5%nat);  (2821735955, 17, 6%nat);  (4249261313, 22, 7%nat);
    (1770035416, 7, 8%nat);  (2336552879, 12, 9%nat);  (4294925233, 17, 10%nat);  (2304563134, 22, 11%nat);
    (1804603682, 7, 12%nat);  (4254626195, 12, 13%nat);  (2792965006, 17, 14%nat);  (1236535329, 22, 15%nat) ].

Definition md5_T2 : list (Z * Z * nat) :=
  [ (4129170786, 5, 1%nat);  (3225465664, 9, 6%nat);  (643717713, 14, 11%nat);  (3921069994, 20, 0%nat);
    (3593408605, 5, 5%nat);  (38016083, 9, 10%nat);  (3634488961, 14, 15%nat);  (3889429448, 20, 4%nat);
    (568446438, 5, 9%nat);  (3275163606, 9, 14%nat);  (4107603335, 14, 3%nat);  (1163531501, 20, 8%nat);
    (2850285829, 5, 13%nat);  (4243563512, 9, 2%nat);  (1735328473, 14, 7%nat);  (2368359562, 20, 12%nat) ].

Definition md5_T3 : list (Z * Z * nat) :=
  [ (4294588738, 4, 5%nat);  (2272392833, 11, 8%nat);  (1839030562, 16, 11%nat);  (4259657740, 23, 14%nat);
    (2763975236, 4, 1%nat);  (1272893353, 11, 4%nat);  (4139469664, 16, 7%nat);  (3200236656, 23, 10%nat);
    (681279174, 4, 13%nat);  (3936430074, 11, 0%nat);  (3572445317, 16, 3%nat);  (76029189, 23, 6%nat);
    (3654602809, 4, 9%nat);  (3873151461, 11, 12%nat);  (530742520, 16, 15%nat);  (3299628645, 23, 2%nat) ].

Definition md5_T4 : list (Z * Z * nat) :=
  [ (4096336452, 6, 0%nat);  (1126891415, 10, 7%nat);  (2878612391, 15, 14%nat);  (4237533241, 21, 5%nat);
    (1700485571, 6, 12%nat);  (2399980690, 10, 3%nat);  (4293915773, 15, 10%nat);  (2240044497, 21, 1%nat);
    (1873313359, 6, 8%nat);  (4264355552, 10, 15%nat);  (2734768916, 15, 6%nat);  (1309151649, 21, 13%nat);
    (4149444226, 6, 4%nat);  (3174756917, 10, 11%nat);  (718787259, 15, 2%nat);  (3951481745, 21, 9%nat) ].

(* one step: (a,b,c,d) -> (d, b + ((a + f(b,c,d) + X[k] + T[i]) <<< s), b, c) *)
Definition md5_step (f : Z -> Z -> Z -> Z) (x : list Z)
           (st : md5_words) (e : Z * Z * nat) : md5_words :=
  let '(a, b, c, d) := st in
  let '(t, s, k) := e in
  let v := Z.land (a + f b c d + nth k x 0 + t) MASK32 in
  (d, Z.land (b + rotl32 v s) MASK32, b, c).

(* compression of one 64-byte block (bytes in order) *)
Definition md5_compress (h : md5_words) (block : list Z) : md5_words :=
  let x := le_words block in
  let s1 := fold_left (md5_step md5_F x) md5_T1 h in
  let s2 := fold_left (md5_step md5_G x) md5_T2 s1 in
  let s3 := fold_left (md5_step md5_H x) md5_T3 s2 in
  let s4 := fold_left (md5_step md5_I x) md5_T4 s3 in
  let '(a0, b0, c0, d0) := h in
  let '(a, b, c, d) := s4 in
  (add32 a0 a, add32 b0 b, add32 c0 c, add32 d0 d).

(* ---------- streaming interface ---------- *)

Definition md5_state : Type := hstate md5_words.

Definition md5_init : md5_state := hs_start md5_iv.

Definition md5_update : md5_state -> list Z -> md5_state := hs_update md5_compress.

Definition md5_final (s : md5_state) : list Z :=
  let '(a, b, c, d) := hs_finish md5_compress (le64_bytes (8 * hs_total s)) s in
  le_bytes a ++ le_bytes b ++ le_bytes c ++ le_bytes d.

Definition md5 : list Z -> list Z := fun l => md5_final (md5_update md5_init l).

(* DES block cipher (FIPS 46-3), executable Gallina model.

   Conventions: a byte is a [Z] in 0..255, byte strings are [list Z].
   Internally a block is a [list bool], most significant bit first
   (bit 1 of FIPS 46-3 is the head of the list).  All permutation tables
   are the published 1-indexed tables.

   Structure (chosen so that the inverse theorem decomposes cleanly):
     bytes -> 64 bits -> IP -> split -> 16 Feistel rounds -> swap -> FP -> bytes
   Decryption is the same network run with the reversed subkey list. *)

Require Import ZArith List Bool.
Import ListNotations.
Local Open Scope Z_scope.

(* ------------------------------------------------------------------ *)
(* bytes <-> bits *)

Definition byte_to_bits (x : Z) : list bool :=
  [Z.testbit x 7; Z.testbit x 6; Z.testbit x 5; Z.testbit x 4;
   Z.testbit x 3; Z.testbit x 2; Z.testbit x 1; Z.testbit x 0].

Definition bytes_to_bits (l : list Z) : list bool := flat_map byte_to_bits l.

Definition b2z (b : bool) (w : Z) : Z := if b then w else 0.

Definition bits_to_byte (b7 b6 b5 b4 b3 b2 b1 b0 : bool) : Z :=
  b2z b7 128 + b2z b6 64 + b2z b5 32 + b2z b4 16 +
  b2z b3 8 + b2z b2 4 + b2z b1 2 + b2z b0 1.

(* Trailing bits that do not fill a byte are dropped. *)
Fixpoint bits_to_bytes (l : list bool) : list Z :=
  match l with
  | b7 :: b6 :: b5 :: b4 :: b3 :: b2 :: b1 :: b0 :: rest =>
      bits_to_byte b7 b6 b5 b4 b3 b2 b1 b0 :: bits_to_bytes rest
  | _ => []
  end.

(* ------------------------------------------------------------------ *)
(* bit-list helpers *)

(* [xor_bits l x] keeps the length of [l]; positions beyond the end of [x]
   are left unchanged.  With this definition
   [xor_bits (xor_bits l x) x = l] holds without any length side condition. *)
Fixpoint xor_bits (l x : list bool) : list bool :=
  match l, x with
  | a :: l', b :: x' => xorb a b :: xor_bits l' x'
  | _, _ => l
  end.

(* Apply a 1-indexed selection table. *)
Definition permute (tbl : list nat) (bits : list bool) : list bool :=
  map (fun i => nth (Nat.pred i) bits false) tbl.

Definition rotl1 (l : list bool) : list bool :=
  match l with
  | [] => []
  | x :: t => t ++ [x]
  end.

Fixpoint rotl (n : nat) (l : list bool) : list bool :=
  match n with
  | O => l
  | S n' => rotl n' (rotl1 l)
  end.

(* ------------------------------------------------------------------ *)
(* tables *)

Definition IP_tbl : list nat :=
  [58;50;42;34;26;18;10;2;
   60;52;44;36;28;20;12;4;
   62;54;46;38;30;22;14;6;
   64;56;48;40;32;24;16;8;
   57;49;41;33;25;17;9;1;
   59;51;43;35;27;19;11;3;
   61;53;45;37;29;21;13;5;
   63;55;47;39;31;23;15;7]%nat.

Definition FP_tbl : list nat :=
  [40;8;48;16;56;24;64;32;
   39;7;47;15;55;23;63;31;
   38;6;46;14;54;22;62;30;
   37;5;45;13;53;21;61;29;
   36;4;44;12;52;20;60;28;
   35;3;43;11;51;19;59;27;
   34;2;42;10;50;18;58;26;
   33;1;41;9;49;17;57;25]%nat.

Definition E_tbl : list nat :=
  [32;1;2;3;4;5;
   4;5;6;7;8;9;
   8;9;10;11;12;13;
   12;13;14;15;16;17;
   16;17;18;19;20;21;
   20;21;22;23;24;25;
   24;25;26;27;28;29;
   28;29;30;31;32;1]%nat.

Definition P_tbl : list nat :=
  [16;7;20;21;29;12;28;17;
   1;15;23;26;5;18;31;10;
   2;8;24;14;32;27;3;9;
   19;13;30;6;22;11;4;25]%nat.

Definition PC1_tbl : list nat :=
  [57;49;41;33;25;17;9;
   1;58;50;42;34;26;18;
   10;2;59;51;43;35;27;
   19;11;3;60;52;44;36;
   63;55;47;39;31;23;15;
   7;62;54;46;38;30;22;
   14;6;61;53;45;37;29;
   21;13;5;28;20;12;4]%nat.

Definition PC2_tbl : list nat :=
  [14;17;11;24;1;5;
   3;28;15;6;21;10;
   23;19;12;4;26;8;
   16;7;27;20;13;2;
   41;52;31;37;47;55;
   30;40;51;45;33;48;
   44;49;39;56;34;53;
   46;42;50;36;29;32]%nat.

Definition key_shifts : list nat :=
  [1;1;2;2;2;2;2;2;1;2;2;2;2;2;2;1]%nat.

(* S-boxes, row-major: entry (row, col) is at index 16*row + col. *)
Definition S1 : list nat :=
  [14;4;13;1;2;15;11;8;3;10;6;12;5;9;0;7;
   0;15;7;4;14;2;13;1;10;6;12;11;9;5;3;8;
   4;1;14;8;13;6;2;11;15;12;9;7;3;10;5;0;
   15;12;8;2;4;9;1;7;5;11;3;14;10;0;6;13]%nat.
Definition S2 : list nat :=
  [15;1;8;14;6;11;3;4;9;7;2;13;12;0;5;10;
   3;13;4;7;15;2;8;14;12;0;1;10;6;9;11;5;
   0;14;7;11;10;4;13;1;5;8;12;6;9;3;2;15;
   13;8;10;1;3;15;4;2;11;6;7;12;0;5;14;9]%nat.
Definition S3 : list nat :=
  [10;0;9;14;6;3;15;5;1;13;12;7;11;4;2;8;
   13;7;0;9;3;4;6;10;2;8;5;14;12;11;15;1;
   13;6;4;9;8;15;3;0;11;1;2;12;5;10;14;7;
   1;10;13;0;6;9;8;7;4;15;14;3;11;5;2;12]%nat.
Definition S4 : list nat :=
  [7;13;14;3;0;6;9;10;1;2;8;5;11;12;4;15;
   13;8;11;5;6;15;0;3;4;7;2;12;1;10;14;9;
   10;6;9;0;12;11;7;13;15;1;3;14;5;2;8;4;
   3;15;0;6;10;1;13;8;9;4;5;11;12;7;2;14]%nat.
Definition S5 : list nat :=
  [2;12;4;1;7;10;11;6;8;5;3;15;13;0;14;9;
   14;11;2;12;4;7;13;1;5;0;15;10;3;9;8;6;
   4;2;1;11;10;13;7;8;15;9;12;5;6;3;0;14;
   11;8;12;7;1;14;2;13;6;15;0;9;10;4;5;3]%nat.
Definition S6 : list nat :=
  [12;1;10;15;9;2;6;8;0;13;3;4;14;7;5;11;
   10;15;4;2;7;12;9;5;6;1;13;14;0;11;3;8;
   9;14;15;5;2;8;12;3;7;0;4;10;1;13;11;6;
   4;3;2;12;9;5;15;10;11;14;1;7;6;0;8;13]%nat.
Definition S7 : list nat :=
  [4;11;2;14;15;0;8;13;3;12;9;7;5;10;6;1;
   13;0;11;7;4;9;1;10;14;3;5;12;2;15;8;6;
   1;4;11;13;12;3;7;14;10;15;6;8;0;5;9;2;
   6;11;13;8;1;4;10;7;9;5;0;15;14;2;3;12]%nat.
Definition S8 : list nat :=
  [13;2;8;4;6;15;11;1;10;9;3;14;5;0;12;7;
   1;15;13;8;10;3;7;4;12;5;6;11;0;14;9;2;
   7;11;4;1;9;12;14;2;0;6;10;13;15;3;5;8;
   2;1;14;7;4;10;8;13;15;12;9;0;3;5;6;11]%nat.

Definition SBOXES : list (list nat) := [S1;S2;S3;S4;S5;S6;S7;S8].

(* ------------------------------------------------------------------ *)
(* round function *)

Definition b2n (b : bool) (w : nat) : nat := if b then w else O.

Definition nibble_bits (n : nat) : list bool :=
  [Nat.testbit n 3; Nat.testbit n 2; Nat.testbit n 1; Nat.testbit n 0].

(* Consume 6 bits per S-box; row = b1 b6, column = b2 b3 b4 b5. *)
Fixpoint sboxes_apply (boxes : list (list nat)) (bits : list bool) : list bool :=
  match boxes, bits with
  | bx :: boxes', b1 :: b2 :: b3 :: b4 :: b5 :: b6 :: rest =>
      let idx := (b2n b1 32 + b2n b6 16 + b2n b2 8 + b2n b3 4 + b2n b4 2 + b2n b5 1)%nat in
      nibble_bits (nth idx bx O) ++ sboxes_apply boxes' rest
  | _, _ => []
  end.

(* f(R, K) = P(S(E(R) xor K)) *)
Definition des_f (k : list bool) (r : list bool) : list bool :=
  permute P_tbl (sboxes_apply SBOXES (xor_bits (permute E_tbl r) k)).

(* ------------------------------------------------------------------ *)
(* generic Feistel network over an arbitrary round function *)

Definition feistel_round (f : list bool -> list bool -> list bool)
           (st : list bool * list bool) (k : list bool) : list bool * list bool :=
  (snd st, xor_bits (fst st) (f k (snd st))).

Definition feistel (f : list bool -> list bool -> list bool)
           (ks : list (list bool)) (st : list bool * list bool) : list bool * list bool :=
  fold_left (feistel_round f) ks st.

(* ------------------------------------------------------------------ *)
(* key schedule *)

Fixpoint subkeys_aux (shifts : list nat) (c d : list bool) : list (list bool) :=
  match shifts with
  | [] => []
  | s :: rest =>
      let c' := rotl s c in
      let d' := rotl s d in
      permute PC2_tbl (c' ++ d') :: subkeys_aux rest c' d'
  end.

(* 16 subkeys of 48 bits; the parity bits (8, 16, ..., 64) are not selected by PC1. *)
Definition des_subkeys (key : list Z) : list (list bool) :=
  let kb := permute PC1_tbl (bytes_to_bits key) in
  subkeys_aux key_shifts (firstn 28 kb) (skipn 28 kb).

(* ------------------------------------------------------------------ *)
(* block operation *)

Definition des_core (ks : list (list bool)) (blk : list bool) : list bool :=
  let x := permute IP_tbl blk in
  let st := feistel des_f ks (firstn 32 x, skipn 32 x) in
  permute FP_tbl (snd st ++ fst st).

Definition des_encrypt_with (ks : list (list bool)) (block : list Z) : list Z :=
  bits_to_bytes (des_core ks (bytes_to_bits block)).

Definition des_decrypt_with (ks : list (list bool)) (block : list Z) : list Z :=
  bits_to_bytes (des_core (rev ks) (bytes_to_bits block)).

(* Written as [let ks := ... in fun block => ...] so that, after extraction, a
   partial application [des_encrypt_block key] computes the key schedule once. *)
Definition des_encrypt_block (key : list Z) : list Z -> list Z :=
  let ks := des_subkeys key in
  fun block => des_encrypt_with ks block.

Definition des_decrypt_block (key : list Z) : list Z -> list Z :=
  let ks := rev (des_subkeys key) in
  fun block => bits_to_bytes (des_core ks (bytes_to_bits block)).

(* Block cipher modes of operation, generic over the block function.

   CBC (NIST SP 800-38A 6.2) and full-block CFB (SP 800-38A 6.3 with s = b,
   as used by RFC 3826 for AES and by the cfb-mode crate): the keystream block
   is E(previous ciphertext block, or IV for the first block); a final partial
   block uses the prefix of the keystream block.

   Recursion is on a nat fuel; the top-level functions pass [length text],
   which is always enough when [bs > 0]. *)

Require Import ZArith List.
Import ListNotations.
Local Open Scope Z_scope.

(* Same-position xor, truncating to the shorter list. *)
Fixpoint xor_bytes (a b : list Z) : list Z :=
  match a, b with
  | x :: a', y :: b' => Z.lxor x y :: xor_bytes a' b'
  | _, _ => []
  end.

(* ------------------------------------------------------------------ *)
(* CBC *)

Fixpoint cbc_encrypt_aux (E : list Z -> list Z) (bs : nat) (fuel : nat)
         (prev : list Z) (pt : list Z) : list Z :=
  match fuel with
  | O => []
  | S fuel' =>
      match pt with
      | [] => []
      | _ :: _ =>
          let c := E (xor_bytes (firstn bs pt) prev) in
          c ++ cbc_encrypt_aux E bs fuel' c (skipn bs pt)
      end
  end.

Definition cbc_encrypt (E : list Z -> list Z) (bs : nat) (iv : list Z) (pt : list Z) : list Z :=
  cbc_encrypt_aux E bs (length pt) iv pt.

Fixpoint cbc_decrypt_aux (D : list Z -> list Z) (bs : nat) (fuel : nat)
         (prev : list Z) (ct : list Z) : list Z :=
  match fuel with
  | O => []
  | S fuel' =>
      match ct with
      | [] => []
      | _ :: _ =>
          let c := firstn bs ct in
          xor_bytes (D c) prev ++ cbc_decrypt_aux D bs fuel' c (skipn bs ct)
      end
  end.

Definition cbc_decrypt (D : list Z -> list Z) (bs : nat) (iv : list Z) (ct : list Z) : list Z :=
  cbc_decrypt_aux D bs (length ct) iv ct.

(* ------------------------------------------------------------------ *)
(* CFB, segment size = block size *)

Fixpoint cfb_encrypt_aux (E : list Z -> list Z) (bs : nat) (fuel : nat)
         (prev : list Z) (pt : list Z) : list Z :=
  match fuel with
  | O => []
  | S fuel' =>
      match pt with
      | [] => []
      | _ :: _ =>
          let c := xor_bytes (firstn bs pt) (E prev) in
          c ++ cfb_encrypt_aux E bs fuel' c (skipn bs pt)
      end
  end.

Definition cfb_encrypt (E : list Z -> list Z) (bs : nat) (iv : list Z) (pt : list Z) : list Z :=
  cfb_encrypt_aux E bs (length pt) iv pt.

Fixpoint cfb_decrypt_aux (E : list Z -> list Z) (bs : nat) (fuel : nat)
         (prev : list Z) (ct : list Z) : list Z :=
  match fuel with
  | O => []
  | S fuel' =>
      match ct with
      | [] => []
      | _ :: _ =>
          let c := firstn bs ct in
          xor_bytes c (E prev) ++ cfb_decrypt_aux E bs fuel' c (skipn bs ct)
      end
  end.

Definition cfb_decrypt (E : list Z -> list Z) (bs : nat) (iv : list Z) (ct : list Z) : list Z :=
  cfb_decrypt_aux E bs (length ct) iv ct.

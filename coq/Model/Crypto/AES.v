(* AES-128 forward cipher (FIPS 197), executable Gallina model.

   Conventions: a byte is a [Z] in 0..255, byte strings are [list Z].
   The state is the 16-byte list in input order, i.e. column-major:
   state byte (row r, column c) is at index r + 4*c. *)

Require Import ZArith List.
Import ListNotations.
Local Open Scope Z_scope.

(* FIPS 197 Figure 7, row-major in the high nibble. *)
Definition aes_sbox : list Z :=
  [
   0x63;0x7c;0x77;0x7b;0xf2;0x6b;0x6f;0xc5;0x30;0x01;0x67;0x2b;0xfe;0xd7;0xab;0x76;
   0xca;0x82;0xc9;0x7d;0xfa;0x59;0x47;0xf0;0xad;0xd4;0xa2;0xaf;0x9c;0xa4;0x72;0xc0;
   0xb7;0xfd;0x93;0x26;0x36;0x3f;0xf7;0xcc;0x34;0xa5;0xe5;0xf1;0x71;0xd8;0x31;0x15;
   0x04;0xc7;0x23;0xc3;0x18;0x96;0x05;0x9a;0x07;0x12;0x80;0xe2;0xeb;0x27;0xb2;0x75;
   0x09;0x83;0x2c;0x1a;0x1b;0x6e;0x5a;0xa0;0x52;0x3b;0xd6;0xb3;0x29;0xe3;0x2f;0x84;
   0x53;0xd1;0x00;0xed;0x20;0xfc;0xb1;0x5b;0x6a;0xcb;0xbe;0x39;0x4a;0x4c;0x58;0xcf;
   0xd0;0xef;0xaa;0xfb;0x43;0x4d;0x33;0x85;0x45;0xf9;0x02;0x7f;0x50;0x3c;0x9f;0xa8;
   0x51;0xa3;0x40;0x8f;0x92;0x9d;0x38;0xf5;0xbc;0xb6;0xda;0x21;0x10;0xff;0xf3;0xd2;
   0xcd;0x0c;0x13;0xec;0x5f;0x97;0x44;0x17;0xc4;0xa7;0x7e;0x3d;0x64;0x5d;0x19;0x73;
   0x60;0x81;0x4f;0xdc;0x22;0x2a;0x90;0x88;0x46;0xee;0xb8;0x14;0xde;0x5e;0x0b;0xdb;
   0xe0;0x32;0x3a;0x0a;0x49;0x06;0x24;0x5c;0xc2;0xd3;0xac;0x62;0x91;0x95;0xe4;0x79;
   0xe7;0xc8;0x37;0x6d;0x8d;0xd5;0x4e;0xa9;0x6c;0x56;0xf4;0xea;0x65;0x7a;0xae;0x08;
   0xba;0x78;0x25;0x2e;0x1c;0xa6;0xb4;0xc6;0xe8;0xdd;0x74;0x1f;0x4b;0xbd;0x8b;0x8a;
   0x70;0x3e;0xb5;0x66;0x48;0x03;0xf6;0x0e;0x61;0x35;0x57;0xb9;0x86;0xc1;0x1d;0x9e;
   0xe1;0xf8;0x98;0x11;0x69;0xd9;0x8e;0x94;0x9b;0x1e;0x87;0xe9;0xce;0x55;0x28;0xdf;
   0x8c;0xa1;0x89;0x0d;0xbf;0xe6;0x42;0x68;0x41;0x99;0x2d;0x0f;0xb0;0x54;0xbb;0x16
  ].

Definition sub_byte (x : Z) : Z := nth (Z.to_nat x) aes_sbox 0.

(* Same-position xor, truncating to the shorter list. *)
Fixpoint xor_list (a b : list Z) : list Z :=
  match a, b with
  | x :: a', y :: b' => Z.lxor x y :: xor_list a' b'
  | _, _ => []
  end.

(* multiplication by {02} in GF(2^8) modulo x^8 + x^4 + x^3 + x + 1 *)
Definition xtime (x : Z) : Z :=
  let y := Z.shiftl x 1 in
  if Z.testbit x 7 then Z.lxor (Z.land y 255) 27 else y.

Definition sub_bytes (s : list Z) : list Z := map sub_byte s.

(* new[r + 4c] = old[r + 4((c + r) mod 4)] *)
Definition shift_rows_tbl : list nat :=
  [0;5;10;15; 4;9;14;3; 8;13;2;7; 12;1;6;11]%nat.

Definition shift_rows (s : list Z) : list Z :=
  map (fun i => nth i s 0) shift_rows_tbl.

Definition mix_column (a0 a1 a2 a3 : Z) : list Z :=
  let x3 (v : Z) := Z.lxor (xtime v) v in
  [Z.lxor (Z.lxor (xtime a0) (x3 a1)) (Z.lxor a2 a3);
   Z.lxor (Z.lxor a0 (xtime a1)) (Z.lxor (x3 a2) a3);
   Z.lxor (Z.lxor a0 a1) (Z.lxor (xtime a2) (x3 a3));
   Z.lxor (Z.lxor (x3 a0) a1) (Z.lxor a2 (xtime a3))].

(* Trailing bytes that do not fill a column are dropped. *)
Fixpoint mix_columns (s : list Z) : list Z :=
  match s with
  | a0 :: a1 :: a2 :: a3 :: rest => mix_column a0 a1 a2 a3 ++ mix_columns rest
  | _ => []
  end.

Definition add_round_key (s rk : list Z) : list Z := xor_list s rk.

(* ------------------------------------------------------------------ *)
(* key expansion: 11 round keys of 16 bytes *)

Definition aes_rcon : list Z := [1;2;4;8;16;32;64;128;27;54].

(* next round key from the previous one *)
Definition next_round_key (rc : Z) (rk : list Z) : list Z :=
  let w0 := firstn 4 rk in
  let w1 := firstn 4 (skipn 4 rk) in
  let w2 := firstn 4 (skipn 8 rk) in
  let w3 := firstn 4 (skipn 12 rk) in
  let t :=
    match w3 with
    | [b0; b1; b2; b3] =>
        [Z.lxor (sub_byte b1) rc; sub_byte b2; sub_byte b3; sub_byte b0]
    | _ => []
    end in
  let w0' := xor_list w0 t in
  let w1' := xor_list w1 w0' in
  let w2' := xor_list w2 w1' in
  let w3' := xor_list w3 w2' in
  w0' ++ w1' ++ w2' ++ w3'.

Fixpoint expand_aux (rcs : list Z) (rk : list Z) : list (list Z) :=
  match rcs with
  | [] => []
  | rc :: rcs' =>
      let rk' := next_round_key rc rk in
      rk' :: expand_aux rcs' rk'
  end.

Definition aes128_round_keys (key : list Z) : list (list Z) :=
  key :: expand_aux aes_rcon key.

(* ------------------------------------------------------------------ *)
(* cipher *)

Definition aes_round (s rk : list Z) : list Z :=
  add_round_key (mix_columns (shift_rows (sub_bytes s))) rk.

Definition aes_final_round (s rk : list Z) : list Z :=
  add_round_key (shift_rows (sub_bytes s)) rk.

(* [rks] is the list of round keys after the initial AddRoundKey. *)
Fixpoint aes_rounds (s : list Z) (rks : list (list Z)) : list Z :=
  match rks with
  | [] => s
  | [rk] => aes_final_round s rk
  | rk :: rks' => aes_rounds (aes_round s rk) rks'
  end.

Definition aes128_encrypt_with (rks : list (list Z)) (block : list Z) : list Z :=
  match rks with
  | [] => block
  | rk0 :: rks' => aes_rounds (add_round_key block rk0) rks'
  end.

(* Written as [let rks := ... in fun block => ...] so that, after extraction, a
   partial application [aes128_encrypt_block key] expands the key once. *)
Definition aes128_encrypt_block (key : list Z) : list Z -> list Z :=
  let rks := aes128_round_keys key in
  fun block => aes128_encrypt_with rks block.

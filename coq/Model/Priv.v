(* USM privacy: src/privacy/mod.rs, des.rs (DES-CBC, RFC 3414 8), aes128.rs (AES-128-CFB, RFC 3826), nopriv.rs.
   The cipher object keeps a private scratch Buffer; after the D9 fix both encrypt paths reset it first, so
   the scratch content is not part of the state. *)
From GS Require Import Model.Base Gen.Constants Model.Ber Model.Pdu Model.Buffer.
From GS Require Model.Crypto.DES Model.Crypto.AES Model.Crypto.Modes.

Inductive priv_alg := PNoPriv | PDes | PAes.
Record priv_key := { pk_alg : priv_alg; pk_key : bytes; pk_pre_iv : bytes; pk_salt : Z }.

Definition priv_new (code : Z) : res priv_key :=
  let a := Z.land code PRIV_KT_ALG_MASK in
  if a =? NO_PRIV then Ok {| pk_alg := PNoPriv; pk_key := []; pk_pre_iv := []; pk_salt := 0 |}
  else if a =? PRIV_DES then Ok {| pk_alg := PDes; pk_key := []; pk_pre_iv := []; pk_salt := 0 |}
  else if a =? PRIV_AES128 then Ok {| pk_alg := PAes; pk_key := []; pk_pre_iv := []; pk_salt := 0 |}
  else Err InvalidVersion.
Definition has_priv (a : priv_alg) : bool := match a with PNoPriv => false | _ => true end.

(* as_localized: [seed] is what rand::rng().random() returned (u32 for DES, u64 for AES) *)
Definition priv_as_localized (k : priv_key) (key : bytes) (seed : Z) : res priv_key :=
  match pk_alg k with
  | PNoPriv => Ok k
  | PDes => if len key <? DES_KEY_LENGTH then Err InvalidKey
            else Ok {| pk_alg := PDes; pk_key := takez DES_ENC_KEY_LENGTH key;
                       pk_pre_iv := takez (DES_KEY_LENGTH - DES_ENC_KEY_LENGTH) (dropz DES_ENC_KEY_LENGTH key);
                       pk_salt := wrap32 seed |}
  | PAes => if len key <? AES_KEY_LENGTH then Err InvalidKey
            else Ok {| pk_alg := PAes; pk_key := takez AES_KEY_LENGTH key; pk_pre_iv := []; pk_salt := wrap64 seed |}
  end.

Definition be32 (v : Z) : bytes := [Z.shiftr v 24 mod 256; Z.shiftr v 16 mod 256; Z.shiftr v 8 mod 256; v mod 256].
Definition be64 (v : Z) : bytes := be32 (Z.shiftr v 32 mod 4294967296) ++ be32 (v mod 4294967296).
Fixpoint zeros (n : nat) : bytes := match n with O => [] | S k => 0 :: zeros k end.

(* scoped PDU serialised into the private buffer after [block] octets of padding, then cut to whole blocks *)
Definition padded_plaintext (block : Z) (s : scoped) : res bytes :=
  b <- push empty_buffer (zeros (Z.to_nat block)) ;;
  b <- push_scoped b s ;;
  let scoped_len := blen b - block in
  let rem := scoped_len mod block in
  let padded_len := if 0 <? rem then scoped_len + block - rem else scoped_len in
  slice_to (data b) padded_len.

(* encrypt: returns the new key state (the salt counter advances even when serialisation fails afterwards)
   and (ciphertext, msgPrivacyParameters) *)
Definition priv_encrypt (k : priv_key) (s : scoped) (boots time : Z) : priv_key * res (bytes * bytes) :=
  match pk_alg k with
  | PNoPriv => (k, Err NotImplemented)
  | PDes =>
    let pp := be32 (wrap32 boots) ++ be32 (pk_salt k) in
    let k' := {| pk_alg := PDes; pk_key := pk_key k; pk_pre_iv := pk_pre_iv k; pk_salt := wrap32 (pk_salt k + 1) |} in
    let iv := Modes.xor_bytes pp (pk_pre_iv k) ++ zeros (8 - Nat.min 8 (length (pk_pre_iv k))) in
    (k', pt <- padded_plaintext DES_BLOCK_SIZE s ;;
         Ok (Modes.cbc_encrypt (DES.des_encrypt_block (pk_key k)) 8 iv pt, pp))
  | PAes =>
    let pp := be32 (wrap32 boots) ++ be32 (wrap32 time) ++ be64 (pk_salt k) in
    let k' := {| pk_alg := PAes; pk_key := pk_key k; pk_pre_iv := pk_pre_iv k; pk_salt := wrap64 (pk_salt k + 1) |} in
    (k', pt <- padded_plaintext AES_BLOCK_SIZE s ;;
         Ok (Modes.cfb_encrypt (AES.aes128_encrypt_block (pk_key k)) 16 pp pt, dropz 8 pp))
  end.

(* decrypt: the plaintext written into the skipped region of the private buffer, then parsed as a scoped PDU *)
Definition priv_decrypt_bytes (k : priv_key) (ct : bytes) (u : usm) : res bytes :=
  match pk_alg k with
  | PNoPriv => Err NotImplemented
  | PDes =>
    let x := Modes.xor_bytes (takez 8 (u_privacy_params u)) (pk_pre_iv k) in
    let iv := x ++ zeros (8 - length x) in
    if negb (len ct mod 8 =? 0) || (BUF_MAX_SIZE <? len ct) then Err InvalidKey
    else Ok (Modes.cbc_decrypt (DES.des_decrypt_block (pk_key k)) 8 iv ct)
  | PAes =>
    if negb (len (u_privacy_params u) =? AES_KEY_LENGTH - 8) then Err InvalidKey else
    let iv := be32 (wrap32 (u_engine_boots u)) ++ be32 (wrap32 (u_engine_time u)) ++ u_privacy_params u in
    if BUF_MAX_SIZE <? len ct then Err InvalidKey
    else Ok (Modes.cfb_decrypt (AES.aes128_encrypt_block (pk_key k)) 16 iv ct)
  end.
Definition priv_decrypt (k : priv_key) (ct : bytes) (u : usm) : res scoped :=
  pt <- priv_decrypt_bytes k ct u ;; scoped_decode pt.

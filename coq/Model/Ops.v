(* Operations: PyOp::to_python for get / get_many / getnext / getbulk / refresh (src/snmp/op/*.rs),
   the walk context GetIter (src/snmp/op/getiter.rs), community-socket unwrap_pdu and the receive loop
   (src/socket/snmpsocket.rs, v1.rs, v2c.rs). *)
From GS Require Import Model.Base Gen.Constants Model.Ber Model.Pdu Model.OidText Model.Exc Gen.ErrorMap.

(* Python values handed to the caller *)
Inductive pv :=
| PvNone | PvBool (b : bool) | PvInt (z : Z) | PvBytes (b : bytes) | PvStr (s : bytes) | PvFloat (r : real).

(* IntoPyObject for &SnmpValue (src/snmp/value.rs): the todo!() arms panic *)
Definition value_to_py (v : value) : res pv :=
  match v with
  | VBool b => Ok (PvBool b)
  | VInt z => Ok (PvInt z)
  | VNull => Panic
  | VOctetString b => Ok (PvBytes b)
  | VOid o => s <- text_of_oid o ;; Ok (PvStr s)
  | VObjectDescriptor b => Ok (PvBytes b)
  | VReal r => Ok (PvFloat r)
  | VIpAddress a b c d => Ok (PvStr (ip_text a b c d))
  | VCounter32 z | VGauge32 z | VTimeTicks z | VCounter64 z | VUInteger32 z => Ok (PvInt z)
  | VOpaque b => Ok (PvBytes b)
  | VNoSuchObject | VNoSuchInstance | VEndOfMibView => Panic
  end.

Definition lift {A} (r : res A) : outcome A :=
  match r with Ok a => Return a | Err e => Raise (err_to_exc e) | Panic => Crash end.
Definition obind {A B} (o : outcome A) (f : A -> outcome B) : outcome B :=
  match o with Return a => f a | Raise e => Raise e | Crash => Crash end.

Definition is_data_value (v : value) : bool :=
  match v with VNull | VNoSuchObject | VNoSuchInstance | VEndOfMibView => false | _ => true end.

(* ---- get ---- *)
Definition get_to_python (p : pdu) : outcome pv :=
  match p with
  | PGetResponse r =>
    match gr_vars r with
    | [] => Return PvNone
    | [vb] =>
      match vb_value vb with
      | VNoSuchObject | VNoSuchInstance | VEndOfMibView => Raise (err_to_exc NoSuchInstance)
      | VNull => Return PvNone
      | v => lift (value_to_py v)
      end
    | _ => Raise (err_to_exc InvalidPdu)
    end
  | PReport _ => Raise (err_to_exc AuthenticationFailed)
  | _ => Raise (err_to_exc InvalidPdu)
  end.

(* ---- get_many: PyDict.set_item per data-valued varbind; insertion order, later duplicates overwrite ---- *)
Fixpoint dict_set (d : list (bytes * pv)) (k : bytes) (v : pv) : list (bytes * pv) :=
  match d with
  | [] => [(k, v)]
  | (k', v') :: r => if all_eqb k k' then (k', v) :: r else (k', v') :: dict_set r k v
  end.
Fixpoint getmany_fold (vars : list varbind) (d : list (bytes * pv)) : outcome (list (bytes * pv)) :=
  match vars with
  | [] => Return d
  | vb :: r =>
    if is_data_value (vb_value vb) then
      (* key and value conversions happen inside set_item; a failure is mapped to RuntimeError *)
      match text_of_oid (vb_oid vb), value_to_py (vb_value vb) with
      | Ok k, Ok v => getmany_fold r (dict_set d k v)
      | Panic, _ | _, Panic => Crash
      | _, _ => Raise ERuntime
      end
    else getmany_fold r d
  end.
Definition getmany_to_python (p : pdu) : outcome (list (bytes * pv)) :=
  match p with
  | PGetResponse r => getmany_fold (gr_vars r) []
  | PReport _ => Raise (err_to_exc AuthenticationFailed)
  | _ => Raise (err_to_exc InvalidPdu)
  end.

(* ---- GetIter ---- *)
Record getiter := { start_oid : bytes; next_oid : bytes; max_repetitions : Z }.
Definition getiter_new (oid_text : bytes) (max_rep : option Z) : outcome getiter :=
  match oid_of_text oid_text with
  | Ok o => Return {| start_oid := o; next_oid := o; max_repetitions := match max_rep with Some m => m | None => 0 end |}
  | Err _ => Raise EValue
  | Panic => Crash
  end.
Definition set_next_oid (it : getiter) (oid : bytes) : getiter * bool :=
  if starts_with oid (start_oid it) && is_after oid (next_oid it)
  then ({| start_oid := start_oid it; next_oid := oid; max_repetitions := max_repetitions it |}, true)
  else (it, false).

(* ---- getnext ---- *)
Definition getnext_to_python (p : pdu) (it : getiter) : getiter * outcome (bytes * pv) :=
  match p with
  | PGetResponse r =>
    match gr_vars r with
    | [] => (it, Raise EStopAsyncIteration)
    | [vb] =>
      let '(it', ok) := set_next_oid it (vb_oid vb) in
      if negb ok then (it', Raise EStopAsyncIteration) else
      match vb_value vb with
      | VEndOfMibView | VNull | VNoSuchObject | VNoSuchInstance => (it', Raise EStopAsyncIteration)
      | v => (it', obind (lift (text_of_oid (vb_oid vb))) (fun k =>
                    obind (lift (value_to_py v)) (fun x => Return (k, x))))
      end
    | _ => (it, Raise (err_to_exc InvalidPdu))
    end
  | PReport _ => (it, Raise (err_to_exc AuthenticationFailed))
  | _ => (it, Raise (err_to_exc InvalidPdu))
  end.

(* ---- getbulk: list of (oid, value) tuples, a None marker where the walk left the subtree ---- *)
Fixpoint getbulk_fold (vars : list varbind) (it : getiter) (acc : list (option (bytes * pv)))
  : getiter * outcome (list (option (bytes * pv))) :=
  match vars with
  | [] => (it, Return (rev acc))
  | vb :: r =>
    if is_data_value (vb_value vb) then
      let '(it', ok) := set_next_oid it (vb_oid vb) in
      if negb ok then (it', Return (rev (None :: acc))) else
      match text_of_oid (vb_oid vb) with
      | Ok k => match value_to_py (vb_value vb) with
                | Ok v => getbulk_fold r it' (Some (k, v) :: acc)
                | Err e => (it', Raise (err_to_exc e))
                | Panic => (it', Crash)
                end
      | Err e => (it', Raise (err_to_exc e))
      | Panic => (it', Crash)
      end
    else getbulk_fold r it acc
  end.
Definition getbulk_to_python (p : pdu) (it : getiter) : getiter * outcome (list (option (bytes * pv))) :=
  match p with
  | PGetResponse r =>
    match gr_vars r with
    | [] => (it, Raise EStopAsyncIteration)
    | vars =>
      let '(it', o) := getbulk_fold vars it [] in
      match o with
      | Return [] => (it', Raise EStopAsyncIteration)
      | _ => (it', o)
      end
    end
  | PReport _ => (it, Raise (err_to_exc AuthenticationFailed))
  | _ => (it, Raise (err_to_exc InvalidPdu))
  end.

(* ---- community sockets: unwrap_pdu (v1.rs / v2c.rs) ---- *)
Definition c_unwrap (community : bytes) (request_id : Z) (m : cmsg) : option pdu :=
  if negb (all_eqb (cm_community m) community) then None
  else if negb (pdu_check (cm_pdu m) request_id) then None
  else Some (cm_pdu m).

(* ---- the receive loop (_recv_inner): datagrams arriving before the timeout, in order ---- *)
Inductive recv_result (A : Type) :=
| Delivered (a : A) (rest : list bytes)      (* a PDU was handed to the operation *)
| Failed (e : exc) (rest : list bytes)       (* a datagram did not decode: the call ends with an exception *)
| Crashed
| TimedOut.                                  (* nothing acceptable arrived: WouldBlock -> TimeoutError *)
Arguments Delivered {A} a rest.
Arguments Failed {A} e rest.
Arguments Crashed {A}.
Arguments TimedOut {A}.

Fixpoint c_recv_loop (version : Z) (community : bytes) (request_id : Z) (ds : list bytes) : recv_result pdu :=
  match ds with
  | [] => TimedOut
  | d :: rest =>
    match cmsg_decode version d with
    | Panic => Crashed
    | Err e => Failed (err_to_exc e) rest
    | Ok m => match c_unwrap community request_id m with
              | Some p => Delivered p rest
              | None => c_recv_loop version community request_id rest
              end
    end
  end.

(* The Python layer of a v3 session: SnmpSession.__init__ and refresh() of sync_client/client.py and
   async_client/client.py (identical logic), user.py (User, key types, alignment), on top of Model.V3. *)
From GS Require Import Model.Base Gen.Constants Model.Ber Model.Pdu Model.Buffer Model.Exc Gen.ErrorMap Model.Ops
  Model.Auth Model.Priv Model.V3 Model.Emit.

(* user.py: a key is (algorithm, key type, material); master and localized material is aligned to KEY_LENGTH *)
Inductive key_type := KtPassword | KtMaster | KtLocalized.
Definition kt_value (t : key_type) : Z :=
  match t with KtPassword => PY_KT_PASSWORD | KtMaster => PY_KT_MASTER | KtLocalized => PY_KT_LOCALIZED end.
Definition kt_mask (t : key_type) : Z := Z.shiftl (kt_value t) PY_KT_SHIFT.
Definition is_aligned (t : key_type) : bool := match t with KtPassword => false | _ => true end.
(* BaseKey._padded *)
Definition padded (key : bytes) (n : Z) : bytes :=
  if len key =? n then key else if n <? len key then takez n key else key ++ zeros (Z.to_nat (n - len key)).

Record user := {
  usr_name : bytes;
  usr_auth : option (Z * key_type * bytes);      (* AUTH_ALG (1 md5 / 2 sha1), key type, key as given *)
  usr_priv : option (Z * key_type * bytes) }.    (* PRIV_ALG (1 des / 2 aes), key type, key as given *)

Definition auth_key_length (alg : Z) : Z := if alg =? PY_MD5_AUTH_ALG then PY_MD5_KEY_LENGTH else PY_SHA1_KEY_LENGTH.
Definition user_auth_alg (u : user) : Z := match usr_auth u with Some (a, t, _) => Z.lor a (kt_mask t) | None => 0 end.
Definition user_priv_alg (u : user) : Z := match usr_priv u with Some (a, t, _) => Z.lor a (kt_mask t) | None => 0 end.
Definition user_auth_key (u : user) : bytes :=
  match usr_auth u with
  | Some (a, t, k) => if is_aligned t then padded k (auth_key_length a) else k
  | None => []
  end.
Definition user_priv_key (u : user) : bytes :=
  match usr_priv u, usr_auth u with
  | Some (_, t, k), Some (a, _, _) => if is_aligned t then padded k (auth_key_length a) else k
  | Some (_, _, k), None => k       (* User.__init__ refuses a priv key without an auth key *)
  | None, _ => []
  end.
Definition require_auth (u : user) : bool := match usr_auth u with Some _ => true | None => false end.
Definition default_user : user := {| usr_name := []; usr_auth := None; usr_priv := None |}.

Record pysession := { ps_sock : v3sock; ps_to_refresh : bool; ps_deferred : option user }.

(* SnmpSession.__init__ for SnmpVersion.v3; [engine_id = []] stands for "not given" (`if not engine_id`) *)
Definition session_new (engine_id : bytes) (u : user) (seed : Z) : res pysession :=
  match engine_id with
  | [] =>
    s <- v3_new [] (usr_name default_user) (user_auth_alg default_user) (user_auth_key default_user)
                (user_priv_alg default_user) (user_priv_key default_user) seed ;;
    Ok {| ps_sock := s; ps_to_refresh := true; ps_deferred := Some u |}
  | _ =>
    s <- v3_new engine_id (usr_name u) (user_auth_alg u) (user_auth_key u) (user_priv_alg u) (user_priv_key u) seed ;;
    Ok {| ps_sock := s; ps_to_refresh := require_auth u; ps_deferred := None |}
  end.

(* one `self._sock.refresh()`: an empty GetRequest goes out, then the receive loop runs on what arrives *)
Record probe_io := { io_rnd_req : Z; io_rnd_msg : Z; io_arrivals : list bytes }.
Inductive step_result :=
| StepOk (s : v3sock) (sent : bytes)
| StepRaise (s : v3sock) (sent : option bytes) (e : exc)
| StepCrash.

Definition sock_refresh (s : v3sock) (io : probe_io) : step_result :=
  match v3_send s CRefresh (io_rnd_req io) (io_rnd_msg io) with
  | (s1, Ok d) =>
    match v3_recv_loop s1 (io_arrivals io) with
    | (s2, Delivered _ _) => StepOk s2 d                      (* OpRefresh::to_python returns None for any PDU *)
    | (s2, Failed e _) => StepRaise s2 (Some d) e
    | (s2, TimedOut) => StepRaise s2 (Some d) EBlockingIO      (* refresh() does not remap BlockingIOError *)
    | (_, Crashed) => StepCrash
    end
  | (s1, Err e) => StepRaise s1 None (err_to_exc e)
  | (_, Panic) => StepCrash
  end.

(* SnmpSession.refresh(): nothing unless _to_refresh; with a deferred user: probe, set_keys, then probe again *)
Record refresh_result := { rr_session : pysession; rr_sent : list bytes; rr_raised : option exc; rr_crashed : bool }.
Definition py_refresh (ps : pysession) (io1 io2 : probe_io) (seed : Z) : refresh_result :=
  if negb (ps_to_refresh ps) then {| rr_session := ps; rr_sent := []; rr_raised := None; rr_crashed := false |} else
  let second (ps' : pysession) (sent1 : list bytes) :=
      match sock_refresh (ps_sock ps') io2 with
      | StepOk s d => {| rr_session := {| ps_sock := s; ps_to_refresh := ps_to_refresh ps'; ps_deferred := ps_deferred ps' |};
                         rr_sent := sent1 ++ [d]; rr_raised := None; rr_crashed := false |}
      | StepRaise s d e => {| rr_session := {| ps_sock := s; ps_to_refresh := ps_to_refresh ps'; ps_deferred := ps_deferred ps' |};
                              rr_sent := sent1 ++ match d with Some x => [x] | None => [] end;
                              rr_raised := Some e; rr_crashed := false |}
      | StepCrash => {| rr_session := ps'; rr_sent := sent1; rr_raised := None; rr_crashed := true |}
      end in
  match ps_deferred ps with
  | None => second ps []
  | Some u =>
    match sock_refresh (ps_sock ps) io1 with
    | StepOk s d =>
      match v3_set_keys s (usr_name u) (user_auth_alg u) (user_auth_key u) (user_priv_alg u) (user_priv_key u) seed with
      | Ok s' => second {| ps_sock := s'; ps_to_refresh := require_auth u; ps_deferred := None |} [d]
      | Err e => {| rr_session := {| ps_sock := with_user s (usr_name u); ps_to_refresh := true; ps_deferred := Some u |}; rr_sent := [d];
                    rr_raised := Some (err_to_exc e); rr_crashed := false |}
      | Panic => {| rr_session := ps; rr_sent := [d]; rr_raised := None; rr_crashed := true |}
      end
    | StepRaise s d e => {| rr_session := {| ps_sock := s; ps_to_refresh := true; ps_deferred := Some u |};
                            rr_sent := match d with Some x => [x] | None => [] end; rr_raised := Some e; rr_crashed := false |}
    | StepCrash => {| rr_session := ps; rr_sent := []; rr_raised := None; rr_crashed := true |}
    end
  end.

(* The SNMPv3 client socket: src/socket/v3.rs (new, set_keys, push_pdu, unwrap_pdu) with src/reqid.rs,
   and the engine-discovery protocol of SnmpSession.refresh (sync_client/client.py, async_client/client.py). *)
From GS Require Import Model.Base Gen.Constants Model.Ber Model.Pdu Model.Buffer Model.Exc Gen.ErrorMap
  Model.Ops Model.Auth Model.Priv.

Record v3sock := {
  engine_id : bytes; engine_boots : Z; engine_time : Z; user_name : bytes;
  auth : auth_key; privk : priv_key; msg_id : Z; request_id : Z }.

(* RequestId::get_next: a random i64 masked *)
Definition next_id (rnd : Z) : Z := Z.land rnd MAX_REQUEST_ID.

(* key installation shared by `new` and `set_keys`; [seed] = the random salt seed *)
Definition install_keys (auth_alg : Z) (auth_key_m : bytes) (priv_alg : Z) (priv_key_m : bytes) (eid : bytes) (seed : Z)
  : res (auth_key * priv_key) :=
  a0 <- auth_new auth_alg ;;
  a <- as_key_type a0 auth_alg auth_key_m eid ;;
  p0 <- priv_new priv_alg ;;
  if has_priv (pk_alg p0) then
    pa0 <- auth_new auth_alg ;;
    pa <- as_key_type pa0 priv_alg priv_key_m eid ;;
    p <- priv_as_localized p0 (ak_key pa) seed ;;
    Ok (a, p)
  else Ok (a, p0).

Definition v3_new (eid user : bytes) (auth_alg : Z) (auth_key_m : bytes) (priv_alg : Z) (priv_key_m : bytes) (seed : Z)
  : res v3sock :=
  '(a, p) <- install_keys auth_alg auth_key_m priv_alg priv_key_m eid seed ;;
  Ok {| engine_id := eid; engine_boots := 0; engine_time := 0; user_name := user; auth := a; privk := p;
        msg_id := 0; request_id := 0 |}.

Definition v3_set_keys (s : v3sock) (user : bytes) (auth_alg : Z) (auth_key_m : bytes) (priv_alg : Z) (priv_key_m : bytes)
           (seed : Z) : res v3sock :=
  (* `self.user_name = user_name` happens first, even if a later step fails *)
  '(a, p) <- install_keys auth_alg auth_key_m priv_alg priv_key_m (engine_id s) seed ;;
  Ok {| engine_id := engine_id s; engine_boots := engine_boots s; engine_time := engine_time s; user_name := user;
        auth := a; privk := p; msg_id := msg_id s; request_id := request_id s |}.

(* set_keys as a transition of the socket: `self.user_name = user_name` is the first statement and stays done when a later
   step is refused; the two keys are replaced together and only when every step succeeded *)
Definition with_user (s : v3sock) (user : bytes) : v3sock :=
  {| engine_id := engine_id s; engine_boots := engine_boots s; engine_time := engine_time s; user_name := user;
     auth := auth s; privk := privk s; msg_id := msg_id s; request_id := request_id s |}.
Definition v3_set_keys_st (s : v3sock) (user : bytes) (auth_alg : Z) (auth_key_m : bytes) (priv_alg : Z) (priv_key_m : bytes)
           (seed : Z) : v3sock * res unit :=
  match v3_set_keys s user auth_alg auth_key_m priv_alg priv_key_m seed with
  | Ok s' => (s', Ok tt)
  | Err e => (with_user s user, Err e)
  | Panic => (with_user s user, Panic)
  end.

(* push_pdu: encrypt (advances the salt), draw the message id, serialise, sign.  The socket state is updated
   as far as execution got, also when an error is returned. *)
Definition with_priv_msgid (s : v3sock) (k : priv_key) (mid : Z) : v3sock :=
  {| engine_id := engine_id s; engine_boots := engine_boots s; engine_time := engine_time s;
     user_name := user_name s; auth := auth s; privk := k; msg_id := mid; request_id := request_id s |}.

Definition v3_message (s : v3sock) (p : pdu) (mid : Z) (pp : bytes) (d : msgdata) : v3msg :=
  let flag_report := match p with PGetRequest g => match g_vars g with [] => true | _ => false end | _ => false end in
  {| m_msg_id := mid; m_flag_auth := has_auth (ak_alg (auth s)); m_flag_priv := has_priv (pk_alg (privk s));
     m_flag_report := flag_report;
     m_usm := {| u_engine_id := engine_id s; u_engine_boots := engine_boots s; u_engine_time := engine_time s;
                 u_user_name := user_name s; u_auth_params := placeholder (ak_alg (auth s));
                 u_privacy_params := pp |};
     m_data := d |}.

Definition v3_finish (s : v3sock) (m : v3msg) : res bytes :=
  b <- push_v3 empty_buffer m ;;
  alg_sign (auth s) (data b) (get_bookmark b).

Definition v3_push_pdu (s : v3sock) (p : pdu) (rnd_msg : Z) : v3sock * res bytes :=
  let sc := {| s_engine_id := engine_id s; s_pdu := p |} in
  let mid := next_id rnd_msg in
  if has_priv (pk_alg (privk s)) then
    match priv_encrypt (privk s) sc (engine_boots s) (engine_time s) with
    | (k', Ok (ct, pp)) =>
      (with_priv_msgid s k' mid, v3_finish s (v3_message s p mid pp (Encrypted ct)))
    | (k', Err e) => (with_priv_msgid s k' (msg_id s), Err e)
    | (k', Panic) => (with_priv_msgid s k' (msg_id s), Panic)
    end
  else (with_priv_msgid s (privk s) mid, v3_finish s (v3_message s p mid [] (Plaintext sc))).

Definition with_request_id (s : v3sock) (rid : Z) : v3sock :=
  {| engine_id := engine_id s; engine_boots := engine_boots s; engine_time := engine_time s; user_name := user_name s;
     auth := auth s; privk := privk s; msg_id := msg_id s; request_id := rid |}.

(* unwrap_pdu *)
Definition v3_unwrap (s : v3sock) (m : v3msg) : v3sock * option pdu :=
  match (match m_data m with
         | Plaintext x => Some x
         | Encrypted ct => match priv_decrypt (privk s) ct (m_usm m) with Ok x => Some x | _ => None end
         end) with
  | None => (s, None)
  | Some sc =>
    let u := m_usm m in
    if all_eqb (user_name s) (u_user_name u)
       && ((len (engine_id s) =? 0) || all_eqb (u_engine_id u) (engine_id s))
       && (msg_id s =? m_msg_id m)
       && pdu_check (s_pdu sc) (request_id s)
    then ({| engine_id := if len (engine_id s) =? 0 then u_engine_id u else engine_id s;
             engine_boots := u_engine_boots u; engine_time := u_engine_time u; user_name := user_name s;
             auth := auth s; privk := privk s; msg_id := msg_id s; request_id := request_id s |},
          Some (s_pdu sc))
    else (s, None)
  end.
(* a decrypt that panics would be a crash of the receive path *)
Definition v3_unwrap_panics (s : v3sock) (m : v3msg) : bool :=
  match m_data m with
  | Encrypted ct => match priv_decrypt (privk s) ct (m_usm m) with Panic => true | _ => false end
  | _ => false
  end.

Fixpoint v3_recv_loop (s : v3sock) (ds : list bytes) : v3sock * recv_result pdu :=
  match ds with
  | [] => (s, TimedOut)
  | d :: rest =>
    match v3_decode d with
    | Panic => (s, Crashed)
    | Err e => (s, Failed (err_to_exc e) rest)
    | Ok m => if v3_unwrap_panics s m then (s, Crashed) else
              match v3_unwrap s m with
              | (s', Some p) => (s', Delivered p rest)
              | (s', None) => v3_recv_loop s' rest
              end
    end
  end.

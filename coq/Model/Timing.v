(* Logical-clock model of a blocking call's wait (C18).  Time is in nanoseconds (Z).  [arrivals] are the datagrams
   reaching the socket after the request was sent, sorted by arrival time, each tagged with whether the receive path
   would accept it (C04 / C10 decide that); a datagram that arrived while the client was busy is read at once.
   Sync client (src/socket/snmpsocket.rs::_recv_inner / _recv_until): one deadline for the whole call; before every
   recv of the skip loop SO_RCVTIMEO is set to the time left (a remainder below 1 ms counts as expired).
   Async client (async_client/client.py::_recv): one asyncio.wait_for deadline around the whole loop.
   [rearming_wait] is the loop of the pinned commit (SO_RCVTIMEO armed afresh for every recv), kept to state why that
   was a defect (repaired by a fix: commit, see known_findings.json). *)
From GS Require Import Model.Base.

Definition arrival := (Z * bool)%type.     (* (time, accepted by the receive path) *)

(* returns (time at which the call returns, delivered?) *)
Fixpoint rearming_wait (T now : Z) (arr : list arrival) : Z * bool :=
  match arr with
  | [] => (now + T, false)
  | (t, ok) :: r =>
    let t' := Z.max t now in
    if t' <=? now + T then (if ok then (t', true) else rearming_wait T t' r)
    else (now + T, false)
  end.

Fixpoint deadline_wait (deadline now : Z) (arr : list arrival) : Z * bool :=
  match arr with
  | [] => (deadline, false)
  | (t, ok) :: r =>
    let t' := Z.max t now in
    if t' <=? deadline then (if ok then (t', true) else deadline_wait deadline t' r)
    else (deadline, false)
  end.

(* k stray (non-matching) datagrams spaced [gap] apart, starting [gap] after [t0] *)
Fixpoint strays (k : nat) (t gap : Z) : list arrival :=
  match k with O => [] | S k' => (t + gap, false) :: strays k' (t + gap) gap end.

(* both clients as they are now: the call made at t0 with timeout T *)
Definition sync_wait (T t0 : Z) (arr : list arrival) : Z * bool := deadline_wait (t0 + T) t0 arr.
Definition async_wait (T t0 : Z) (arr : list arrival) : Z * bool := deadline_wait (t0 + T) t0 arr.

(* BER decoding as written in /repo/src/ber/*.rs and src/snmp/value.rs (release semantics:
   integer types wrap where the Rust types wrap). *)
From GS Require Import Model.Base Gen.Constants.

(* ---- header (src/ber/header.rs) ---- *)
Record hdr := { h_class : Z; h_constructed : bool; h_tag : Z; h_length : Z }.

Fixpoint tag_loop (n : Z) (l : bytes) : res (Z * bytes) :=
  match l with
  | [] => Err Incomplete
  | t :: r => let n' := wrap8 (Z.lor (Z.shiftl n 7) (Z.land t 127)) in
              if Z.land t 128 =? 0 then Ok (n', r) else tag_loop n' r
  end.

Fixpoint len_loop (k : nat) (ln : Z) (l : bytes) : res (Z * bytes) :=
  match k with
  | O => Ok (ln, l)
  | S k' => match l with
            | [] => Err Incomplete
            | b :: r => len_loop k' (wrap64 (Z.shiftl ln 8 + b)) r
            end
  end.

Definition parse_header (i : bytes) : res (bytes * hdr) :=
  match i with
  | id :: ((_ :: _) as r1) =>
    let class := Z.land (Z.shiftr id 6) 3 in
    let constructed := Z.land (Z.shiftr id 5) 1 =? 1 in
    '(tag, r2) <- (if Z.land id 31 =? 31 then tag_loop 0 r1 else Ok (Z.land id 31, r1)) ;;
    match r2 with
    | [] => Err Incomplete
    | n :: r3 =>
      '(length, r4) <- (if Z.land n 128 =? 0 then Ok (n, r3)
                        else len_loop (Z.to_nat (Z.land n 127)) 0 r3) ;;
      if len r4 <? length then Err Incomplete
      else Ok (r4, {| h_class := class; h_constructed := constructed; h_tag := tag; h_length := length |})
    end
  | _ => Err Incomplete
  end.

(* ---- BerDecoder::from_ber (src/ber/mod.rs) ---- *)
Definition from_ber {A} (tag : Z) (allow_prim allow_constr : bool)
           (decode : bytes -> hdr -> res A) (i : bytes) : res (bytes * A) :=
  if len i <? 2 then Err Incomplete else
  '(tail, h) <- parse_header i ;;
  if negb (h_tag h =? tag) || (h_constructed h && negb allow_constr)
     || (negb (h_constructed h) && negb allow_prim)
  then Err UnexpectedTag
  else
    rest <- slice_from tail (h_length h) ;;
    v <- decode tail h ;;
    Ok (rest, v).

(* ---- typed decoders ---- *)
Definition decode_bool (i : bytes) (h : hdr) : res bool :=
  if negb (h_length h =? 1) then Err InvalidData else b <- idx i 0 ;; Ok (negb (b =? 0)).

Definition decode_null (i : bytes) (h : hdr) : res unit :=
  if negb (h_length h =? 0) then Err InvalidTagFormat else Ok tt.

(* .iter().take(n).map(as T).reduce(|acc,x| (acc << 8) | x).unwrap_or(0) *)
Definition fold_be (wrap : Z -> Z) (l : bytes) : Z :=
  match l with
  | [] => 0
  | x :: r => fold_left (fun acc b => wrap (acc * 256 + b)) r x
  end.

Definition decode_int (i : bytes) (h : hdr) : res Z :=
  if h_length h =? 0 then Ok 0 else
  let v := fold_be swrap64 (takez (h_length h) i) in
  b0 <- idx i 0 ;;
  if (Z.land b0 128 =? 0) || (8 <=? h_length h) then Ok v
  else Ok (v - Z.shiftl 1 (8 * h_length h)).

Definition decode_u32 (i : bytes) (h : hdr) : res Z := Ok (fold_be wrap32 (takez (h_length h) i)).
Definition decode_u64 (i : bytes) (h : hdr) : res Z := Ok (fold_be wrap64 (takez (h_length h) i)).

Definition decode_slice (i : bytes) (h : hdr) : res bytes := slice_to i (h_length h).

Definition decode_ip (i : bytes) (h : hdr) : res (Z * Z * Z * Z) :=
  if negb (h_length h =? 4) then Err InvalidTagFormat else
  a <- idx i 0 ;; b <- idx i 1 ;; c <- idx i 2 ;; d <- idx i 3 ;; Ok (a, b, c, d).

(* ---- REAL (src/ber/real.rs) ---- *)
Inductive real :=
| RZero                              (* no content octets: +0 *)
| RBin (neg : bool) (mant : Z) (exp2 : Z)   (* S * mant * 2^exp2, mant is cast u128 -> f64 then scaled *)
| RInt (v : Z)                       (* NR1 through str::parse::<i32> *)
| RDec (text : bytes)                (* NR2 / NR3 through str::parse::<f64>; [text] matches the accepted grammar *)
| RPlusInf | RMinusInf | RNaN | RMinusZero.

Definition is_digit (b : Z) : bool := (48 <=? b) && (b <=? 57).
Fixpoint all_digits (l : bytes) : bool :=
  match l with [] => true | x :: r => is_digit x && all_digits r end.
Definition digits_value (l : bytes) : Z := fold_left (fun acc b => acc * 10 + (b - 48)) l 0.

(* i32::from_str : [+-]? digit+ within range *)
Definition parse_i32 (l : bytes) : option Z :=
  let '(neg, ds) := match l with
                    | 45 :: r => (true, r)
                    | 43 :: r => (false, r)
                    | _ => (false, l)
                    end in
  match ds with
  | [] => None
  | _ => if all_digits ds then
           let v := digits_value ds in
           let v := if neg then - v else v in
           if (-2147483648 <=? v) && (v <=? 2147483647) then Some v else None
         else None
  end.

(* f64::from_str accepts: [+-]? ( inf | infinity | nan | (d+ | d+ . d* | d* . d+) ([eE] [+-]? d+)? ) *)
Fixpoint span_digits (l : bytes) : bytes * bytes :=
  match l with
  | x :: r => if is_digit x then let '(d, t) := span_digits r in (x :: d, t) else ([], l)
  | [] => ([], [])
  end.
Definition lower (b : Z) : Z := if (65 <=? b) && (b <=? 90) then b + 32 else b.
Definition is_special_word (l : bytes) : bool :=
  let w := map lower l in
  all_eqb w [105; 110; 102] || all_eqb w [105; 110; 102; 105; 110; 105; 116; 121] || all_eqb w [110; 97; 110].
Definition valid_exp (l : bytes) : bool :=
  match l with
  | [] => true
  | e :: r => if (e =? 101) || (e =? 69) then
                let ds := match r with 43 :: t => t | 45 :: t => t | _ => r end in
                match ds with [] => false | _ => all_digits ds end
              else false
  end.
Definition is_rust_float (l : bytes) : bool :=
  let body := match l with 43 :: r => r | 45 :: r => r | _ => l end in
  if is_special_word body then true else
  let '(ip, t) := span_digits body in
  match t with
  | 46 :: t' => let '(fp, t'') := span_digits t' in
                match ip, fp with [], [] => false | _, _ => valid_exp t'' end
  | _ => match ip with [] => false | _ => valid_exp t end
  end.

Definition decode_real (i0 : bytes) (h : hdr) : res real :=
  if h_length h =? 0 then Ok RZero else
  i <- slice_to i0 (h_length h) ;;
  f <- idx i 0 ;;
  if testbit f 128 then
    (* binary encoding, X.690 8.5.7 *)
    '(e_start, e_len) <- (if Z.land f 3 =? 3
                          then match nth_error i 1 with Some b => Ok (2, b) | None => Err InvalidData end
                          else Ok (1, Z.land f 3 + 1)) ;;
    let e_end := e_start + e_len in
    if (e_len =? 0) || (len i <? e_end) || (16 <? len i - e_end) then Err InvalidData else
    let eo := takez e_len (dropz e_start i) in
    e0 <- idx i (Z.to_nat e_start) ;;
    let e := fold_left (fun acc n => sat64 (sat64 (acc * 256) + n)) eo (if Z.land e0 128 =? 0 then 0 else -1) in
    let n := fold_left (fun acc x => Z.lor (Z.shiftl acc 8) x) (dropz e_end i) 0 in
    let scale := Z.shiftr (Z.land f 12) 2 in
    let bb := Z.land f 48 in
    if negb ((bb =? 0) || (bb =? 16) || (bb =? 32)) then Err InvalidData else
    let base_bits := if bb =? 0 then 1 else if bb =? 16 then 3 else 4 in
    let p := Z.max (-4000) (Z.min 4000 (sat64 (sat64 (base_bits * e) + scale))) in
    Ok (RBin (testbit f 64) n p)
  else if Z.land f 192 =? 0 then
    let t := dropz 1 i in
    let form := Z.land f 63 in
    if form =? 1 then
      match parse_i32 t with Some v => Ok (RInt v) | None => Err InvalidData end
    else if (form =? 2) || (form =? 3) then
      if is_rust_float t then Ok (RDec t) else Err InvalidData
    else Err InvalidData
  else if f =? 64 then Ok RPlusInf
  else if f =? 65 then Ok RMinusInf
  else if f =? 66 then Ok RNaN
  else if f =? 67 then Ok RMinusZero
  else Err InvalidData.

(* ---- SnmpValue (src/snmp/value.rs) ---- *)
Inductive value :=
| VBool (b : bool) | VInt (z : Z) | VNull | VOctetString (b : bytes) | VOid (b : bytes)
| VObjectDescriptor (b : bytes) | VReal (r : real) | VIpAddress (a b c d : Z)
| VCounter32 (z : Z) | VGauge32 (z : Z) | VTimeTicks (z : Z) | VOpaque (b : bytes)
| VCounter64 (z : Z) | VUInteger32 (z : Z)
| VNoSuchObject | VNoSuchInstance | VEndOfMibView.

Definition value_from_ber (i : bytes) : res (bytes * value) :=
  '(tail, h) <- parse_header i ;;
  v <- (if h_constructed h then Err UnsupportedTag else
        let t := h_tag h in
        if h_class h =? 0 then
          if t =? TAG_BOOL then b <- decode_bool tail h ;; Ok (VBool b)
          else if t =? TAG_INT then z <- decode_int tail h ;; Ok (VInt z)
          else if t =? TAG_OCTET_STRING then b <- decode_slice tail h ;; Ok (VOctetString b)
          else if t =? TAG_NULL then _ <- decode_null tail h ;; Ok VNull
          else if t =? TAG_OBJECT_ID then b <- decode_slice tail h ;; Ok (VOid b)
          else if t =? TAG_OBJECT_DESCRIPTOR then b <- decode_slice tail h ;; Ok (VObjectDescriptor b)
          else if t =? TAG_REAL then r <- decode_real tail h ;; Ok (VReal r)
          else Err UnsupportedTag
        else if h_class h =? 1 then
          if t =? TAG_APP_IPADDRESS then '(abc, d) <- decode_ip tail h ;;
                                         let '(ab, c) := abc in let '(a, b) := ab in Ok (VIpAddress a b c d)
          else if t =? TAG_APP_COUNTER32 then z <- decode_u32 tail h ;; Ok (VCounter32 z)
          else if t =? TAG_APP_GAUGE32 then z <- decode_u32 tail h ;; Ok (VGauge32 z)
          else if t =? TAG_APP_TIMETICKS then z <- decode_u32 tail h ;; Ok (VTimeTicks z)
          else if t =? TAG_APP_OPAQUE then b <- decode_slice tail h ;; Ok (VOpaque b)
          else if t =? TAG_APP_COUNTER64 then z <- decode_u64 tail h ;; Ok (VCounter64 z)
          else if t =? TAG_APP_UINTEGER32 then z <- decode_u32 tail h ;; Ok (VUInteger32 z)
          else Err UnsupportedTag
        else if h_class h =? 2 then
          if t =? TAG_CTX_NO_SUCH_OBJECT then Ok VNoSuchObject
          else if t =? TAG_CTX_NO_SUCH_INSTANCE then Ok VNoSuchInstance
          else if t =? TAG_CTX_END_OF_MIB_VIEW then Ok VEndOfMibView
          else Err UnsupportedTag
        else Err UnsupportedTag) ;;
  rest <- slice_from tail (h_length h) ;;
  Ok (rest, v).

(* typed from_ber instances used by the message layers *)
Definition int_from_ber := from_ber TAG_INT true false decode_int.
Definition null_from_ber := from_ber TAG_NULL true false decode_null.
Definition oid_from_ber := from_ber TAG_OBJECT_ID true false decode_slice.
Definition octetstring_from_ber := from_ber TAG_OCTET_STRING true false decode_slice.
Definition reloid_from_ber := from_ber TAG_RELATIVE_OID true false decode_slice.
Definition sequence_from_ber := from_ber TAG_SEQUENCE false true decode_slice.
Definition bool_from_ber := from_ber TAG_BOOL true false decode_bool.
Definition real_from_ber := from_ber TAG_REAL true false decode_real.
Definition ip_from_ber := from_ber TAG_APP_IPADDRESS true false decode_ip.
Definition counter32_from_ber := from_ber TAG_APP_COUNTER32 true false decode_u32.
Definition gauge32_from_ber := from_ber TAG_APP_GAUGE32 true false decode_u32.
Definition timeticks_from_ber := from_ber TAG_APP_TIMETICKS true false decode_u32.
Definition uinteger32_from_ber := from_ber TAG_APP_UINTEGER32 true false decode_u32.
Definition counter64_from_ber := from_ber TAG_APP_COUNTER64 true false decode_u64.
Definition opaque_from_ber := from_ber TAG_APP_OPAQUE true false decode_slice.
Definition objectdescriptor_from_ber := from_ber TAG_OBJECT_DESCRIPTOR true true decode_slice.

(* SnmpOption::from_ber (src/ber/option.rs): any constructed context/universal element *)
Definition option_from_ber (i : bytes) : res (bytes * (Z * bytes)) :=
  if len i <? 3 then Err Incomplete else
  '(tail, h) <- parse_header i ;;
  if negb (h_constructed h) || (negb (h_class h =? 2) && negb (h_class h =? 0)) then Err UnexpectedTag
  else
    rest <- slice_from tail (h_length h) ;;
    v <- slice_to tail (h_length h) ;;
    Ok (rest, (h_tag h, v)).

(* ---- relative OID (src/ber/relative_oid.rs) ---- *)
Definition subelements (d : bytes) : Z :=
  fold_left (fun acc c => if Z.land c 128 =? 0 then acc + 1 else acc) d 0.

(* find_subelement: returns Some start / None *)
Fixpoint find_sub (d : bytes) (total : Z) (left start offset : Z) : option Z :=
  match d with
  | [] => None
  | c :: r =>
    if left =? 0 then (if start <? total then Some start else None)
    else if Z.land c 128 =? 0 then find_sub r total (left - 1) (offset + 1) (offset + 1)
    else find_sub r total left start (offset + 1)
  end.
Definition find_subelement (d : bytes) (n : Z) : option Z := find_sub d (len d) n 0 0.

Definition normalize (rel oid : bytes) : res bytes :=
  oid1 <- slice_from oid 1 ;;
  let rel_si := subelements rel in
  let base_si := subelements oid1 + 2 in
  if rel_si <? base_si - 2 then
    let offset := match find_subelement oid1 (base_si - rel_si - 2) with Some o => o | None => 0 end + 1 in
    pre <- slice_to oid offset ;;
    Ok (pre ++ rel)
  else
    if len rel <? 1 then Panic (* Vec::with_capacity(len - 1) *) else
    a <- idx rel 0 ;; b <- idx rel 1 ;;
    if 255 <? a * 40 + b then Panic (* u8 overflow (debug) *) else
    r2 <- slice_from rel 2 ;;
    Ok ((a * 40 + b) :: r2).

Definition try_normalize (rel oid : bytes) : res bytes :=
  match oid with
  | [] => Err InvalidData
  | _ :: oid1 =>
    let rel_si := subelements rel in
    let base_si := subelements oid1 in
    if (base_si <=? rel_si) &&
       ((len rel <? 2) || match rel with a :: b :: _ => 255 <? a * 40 + b | _ => true end)
    then Err InvalidData
    else normalize rel oid
  end.

(* The Python layer proper: SnmpSession.get / get_many / getnext / getbulk / fetch of sync_client/client.py with
   sync_client/getnext.py and sync_client/getbulk.py, and of async_client/client.py with its _send / _recv helpers and
   iterator classes.  The layer is a function from a SCRIPT - what each successive socket-method call returns or
   raises, and where the event loop's timer fires - to the TRACE of what the layer does (policer consultations, socket
   calls with their arguments, iterator contexts created) and to what the caller sees.  Values are opaque: the layer
   passes them through; only the list structure of a GetBulk reply (items and the None end marker) matters. *)
From GS Require Import Model.Base Model.Exc Model.Walk.

Inductive sval := SvObj (id : Z) | SvList (l : list (option Z)).
Inductive tok :=
| TRet (v : sval)          (* the socket method returns *)
| TRaise (e : exc)         (* the socket method raises *)
| TTimeout.                (* async only: wait_for's timer fires before the socket becomes readable *)

Inductive meth :=
| MGet | MGetMany | MGetNext | MGetBulk                                   (* blocking sockets: one call per exchange *)
| MSendGet | MRecvGet | MSendGetMany | MRecvGetMany
| MSendGetNext | MRecvGetNext | MSendGetBulk | MRecvGetBulk.
Inductive arg := ANone | AOid (t : bytes) | AOids (ts : list bytes) | ACtx.
Inductive ev :=
| EvPolice                                   (* the session's policer is consulted (wait_sync / wait) *)
| EvSock (m : meth) (a : arg)                (* a socket method is called *)
| EvIter (oid : bytes) (max_rep : option Z). (* GetIter(oid[, max_repetitions]) is created *)

Inductive pyout :=
| PRet (v : sval) | PRaise (e : exc)
| PCap                      (* the consumer stopped asking (iteration cap of the harness) *)
| PBadScript.               (* the script does not fit the calls made (never produced by the harness) *)

Definition police (pol : bool) : list ev := if pol then [EvPolice] else [].

(* ---------------------------------------------------------------- sync ---------------------------------------- *)
(* `except BlockingIOError: raise TimeoutError`, and in the iterators `except StopAsyncIteration: raise StopIteration` *)
Definition remap_sync (iter : bool) (t : tok) : pyout :=
  match t with
  | TRet v => PRet v
  | TRaise EBlockingIO => PRaise ETimeout
  | TRaise EStopAsyncIteration => if iter then PRaise EStopIteration else PRaise EStopAsyncIteration
  | TRaise e => PRaise e
  | TTimeout => PBadScript
  end.

(* policer, then one blocking socket call *)
Definition sync_call (pol iter : bool) (m : meth) (a : arg) (script : list tok) : list ev * pyout * list tok :=
  match script with
  | [] => (police pol ++ [EvSock m a], PBadScript, [])
  | t :: r => (police pol ++ [EvSock m a], remap_sync iter t, r)
  end.

(* pop_or_stop of the GetBulk iterators *)
Definition pop_or_stop (stop : exc) (buf : list (option Z)) : pyout * list (option Z) :=
  match buf with
  | Some v :: r => (PRet (SvObj v), r)
  | None :: r => (PRaise stop, r)
  | [] => (PBadScript, [])
  end.

(* what happens to a freshly received reply list *)
Definition take_reply (stop : exc) (evs : list ev) (o : pyout) (r : list tok) : list ev * pyout * list (option Z) * list tok :=
  match o with
  | PRet (SvList []) => (evs, PRaise stop, [], r)                 (* `if not self._buffer: raise Stop...` *)
  | PRet (SvList l) => let '(o', b') := pop_or_stop stop l in (evs, o', b', r)
  | PRet (SvObj _) => (evs, PBadScript, [], r)
  | o' => (evs, o', [], r)                                        (* the buffer stays empty when the call raises *)
  end.

(* sync GetBulkIter.__next__ *)
Definition sync_bulk_next (pol : bool) (buf : list (option Z)) (script : list tok)
  : list ev * pyout * list (option Z) * list tok :=
  match buf with
  | _ :: _ => let '(o, b') := pop_or_stop EStopIteration buf in ([], o, b', script)
  | [] => let '(evs, o, r) := sync_call pol true MGetBulk ACtx script in take_reply EStopIteration evs o r
  end.

(* sync GetNextIter.__next__ *)
Definition sync_next_next (pol : bool) (buf : list (option Z)) (script : list tok)
  : list ev * pyout * list (option Z) * list tok :=
  let '(evs, o, r) := sync_call pol true MGetNext ACtx script in (evs, o, buf, r).

(* ---------------------------------------------------------------- async --------------------------------------- *)
(* SnmpSession._send: policer, sender(); on BlockingIOError wait for writability and call sender() once more from the
   callback, whose exception (any) is the call's *)
Definition a_send (pol : bool) (m : meth) (a : arg) (script : list tok) : list ev * pyout * list tok :=
  match script with
  | TRet _ :: r => (police pol ++ [EvSock m a], PRet (SvObj 0), r)
  | TRaise EBlockingIO :: TRet _ :: r => (police pol ++ [EvSock m a; EvSock m a], PRet (SvObj 0), r)
  | TRaise EBlockingIO :: TRaise e :: r => (police pol ++ [EvSock m a; EvSock m a], PRaise e, r)
  | TRaise EBlockingIO :: r => (police pol ++ [EvSock m a], PBadScript, r)
  | TRaise e :: r => (police pol ++ [EvSock m a], PRaise e, r)
  | TTimeout :: r => (police pol ++ [EvSock m a], PBadScript, r)
  | [] => (police pol ++ [EvSock m a], PBadScript, [])
  end.

(* SnmpSession._recv: wait until readable, receiver(); BlockingIOError -> wait again; the timer -> TimeoutError *)
Fixpoint a_recv (m : meth) (a : arg) (script : list tok) : list ev * pyout * list tok :=
  match script with
  | [] => ([], PBadScript, [])
  | TTimeout :: r => ([], PRaise ETimeout, r)
  | TRet v :: r => ([EvSock m a], PRet v, r)
  | TRaise EBlockingIO :: r => let '(evs, o, r') := a_recv m a r in (EvSock m a :: evs, o, r')
  | TRaise e :: r => ([EvSock m a], PRaise e, r)
  end.

Definition a_call (pol : bool) (ms mr : meth) (asend arecv : arg) (script : list tok) : list ev * pyout * list tok :=
  let '(e1, o1, s1) := a_send pol ms asend script in
  match o1 with
  | PRet _ => let '(e2, o2, s2) := a_recv mr arecv s1 in (e1 ++ e2, o2, s2)
  | o => (e1, o, s1)
  end.

(* async GetBulkIter.__anext__ / GetNextIter.__anext__ (the policer sits in session._send) *)
Definition async_bulk_next (pol : bool) (buf : list (option Z)) (script : list tok)
  : list ev * pyout * list (option Z) * list tok :=
  match buf with
  | _ :: _ => let '(o, b') := pop_or_stop EStopAsyncIteration buf in ([], o, b', script)
  | [] => let '(evs, o, r) := a_call pol MSendGetBulk MRecvGetBulk ACtx ACtx script in take_reply EStopAsyncIteration evs o r
  end.
Definition async_next_next (pol : bool) (buf : list (option Z)) (script : list tok)
  : list ev * pyout * list (option Z) * list tok :=
  let '(evs, o, r) := a_call pol MSendGetNext MRecvGetNext ACtx ACtx script in (evs, o, buf, r).

(* ---------------------------------------------------------------- whole API calls ----------------------------- *)
Record pyres := { r_events : list ev; r_items : list Z; r_end : pyout; r_rest : list tok }.

(* `for item in it` up to [fuel] items: __next__ until it raises *)
Fixpoint iterate (fuel : nat) (next : list (option Z) -> list tok -> list ev * pyout * list (option Z) * list tok)
         (buf : list (option Z)) (script : list tok) (evs : list ev) (items : list Z) : pyres :=
  match fuel with
  | O => {| r_events := evs; r_items := rev items; r_end := PCap; r_rest := script |}
  | S f =>
    let '(e, o, buf', script') := next buf script in
    match o with
    | PRet (SvObj v) => iterate f next buf' script' (evs ++ e) (v :: items)
    | PRet (SvList _) => {| r_events := evs ++ e; r_items := rev items; r_end := PBadScript; r_rest := script' |}
    | o' => {| r_events := evs ++ e; r_items := rev items; r_end := o'; r_rest := script' |}
    end
  end.

Inductive mode := Sync | Async.
Record pycfg := { pc_mode : mode; pc_policer : bool; pc_version : version; pc_allow_bulk : bool; pc_max_rep : Z }.
Inductive api :=
| ApiGet (oid : bytes) | ApiGetMany (oids : list bytes)
| ApiGetNext (oid : bytes) | ApiGetBulk (oid : bytes) (max_rep : option Z) | ApiFetch (oid : bytes).

Definition single (x : list ev * pyout * list tok) : pyres :=
  let '(e, o, r) := x in {| r_events := e; r_items := []; r_end := o; r_rest := r |}.

Definition walk_next_api (cfg : pycfg) (fuel : nat) (oid : bytes) (script : list tok) : pyres :=
  iterate fuel (match pc_mode cfg with Sync => sync_next_next | Async => async_next_next end (pc_policer cfg))
          [] script [EvIter oid None] [].
Definition walk_bulk_api (cfg : pycfg) (fuel : nat) (oid : bytes) (req : option Z) (script : list tok) : pyres :=
  iterate fuel (match pc_mode cfg with Sync => sync_bulk_next | Async => async_bulk_next end (pc_policer cfg))
          [] script [EvIter oid (Some (effective_max_rep req (pc_max_rep cfg)))] [].

Definition run_api (cfg : pycfg) (fuel : nat) (a : api) (script : list tok) : pyres :=
  match a, pc_mode cfg with
  | ApiGet oid, Sync => single (sync_call (pc_policer cfg) false MGet (AOid oid) script)
  | ApiGet oid, Async => single (a_call (pc_policer cfg) MSendGet MRecvGet (AOid oid) ANone script)
  | ApiGetMany oids, Sync => single (sync_call (pc_policer cfg) false MGetMany (AOids oids) script)
  | ApiGetMany oids, Async => single (a_call (pc_policer cfg) MSendGetMany MRecvGetMany (AOids oids) ANone script)
  | ApiGetNext oid, _ => walk_next_api cfg fuel oid script
  | ApiGetBulk oid req, _ => walk_bulk_api cfg fuel oid req script
  | ApiFetch oid, _ =>
    if session_allow_bulk (pc_version cfg) (pc_allow_bulk cfg) then walk_bulk_api cfg fuel oid None script
    else walk_next_api cfg fuel oid script
  end.

(* ---------------------------------------------------------------- programs: several objects on one session --------- *)
(* Iterators are separate objects, each with its own buffer; single calls and next() calls on any of them may interleave
   on one session, an iterator may be used again after it raised, or be abandoned half-way.  The script is what the
   session's socket methods return, in call order. *)
Inductive cmd :=
| CCall (a : api)          (* get / get_many *)
| CNew (a : api)           (* getnext / getbulk / fetch: the iterator gets the next free number *)
| CNext (i : nat).         (* next() / __anext__() on iterator i *)

Record iter_st := { it_bulk : bool; it_buf : list (option Z) }.

Definition next_of (cfg : pycfg) (bulk : bool) :=
  match pc_mode cfg, bulk with
  | Sync, true => sync_bulk_next | Sync, false => sync_next_next
  | Async, true => async_bulk_next | Async, false => async_next_next
  end (pc_policer cfg).

Fixpoint set_nth {A} (l : list A) (i : nat) (x : A) : list A :=
  match l, i with
  | [], _ => []
  | _ :: r, O => x :: r
  | y :: r, S k => y :: set_nth r k x
  end.

Definition new_iter (cfg : pycfg) (a : api) : option (ev * iter_st) :=
  match a with
  | ApiGetNext oid => Some (EvIter oid None, {| it_bulk := false; it_buf := [] |})
  | ApiGetBulk oid req => Some (EvIter oid (Some (effective_max_rep req (pc_max_rep cfg))), {| it_bulk := true; it_buf := [] |})
  | ApiFetch oid =>
    if session_allow_bulk (pc_version cfg) (pc_allow_bulk cfg)
    then Some (EvIter oid (Some (effective_max_rep None (pc_max_rep cfg))), {| it_bulk := true; it_buf := [] |})
    else Some (EvIter oid None, {| it_bulk := false; it_buf := [] |})
  | _ => None
  end.

Fixpoint run_prog (cfg : pycfg) (p : list cmd) (its : list iter_st) (script : list tok) (evs : list ev) (outs : list pyout)
  : list ev * list pyout * list tok :=
  match p with
  | [] => (evs, rev outs, script)
  | CCall a :: r =>
    match a with
    | ApiGet _ | ApiGetMany _ =>
      let res := run_api cfg 0 a script in
      run_prog cfg r its (r_rest res) (evs ++ r_events res) (r_end res :: outs)
    | _ => (evs, rev (PBadScript :: outs), script)
    end
  | CNew a :: r =>
    match new_iter cfg a with
    | Some (e, st) => run_prog cfg r (its ++ [st]) script (evs ++ [e]) (PRet (SvObj 0) :: outs)
    | None => (evs, rev (PBadScript :: outs), script)
    end
  | CNext i :: r =>
    match nth_error its i with
    | None => (evs, rev (PBadScript :: outs), script)
    | Some st =>
      let '(e, o, buf', script') := next_of cfg (it_bulk st) (it_buf st) script in
      run_prog cfg r (set_nth its i {| it_bulk := it_bulk st; it_buf := buf' |}) script' (evs ++ e) (o :: outs)
    end
  end.

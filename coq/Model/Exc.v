(* Python exception classes a call can raise, and call outcomes. *)
From GS Require Import Model.Base.

Inductive exc :=
| ESnmpError | EDecode | EEncode | EAuth | ENoSuchInstance      (* gufo.snmp SnmpError family *)
| EValue | ETimeout | EBlockingIO | EOSError | ENotImplemented | ERuntime
| EStopAsyncIteration | EStopIteration
| EException.                                                   (* builtin Exception, root of the family *)

(* what a Python-visible call does *)
Inductive outcome (A : Type) :=
| Return (a : A)
| Raise (e : exc)
| Crash.           (* pyo3 PanicException: not an Exception subclass *)
Arguments Return {A} a.
Arguments Raise {A} e.
Arguments Crash {A}.

(* Building and emitting a request: PyOp::from_python for every operation (src/snmp/op/*.rs), the request-id
   generator (src/reqid.rs), send_request/_send_inner (src/socket/snmpsocket.rs), the pooled message buffers
   (src/buf/pool.rs), and the Python-level choices of SnmpSession (fetch, getbulk's max_repetitions). *)
From GS Require Import Model.Base Gen.Constants Model.Ber Model.Pdu Model.Buffer Model.OidText Model.Exc Gen.ErrorMap
  Model.Ops Model.Auth Model.Priv Model.V3.

(* what the caller asked for *)
Inductive call :=
| CGet (oid_text : bytes)
| CGetMany (oid_texts : list bytes)
| CGetNext (it : getiter)
| CGetBulk (it : getiter)
| CRefresh.

Fixpoint parse_oids (ts : list bytes) : res (list bytes) :=
  match ts with
  | [] => Ok []
  | t :: r => o <- oid_of_text t ;; os <- parse_oids r ;; Ok (o :: os)
  end.

(* T::from_python(req, request_id) *)
Definition call_pdu (c : call) (rid : Z) : res pdu :=
  match c with
  | CGet t => o <- oid_of_text t ;; Ok (PGetRequest {| g_request_id := rid; g_vars := [o] |})
  | CGetMany ts => os <- parse_oids ts ;; Ok (PGetRequest {| g_request_id := rid; g_vars := os |})
  | CGetNext it => Ok (PGetNextRequest {| g_request_id := rid; g_vars := [next_oid it] |})
  | CGetBulk it => Ok (PGetBulkRequest {| gb_request_id := rid; gb_non_repeaters := 0;
                                          gb_max_repetitions := max_repetitions it; gb_vars := [next_oid it] |})
  | CRefresh => Ok (PGetRequest {| g_request_id := rid; g_vars := [] |})
  end.

(* ---- buffer pool: buffers come back reset; the stale bookmark survives ---- *)
Definition pool := list buffer.
Definition acquire (p : pool) : buffer * pool :=
  match p with
  | b :: r => (b, r)          (* Vec::pop takes the most recently released buffer *)
  | [] => (empty_buffer, [])
  end.
Definition release (p : pool) (b : buffer) : pool := reset b :: p.
Definition pool_inv (p : pool) : Prop := Forall (fun b => data b = []) p.

(* ---- community sessions: send_request = request id, from_python, _send_inner ---- *)
(* result: the new request id (always updated), and the datagram handed to send() or the error raised;
   nothing is sent when the result is an error *)
Definition c_send (version : Z) (community : bytes) (p : pool) (c : call) (rnd : Z) : Z * pool * res bytes :=
  let rid := next_id rnd in
  match call_pdu c rid with
  | Ok pd =>
    let '(b, p') := acquire p in
    match push_cmsg version b {| cm_community := community; cm_pdu := pd |} with
    | Ok b' => (rid, release p' b', Ok (data b'))
    | Err e => (rid, release p' b, Err e)
    | Panic => (rid, release p' b, Panic)
    end
  | Err e => (rid, p, Err e)
  | Panic => (rid, p, Panic)
  end.

(* ---- v3 sessions ---- *)
Definition v3_send (s : v3sock) (c : call) (rnd_req rnd_msg : Z) : v3sock * res bytes :=
  let rid := next_id rnd_req in
  let s1 := with_request_id s rid in
  match call_pdu c rid with
  | Ok pd => v3_push_pdu s1 pd rnd_msg
  | Err e => (s1, Err e)
  | Panic => (s1, Panic)
  end.

(* Executable history semantics of the rate limiter on top of the generated
   [Gen.Policer] (no proofs here, so the model still runs when a proof breaks). *)
From Coq Require Import ZArith List Bool.
From GS Require Import Gen.Policer.
Import ListNotations.
Open Scope Z_scope.

(* What wait()/wait_sync() do with the answer of get_timeout: the request is
   released at [ts + sleep_of o]. *)
Definition release (st : pstate) (ts : Z) : pstate * Z :=
  let (st', o) := get_timeout st ts in (st', ts + sleep_of o).

(* A history of sequential calls on a monotonic clock: every call is made at or
   after the previous release ([Z.abs g] after it, for an arbitrary [g]). *)
Fixpoint run (st : pstate) (last : Z) (gaps : list Z) : list Z :=
  match gaps with
  | [] => []
  | g :: gs => let ts := last + Z.abs g in
               let (st', r) := release st ts in r :: run st' r gs
  end.

(* Sleep times of the same history. *)
Fixpoint sleeps (st : pstate) (last : Z) (gaps : list Z) : list Z :=
  match gaps with
  | [] => []
  | g :: gs => let ts := last + Z.abs g in
               let (st', r) := release st ts in (r - ts) :: sleeps st' r gs
  end.

(* Whole life of a policer: constructed, first call at [t0], then [gaps]. *)
Definition history (st0 : pstate) (t0 : Z) (gaps : list Z) : list Z :=
  let (st1, r0) := release st0 t0 in r0 :: run st1 r0 gaps.
Definition history_sleeps (st0 : pstate) (t0 : Z) (gaps : list Z) : list Z :=
  let (st1, r0) := release st0 t0 in (r0 - t0) :: sleeps st1 r0 gaps.


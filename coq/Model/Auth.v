(* USM authentication and key derivation: src/auth/mod.rs, src/auth/digest.rs, src/auth/noauth.rs, src/util.rs.
   The digest is a parameter (streaming init / update / final), instantiated with the Gallina MD5 and SHA-1. *)
From GS Require Import Model.Base Gen.Constants.
From GS Require Model.Crypto.MD5 Model.Crypto.SHA1.

Section Digest.
  Variable S : Type.
  Variable init : S.
  Variable update : S -> bytes -> S.
  Variable final : S -> bytes.
  Variable KS : Z.                  (* key size = digest size (16 / 20) *)

  Definition H (l : bytes) : bytes := final (update init l).

  (* DigestAuth::password_to_master: n full copies of the password, then a prefix, through one hasher *)
  Definition password_to_master (pw : bytes) : res bytes :=
    if len pw =? 0 then Panic (* MEGABYTE / 0 *) else
    let n := MEGABYTE / len pw in
    let rem := MEGABYTE mod len pw in
    let st := Z.iter n (fun s => update s pw) init in
    let st := if 0 <? rem then update st (takez rem pw) else st in
    slice_to (final st) KS.

  (* DigestAuth::localize: H(key || engine id || key), `out.clone_from_slice(&digest[..out.len()])` with out of KS octets *)
  Definition localize (key locality : bytes) : res bytes :=
    slice_to (final (update (update (update init key) locality) key)) KS.

  (* as_localized: self.key.clone_from_slice(key) panics unless the lengths are equal *)
  Definition as_localized (key : bytes) : res bytes := if len key =? KS then Ok key else Panic.
  Definition as_master (key locality : bytes) : res bytes := k <- localize key locality ;; as_localized k.
  Definition as_password (pw locality : bytes) : res bytes := m <- password_to_master pw ;; as_master m locality.

  Definition xor_const (c : Z) (l : bytes) : bytes := map (fun x => Z.lxor x c) l.
  Fixpoint const_bytes (n : nat) (c : Z) : bytes := match n with O => [] | Datatypes.S k => c :: const_bytes k c end.

  (* DigestAuth::sign: HMAC written out by hand, first SS octets written at [offset] *)
  Definition sign (SS : Z) (key data : bytes) (offset : Z) : res bytes :=
    let rest_len := Z.to_nat (PADDED_LENGTH - KS) in
    let d1 := final (update (update (update init (xor_const IPAD_VALUE key)) (const_bytes rest_len IPAD_VALUE)) data) in
    d1k <- slice_to d1 KS ;;
    let d2 := final (update (update (update init (xor_const OPAD_VALUE key)) (const_bytes rest_len OPAD_VALUE)) d1k) in
    mac <- slice_to d2 SS ;;
    if (offset <? 0) || (len data <? offset + SS) then Panic
    else Ok (takez offset data ++ mac ++ dropz (offset + SS) data).
End Digest.

Inductive auth_alg := ANoAuth | AMd5 | ASha1.
Record auth_key := { ak_alg : auth_alg; ak_key : bytes }.

(* AuthKey::new *)
Definition auth_new (code : Z) : res auth_key :=
  let a := Z.land code KT_ALG_MASK in
  if a =? NO_AUTH then Ok {| ak_alg := ANoAuth; ak_key := [] |}
  else if a =? MD5_AUTH then Ok {| ak_alg := AMd5; ak_key := const_bytes (Z.to_nat MD5_KEY_SIZE) 0 |}
  else if a =? SHA1_AUTH then Ok {| ak_alg := ASha1; ak_key := const_bytes (Z.to_nat SHA1_KEY_SIZE) 0 |}
  else Err InvalidVersion.

Definition key_size (a : auth_alg) : Z :=
  match a with ANoAuth => 0 | AMd5 => MD5_KEY_SIZE | ASha1 => SHA1_KEY_SIZE end.
Definition has_auth (a : auth_alg) : bool := match a with ANoAuth => false | _ => true end.
Definition sign_size (a : auth_alg) : Z :=
  match a with ANoAuth => 0 | AMd5 => MD5_SIGN_SIZE | ASha1 => SHA1_SIGN_SIZE end.
Definition placeholder (a : auth_alg) : bytes := const_bytes (Z.to_nat (sign_size a)) 0.

Definition md5_p2m := password_to_master _ MD5.md5_init MD5.md5_update MD5.md5_final MD5_KEY_SIZE.
Definition sha1_p2m := password_to_master _ SHA1.sha1_init SHA1.sha1_update SHA1.sha1_final SHA1_KEY_SIZE.
Definition md5_localize := localize _ MD5.md5_init MD5.md5_update MD5.md5_final MD5_KEY_SIZE.
Definition sha1_localize := localize _ SHA1.sha1_init SHA1.sha1_update SHA1.sha1_final SHA1_KEY_SIZE.

Definition alg_p2m (a : auth_alg) (pw : bytes) : res bytes :=
  match a with ANoAuth => Ok [] | AMd5 => md5_p2m pw | ASha1 => sha1_p2m pw end.
Definition alg_localize (a : auth_alg) (key loc : bytes) : res bytes :=
  match a with ANoAuth => Ok [] | AMd5 => md5_localize key loc | ASha1 => sha1_localize key loc end.

(* AuthKey::as_key_type (after the D10 fix: empty password / wrong key size are refused) *)
Definition as_key_type (k : auth_key) (alg : Z) (key engine_id : bytes) : res auth_key :=
  let a := ak_alg k in
  if negb (has_auth a) then Ok k else
  let t := Z.land alg KT_TYPE_MASK in
  let ks := key_size a in
  if (t =? KT_PASSWORD) && negb (len key =? 0) then
    m <- alg_p2m a key ;; l <- alg_localize a m engine_id ;;
    (if len l =? ks then Ok {| ak_alg := a; ak_key := l |} else Panic)
  else if (t =? KT_MASTER) && (len key =? ks) then
    l <- alg_localize a key engine_id ;;
    (if len l =? ks then Ok {| ak_alg := a; ak_key := l |} else Panic)
  else if (t =? KT_LOCALIZED) && (len key =? ks) then Ok {| ak_alg := a; ak_key := key |}
  else Err InvalidKey.

Definition alg_sign (k : auth_key) (data : bytes) (offset : Z) : res bytes :=
  match ak_alg k with
  | ANoAuth => Ok data
  | AMd5 => sign _ MD5.md5_init MD5.md5_update MD5.md5_final MD5_KEY_SIZE MD5_SIGN_SIZE (ak_key k) data offset
  | ASha1 => sign _ SHA1.sha1_init SHA1.sha1_update SHA1.sha1_final SHA1_KEY_SIZE SHA1_SIGN_SIZE (ak_key k) data offset
  end.

(* util.rs: get_master_key / get_localized_key as exposed to Python *)
Inductive pyres (A : Type) := PyOk (a : A) | PyValueError | PyDecodeError | PyPanic.
Arguments PyOk {A} a. Arguments PyValueError {A}. Arguments PyDecodeError {A}. Arguments PyPanic {A}.
Definition get_master_key (alg : Z) (pw : bytes) : pyres bytes :=
  match auth_new alg with
  | Err _ => PyDecodeError | Panic => PyPanic
  | Ok k =>
    if len pw =? 0 then PyValueError else
    match alg_p2m (ak_alg k) pw with Ok m => PyOk m | Err _ => PyValueError | Panic => PyPanic end
  end.
Definition get_localized_key (alg : Z) (master engine_id : bytes) : pyres bytes :=
  match auth_new alg with
  | Err _ => PyDecodeError | Panic => PyPanic
  | Ok k =>
    if negb (len master =? key_size (ak_alg k)) then PyValueError else
    match alg_localize (ak_alg k) master engine_id with Ok m => PyOk m | Err _ => PyValueError | Panic => PyPanic end
  end.

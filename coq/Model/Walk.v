(* The walk iterators of the Python layer (sync_client/getnext.py, sync_client/getbulk.py and their async twins
   in async_client/client.py) on top of GetIter and the operations of Model.Ops, driven against an arbitrary
   agent.  An agent is any function from the request number and the requested OID to the reply PDU that
   reaches the operation (the receive loop, timeouts and decode errors are Model.Ops / C04 / C18 matters). *)
From GS Require Import Model.Base Gen.Constants Model.Ber Model.Pdu Model.OidText Model.Exc Gen.ErrorMap Model.Ops.

Definition agent := nat -> bytes -> pdu.

Inductive ending :=
| Stopped                 (* StopIteration / StopAsyncIteration: normal end of the walk *)
| Raised (e : exc)        (* the iteration ended with an exception *)
| CrashedW                (* PanicException *)
| OutOfFuel.              (* the walk was still going when the fuel ran out *)

Record item := { it_oid : bytes; it_key : bytes; it_value : pv }.   (* OID octets, dotted text, value *)
Record walk := { yielded : list item; requested : list bytes; ended : ending }.

(* GetNextIter.__next__ / __anext__ repeated: one request per item *)
Fixpoint walk_next (fuel : nat) (a : agent) (n : nat) (it : getiter) (ys : list item) (rq : list bytes) : walk :=
  match fuel with
  | O => {| yielded := rev ys; requested := rev rq; ended := OutOfFuel |}
  | S f =>
    let o := next_oid it in
    let p := a n o in
    let '(it', r) := getnext_to_python p it in
    match r with
    | Return (k, v) => walk_next f a (S n) it' ({| it_oid := next_oid it'; it_key := k; it_value := v |} :: ys) (o :: rq)
    | Raise EStopAsyncIteration => {| yielded := rev ys; requested := rev (o :: rq); ended := Stopped |}
    | Raise e => {| yielded := rev ys; requested := rev (o :: rq); ended := Raised e |}
    | Crash => {| yielded := rev ys; requested := rev (o :: rq); ended := CrashedW |}
    end
  end.
Definition getnext_walk (fuel : nat) (a : agent) (base_text : bytes) : outcome walk :=
  match getiter_new base_text None with
  | Return it => Return (walk_next fuel a 0 it [] [])
  | Raise e => Raise e
  | Crash => Crash
  end.

(* GetBulkIter: the reply list is buffered and popped; a None marker ends the walk *)
Fixpoint drain (l : list (option (bytes * pv))) (oids : list bytes) (ys : list item) : list item * bool :=
  match l with
  | [] => (ys, false)
  | None :: _ => (ys, true)
  | Some (k, v) :: r =>
    match oids with
    | o :: os => drain r os ({| it_oid := o; it_key := k; it_value := v |} :: ys)
    | [] => drain r [] ({| it_oid := []; it_key := k; it_value := v |} :: ys)
    end
  end.

(* OIDs of the data-valued varbinds of a reply, in order (those that getbulk_to_python looks at) *)
Definition data_oids (p : pdu) : list bytes :=
  match p with
  | PGetResponse r => map vb_oid (filter (fun vb => is_data_value (vb_value vb)) (gr_vars r))
  | _ => []
  end.

Fixpoint walk_bulk (fuel : nat) (a : agent) (n : nat) (it : getiter) (ys : list item) (rq : list bytes) : walk :=
  match fuel with
  | O => {| yielded := rev ys; requested := rev rq; ended := OutOfFuel |}
  | S f =>
    let o := next_oid it in
    let p := a n o in
    let '(it', r) := getbulk_to_python p it in
    match r with
    | Return l =>
      let '(ys', stop) := drain l (data_oids p) ys in
      if stop then {| yielded := rev ys'; requested := rev (o :: rq); ended := Stopped |}
      else walk_bulk f a (S n) it' ys' (o :: rq)
    | Raise EStopAsyncIteration => {| yielded := rev ys; requested := rev (o :: rq); ended := Stopped |}
    | Raise e => {| yielded := rev ys; requested := rev (o :: rq); ended := Raised e |}
    | Crash => {| yielded := rev ys; requested := rev (o :: rq); ended := CrashedW |}
    end
  end.
Definition getbulk_walk (fuel : nat) (a : agent) (base_text : bytes) (max_rep : Z) : outcome walk :=
  match getiter_new base_text (Some max_rep) with
  | Return it => Return (walk_bulk fuel a 0 it [] [])
  | Raise e => Raise e
  | Crash => Crash
  end.

(* SnmpSession.fetch: GetBulk only when the session is not v1 and bulk is allowed (client.py) *)
Inductive version := V1 | V2c | V3.
Definition session_allow_bulk (v : version) (allow_bulk : bool) : bool :=
  match v with V1 => false | _ => allow_bulk end.
Definition fetch_walk (fuel : nat) (a : agent) (v : version) (allow_bulk : bool) (default_max_rep : Z) (base_text : bytes)
  : outcome walk :=
  if session_allow_bulk v allow_bulk then getbulk_walk fuel a base_text default_max_rep
  else getnext_walk fuel a base_text.
(* getbulk(oid, max_repetitions=None): `max_repetitions or self._max_repetitions` *)
Definition effective_max_rep (requested : option Z) (default_max_rep : Z) : Z :=
  match requested with Some m => if m =? 0 then default_max_rep else m | None => default_max_rep end.

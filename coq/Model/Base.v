(* Basic conventions of the model (DESIGN.md 3.1): bytes are Z in 0..255, results
   distinguish the library's SnmpError from a Rust panic. *)
From Coq Require Export ZArith List Bool Lia.
Export ListNotations.
Open Scope Z_scope.
Open Scope bool_scope.

Definition bytes := list Z.

(* SnmpError variants (src/error.rs); payloads (strings, version numbers) are dropped *)
Inductive err :=
| Incomplete | UnexpectedTag | InvalidTagFormat | UnknownPdu | InvalidPdu | InvalidData
| InvalidKey | UnsupportedTag | TrailingData | InvalidVersion | OutOfBuffer | NotImplemented
| NoSuchInstance | SocketError | WouldBlock | ConnectionRefused | UnknownSecurityModel
| AuthenticationFailed.

(* [Panic] is produced exactly where the Rust code would panic: unchecked index,
   slice out of range, clone_from_slice length mismatch, division by zero, todo!(). *)
Inductive res (A : Type) :=
| Ok (a : A)
| Err (e : err)
| Panic.
Arguments Ok {A} a.
Arguments Err {A} e.
Arguments Panic {A}.

Definition bind {A B} (r : res A) (f : A -> res B) : res B :=
  match r with Ok a => f a | Err e => Err e | Panic => Panic end.
Notation "x <- e ;; k" := (bind e (fun x => k)) (at level 61, e at next level, right associativity).
Notation "' ( a , b ) <- e ;; k" := (bind e (fun ab => let '(a, b) := ab in k))
  (at level 61, a name, b name, e at next level, right associativity).

Definition is_ok {A} (r : res A) : bool := match r with Ok _ => true | _ => false end.
Definition no_panic {A} (r : res A) : Prop := r <> Panic.

Definition wfb (l : bytes) : Prop := Forall (fun b => 0 <= b < 256) l.

Definition len (l : bytes) : Z := Z.of_nat (length l).

(* i[k]  - panics when out of range *)
Definition idx (l : bytes) (k : nat) : res Z :=
  match nth_error l k with Some b => Ok b | None => Panic end.
(* &i[..n] and &i[n..] - panic when n > len *)
(* take / drop by a Z count, recursion on the list (never converts a length field to nat) *)
Fixpoint takez (n : Z) (l : bytes) : bytes :=
  match l with [] => [] | x :: r => if n <=? 0 then [] else x :: takez (n - 1) r end.
Fixpoint dropz (n : Z) (l : bytes) : bytes :=
  match l with [] => [] | _ :: r => if n <=? 0 then l else dropz (n - 1) r end.
Definition slice_to (l : bytes) (n : Z) : res bytes :=
  if (n <? 0) || (len l <? n) then Panic else Ok (takez n l).
Definition slice_from (l : bytes) (n : Z) : res bytes :=
  if (n <? 0) || (len l <? n) then Panic else Ok (dropz n l).

(* machine integers: the wrap is written where the Rust type wraps *)
Definition wrap8 (z : Z) : Z := z mod 256.
Definition wrap32 (z : Z) : Z := z mod 4294967296.
Definition wrap64 (z : Z) : Z := z mod 18446744073709551616.
(* two's complement reading of the low 64 bits (i64 arithmetic in release builds) *)
Definition swrap64 (z : Z) : Z :=
  let m := z mod 18446744073709551616 in
  if m <? 9223372036854775808 then m else m - 18446744073709551616.
Definition sat64 (z : Z) : Z := Z.max (-9223372036854775808) (Z.min 9223372036854775807 z).

Definition testbit (b : Z) (mask : Z) : bool := negb (Z.land b mask =? 0).

Fixpoint all_eqb (a b : bytes) : bool :=
  match a, b with
  | [], [] => true
  | x :: a', y :: b' => (x =? y) && all_eqb a' b'
  | _, _ => false
  end.

(* slice.starts_with *)
Fixpoint starts_with (l p : bytes) : bool :=
  match p, l with
  | [], _ => true
  | x :: p', y :: l' => (x =? y) && starts_with l' p'
  | _ :: _, [] => false
  end.

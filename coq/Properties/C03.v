(* C03 - requests on the wire are exactly what the caller asked for.
   Statements only; proofs in Proofs/EmitProofs.v, Proofs/EncodeProofs.v, Proofs/RoundTrip.v.
   [call_req c rid r]: the request [r] (Spec/X690.v: PDU type, request-id, OIDs in order each bound to NULL,
   GetBulk with non-repeaters 0 and the iterator's max-repetitions) is what the API call [c] asks for.
   [enc_cmsg] / [enc_v3]: the reference minimal definite-length encodings; C15 proves the library's own decoder and
   the round trip, so an emitted datagram reads back as exactly version, credentials, PDU and OIDs.
   [pool_inv]: every pooled buffer has been reset (any bookmark may be stale): the emitted octets do not depend on it. *)
From GS Require Import Model.Base Gen.Constants Model.Ber Model.Pdu Model.Buffer Model.OidText Model.Exc Gen.ErrorMap Model.Ops Model.Walk
  Model.Auth Model.Priv Model.V3 Model.Emit Model.Session Spec.X690 Proofs.BufferProofs Proofs.EncodeProofs Proofs.RoundTrip
  Proofs.EmitProofs Proofs.V3StateProofs.

Theorem C03_call_is_request :
  forall (c : call) (rid : Z), (forall p : pdu, call_pdu c rid = Ok p -> exists r : req, req_of_pdu p = Some r /\ call_req c rid r /\ p = pdu_of_req r) /\ (forall e : err, call_pdu c rid = Err e -> e = InvalidData /\ (exists t : bytes, call_text c t /\ oid_of_text t = Err InvalidData)) /\ call_pdu c rid <> Panic.
Proof. exact call_pdu_spec. Qed.

Theorem C03_request_id_range :
  forall rnd : Z, 0 <= next_id rnd <= 2147483647.
Proof. exact next_id_range. Qed.

Theorem C03_community_emit :
  forall (ver : Z) (comm : bytes) (p : pool) (c : call) (rnd rid : Z) (p' : pool) (r : res bytes), 0 <= ver < 128 -> pool_inv p -> call_bulk_ok c -> c_send ver comm p c rnd = (rid, p', r) -> rid = next_id rnd /\ pool_inv p' /\ (forall (pd : pdu) (rq : req), call_pdu c rid = Ok pd -> req_of_pdu pd = Some rq -> (len (enc_cmsg ver comm rq) <= BUF_MAX_SIZE -> r = Ok (enc_cmsg ver comm rq)) /\ (BUF_MAX_SIZE < len (enc_cmsg ver comm rq) -> r = Err OutOfBuffer)) /\ (forall e : err, call_pdu c rid = Err e -> r = Err InvalidData /\ p' = p) /\ r <> Panic.
Proof. exact c_send_spec. Qed.

Theorem C03_history_independent :
  forall (ver : Z) (comm : bytes) (c : call) (rnd : Z) (p1 p2 : pool), 0 <= ver < 128 -> call_bulk_ok c -> pool_inv p1 -> pool_inv p2 -> snd (c_send ver comm p1 c rnd) = snd (c_send ver comm p2 c rnd) /\ fst (fst (c_send ver comm p1 c rnd)) = fst (fst (c_send ver comm p2 c rnd)).
Proof. exact c_send_history_independent. Qed.

Theorem C03_pool_always_reset :
  forall (ops : list pool_op) (p : pool), pool_inv p -> pool_inv (fold_left pool_step ops p).
Proof. exact pool_inv_always. Qed.

Theorem C03_session_is_map_of_calls :
  forall (ver : Z) (comm : bytes) (calls : list (call * Z)) (p : pool), 0 <= ver < 128 -> pool_inv p -> Forall (fun cr : call * Z => call_bulk_ok (fst cr)) calls -> c_session ver comm p calls = map (fun cr : call * Z => snd (c_send ver comm [] (fst cr) (snd cr))) calls.
Proof. exact c_session_spec. Qed.

Theorem C03_v3_emit_plain :
  forall (s : v3sock) (c : call) (rnd_req rnd_msg : Z) (s' : v3sock) (dg : bytes), has_auth (ak_alg (auth s)) = false -> has_priv (pk_alg (privk s)) = false -> IntEncProofs.in_range (engine_boots s) -> IntEncProofs.in_range (engine_time s) -> call_bulk_ok c -> v3_send s c rnd_req rnd_msg = (s', Ok dg) -> exists (pd : pdu) (rq : req), call_pdu c (next_id rnd_req) = Ok pd /\ req_of_pdu pd = Some rq /\ call_req c (next_id rnd_req) rq /\ dg = enc_v3 (next_id rnd_msg) V3_MAX_SIZE (if call_reportable c then 4 else 0) {| uf_engine_id := engine_id s; uf_boots := engine_boots s; uf_time := engine_time s; uf_user := user_name s; uf_auth := []; uf_priv := [] |} (enc_scoped (engine_id s) rq) /\ len dg <= BUF_MAX_SIZE /\ request_id s' = next_id rnd_req /\ msg_id s' = next_id rnd_msg /\ s' = {| engine_id := engine_id s; engine_boots := engine_boots s; engine_time := engine_time s; user_name := user_name s; auth := auth s; privk := privk s; msg_id := next_id rnd_msg; request_id := next_id rnd_req |}.
Proof. exact v3_send_spec. Qed.

Theorem C03_v3_state_and_flags :
  forall (s : v3sock) (c : call) (rnd_req rnd_msg : Z) (s' : v3sock) (dg : bytes), v3_send s c rnd_req rnd_msg = (s', Ok dg) -> exists (pd : pdu) (pp : bytes) (d : msgdata), call_pdu c (next_id rnd_req) = Ok pd /\ (let s1 := with_request_id s (next_id rnd_req) in let m := v3_message s1 pd (next_id rnd_msg) pp d in v3_finish s1 m = Ok dg /\ flags_octet m = (if has_auth (ak_alg (auth s)) then 1 else 0) + (if has_priv (pk_alg (privk s)) then 2 else 0) + (if call_reportable c then 4 else 0) /\ m_msg_id m = next_id rnd_msg /\ u_engine_id (m_usm m) = engine_id s /\ u_engine_boots (m_usm m) = engine_boots s /\ u_engine_time (m_usm m) = engine_time s /\ u_user_name (m_usm m) = user_name s /\ (if has_priv (pk_alg (privk s)) then exists (k' : priv_key) (ct : bytes), priv_encrypt (privk s) {| s_engine_id := engine_id s; s_pdu := pd |} (engine_boots s) (engine_time s) = (k', Ok (ct, pp)) /\ d = Encrypted ct else pp = [] /\ d = Plaintext {| s_engine_id := engine_id s; s_pdu := pd |}) /\ request_id s' = next_id rnd_req /\ msg_id s' = next_id rnd_msg).
Proof. exact v3_send_message. Qed.

Theorem C03_v3_ids :
  forall (s : v3sock) (c : call) (rnd_req rnd_msg : Z) (s' : v3sock) (res0 : res bytes), v3_send s c rnd_req rnd_msg = (s', res0) -> request_id s' = next_id rnd_req /\ engine_id s' = engine_id s /\ engine_boots s' = engine_boots s /\ engine_time s' = engine_time s /\ user_name s' = user_name s /\ auth s' = auth s /\ pk_alg (privk s') = pk_alg (privk s) /\ pk_key (privk s') = pk_key (privk s) /\ pk_pre_iv (privk s') = pk_pre_iv (privk s) /\ (forall dg : bytes, res0 = Ok dg -> msg_id s' = next_id rnd_msg) /\ (call_pdu c (next_id rnd_req) <> Ok match call_pdu c (next_id rnd_req) with | Ok pd => pd | _ => PReport [] end -> s' = with_request_id s (next_id rnd_req)).
Proof. exact v3_send_state. Qed.

Theorem C03_fetch_policy :
  forall (v : version) (allow : bool), session_allow_bulk v allow = true <-> v <> V1 /\ allow = true.
Proof. exact fetch_policy. Qed.

Theorem C03_getbulk_max_repetitions :
  forall (requested : option Z) (dflt : Z), (requested = None \/ requested = Some 0 -> effective_max_rep requested dflt = dflt) /\ (forall m : Z, requested = Some m -> m <> 0 -> effective_max_rep requested dflt = m).
Proof. exact effective_max_rep_spec. Qed.

Theorem C03_strict_roundtrip_community :
  forall (ver : Z) (c : bytes) (r : req), 0 <= ver < 128 -> wfb c -> req_wf r -> len (enc_cmsg ver c r) < 65536 -> cmsg_decode ver (enc_cmsg ver c r) = Ok {| cm_community := c; cm_pdu := pdu_of_req r |}.
Proof. exact cmsg_decode_enc_cmsg. Qed.

Theorem C03_strict_roundtrip_v3 :
  forall (msg_id max_size flags : Z) (u : usm_fields) (ctx : bytes) (r : req), i64 msg_id -> i64 max_size -> i64 (uf_boots u) -> i64 (uf_time u) -> req_ids r -> len (enc_v3 msg_id max_size flags u (enc_scoped ctx r)) < 65536 -> v3_decode (enc_v3 msg_id max_size flags u (enc_scoped ctx r)) = Ok {| m_msg_id := msg_id; m_flag_auth := testbit flags 1; m_flag_priv := testbit flags 2; m_flag_report := testbit flags 4; m_usm := usm_of_fields u; m_data := Plaintext {| s_engine_id := ctx; s_pdu := pdu_of_req r |} |}.
Proof. exact v3_decode_enc_v3_plain. Qed.

Check C03_call_is_request :
  forall (c : call) (rid : Z), (forall p : pdu, call_pdu c rid = Ok p -> exists r : req, req_of_pdu p = Some r /\ call_req c rid r /\ p = pdu_of_req r) /\ (forall e : err, call_pdu c rid = Err e -> e = InvalidData /\ (exists t : bytes, call_text c t /\ oid_of_text t = Err InvalidData)) /\ call_pdu c rid <> Panic.
Check C03_request_id_range :
  forall rnd : Z, 0 <= next_id rnd <= 2147483647.
Check C03_community_emit :
  forall (ver : Z) (comm : bytes) (p : pool) (c : call) (rnd rid : Z) (p' : pool) (r : res bytes), 0 <= ver < 128 -> pool_inv p -> call_bulk_ok c -> c_send ver comm p c rnd = (rid, p', r) -> rid = next_id rnd /\ pool_inv p' /\ (forall (pd : pdu) (rq : req), call_pdu c rid = Ok pd -> req_of_pdu pd = Some rq -> (len (enc_cmsg ver comm rq) <= BUF_MAX_SIZE -> r = Ok (enc_cmsg ver comm rq)) /\ (BUF_MAX_SIZE < len (enc_cmsg ver comm rq) -> r = Err OutOfBuffer)) /\ (forall e : err, call_pdu c rid = Err e -> r = Err InvalidData /\ p' = p) /\ r <> Panic.
Check C03_history_independent :
  forall (ver : Z) (comm : bytes) (c : call) (rnd : Z) (p1 p2 : pool), 0 <= ver < 128 -> call_bulk_ok c -> pool_inv p1 -> pool_inv p2 -> snd (c_send ver comm p1 c rnd) = snd (c_send ver comm p2 c rnd) /\ fst (fst (c_send ver comm p1 c rnd)) = fst (fst (c_send ver comm p2 c rnd)).
Check C03_pool_always_reset :
  forall (ops : list pool_op) (p : pool), pool_inv p -> pool_inv (fold_left pool_step ops p).
Check C03_session_is_map_of_calls :
  forall (ver : Z) (comm : bytes) (calls : list (call * Z)) (p : pool), 0 <= ver < 128 -> pool_inv p -> Forall (fun cr : call * Z => call_bulk_ok (fst cr)) calls -> c_session ver comm p calls = map (fun cr : call * Z => snd (c_send ver comm [] (fst cr) (snd cr))) calls.
Check C03_v3_emit_plain :
  forall (s : v3sock) (c : call) (rnd_req rnd_msg : Z) (s' : v3sock) (dg : bytes), has_auth (ak_alg (auth s)) = false -> has_priv (pk_alg (privk s)) = false -> IntEncProofs.in_range (engine_boots s) -> IntEncProofs.in_range (engine_time s) -> call_bulk_ok c -> v3_send s c rnd_req rnd_msg = (s', Ok dg) -> exists (pd : pdu) (rq : req), call_pdu c (next_id rnd_req) = Ok pd /\ req_of_pdu pd = Some rq /\ call_req c (next_id rnd_req) rq /\ dg = enc_v3 (next_id rnd_msg) V3_MAX_SIZE (if call_reportable c then 4 else 0) {| uf_engine_id := engine_id s; uf_boots := engine_boots s; uf_time := engine_time s; uf_user := user_name s; uf_auth := []; uf_priv := [] |} (enc_scoped (engine_id s) rq) /\ len dg <= BUF_MAX_SIZE /\ request_id s' = next_id rnd_req /\ msg_id s' = next_id rnd_msg /\ s' = {| engine_id := engine_id s; engine_boots := engine_boots s; engine_time := engine_time s; user_name := user_name s; auth := auth s; privk := privk s; msg_id := next_id rnd_msg; request_id := next_id rnd_req |}.
Check C03_v3_state_and_flags :
  forall (s : v3sock) (c : call) (rnd_req rnd_msg : Z) (s' : v3sock) (dg : bytes), v3_send s c rnd_req rnd_msg = (s', Ok dg) -> exists (pd : pdu) (pp : bytes) (d : msgdata), call_pdu c (next_id rnd_req) = Ok pd /\ (let s1 := with_request_id s (next_id rnd_req) in let m := v3_message s1 pd (next_id rnd_msg) pp d in v3_finish s1 m = Ok dg /\ flags_octet m = (if has_auth (ak_alg (auth s)) then 1 else 0) + (if has_priv (pk_alg (privk s)) then 2 else 0) + (if call_reportable c then 4 else 0) /\ m_msg_id m = next_id rnd_msg /\ u_engine_id (m_usm m) = engine_id s /\ u_engine_boots (m_usm m) = engine_boots s /\ u_engine_time (m_usm m) = engine_time s /\ u_user_name (m_usm m) = user_name s /\ (if has_priv (pk_alg (privk s)) then exists (k' : priv_key) (ct : bytes), priv_encrypt (privk s) {| s_engine_id := engine_id s; s_pdu := pd |} (engine_boots s) (engine_time s) = (k', Ok (ct, pp)) /\ d = Encrypted ct else pp = [] /\ d = Plaintext {| s_engine_id := engine_id s; s_pdu := pd |}) /\ request_id s' = next_id rnd_req /\ msg_id s' = next_id rnd_msg).
Check C03_v3_ids :
  forall (s : v3sock) (c : call) (rnd_req rnd_msg : Z) (s' : v3sock) (res0 : res bytes), v3_send s c rnd_req rnd_msg = (s', res0) -> request_id s' = next_id rnd_req /\ engine_id s' = engine_id s /\ engine_boots s' = engine_boots s /\ engine_time s' = engine_time s /\ user_name s' = user_name s /\ auth s' = auth s /\ pk_alg (privk s') = pk_alg (privk s) /\ pk_key (privk s') = pk_key (privk s) /\ pk_pre_iv (privk s') = pk_pre_iv (privk s) /\ (forall dg : bytes, res0 = Ok dg -> msg_id s' = next_id rnd_msg) /\ (call_pdu c (next_id rnd_req) <> Ok match call_pdu c (next_id rnd_req) with | Ok pd => pd | _ => PReport [] end -> s' = with_request_id s (next_id rnd_req)).
Check C03_fetch_policy :
  forall (v : version) (allow : bool), session_allow_bulk v allow = true <-> v <> V1 /\ allow = true.
Check C03_getbulk_max_repetitions :
  forall (requested : option Z) (dflt : Z), (requested = None \/ requested = Some 0 -> effective_max_rep requested dflt = dflt) /\ (forall m : Z, requested = Some m -> m <> 0 -> effective_max_rep requested dflt = m).
Check C03_strict_roundtrip_community :
  forall (ver : Z) (c : bytes) (r : req), 0 <= ver < 128 -> wfb c -> req_wf r -> len (enc_cmsg ver c r) < 65536 -> cmsg_decode ver (enc_cmsg ver c r) = Ok {| cm_community := c; cm_pdu := pdu_of_req r |}.
Check C03_strict_roundtrip_v3 :
  forall (msg_id max_size flags : Z) (u : usm_fields) (ctx : bytes) (r : req), i64 msg_id -> i64 max_size -> i64 (uf_boots u) -> i64 (uf_time u) -> req_ids r -> len (enc_v3 msg_id max_size flags u (enc_scoped ctx r)) < 65536 -> v3_decode (enc_v3 msg_id max_size flags u (enc_scoped ctx r)) = Ok {| m_msg_id := msg_id; m_flag_auth := testbit flags 1; m_flag_priv := testbit flags 2; m_flag_report := testbit flags 4; m_usm := usm_of_fields u; m_data := Plaintext {| s_engine_id := ctx; s_pdu := pdu_of_req r |} |}.
Print Assumptions C03_call_is_request.
Print Assumptions C03_request_id_range.
Print Assumptions C03_community_emit.
Print Assumptions C03_history_independent.
Print Assumptions C03_pool_always_reset.
Print Assumptions C03_session_is_map_of_calls.
Print Assumptions C03_v3_emit_plain.
Print Assumptions C03_v3_state_and_flags.
Print Assumptions C03_v3_ids.
Print Assumptions C03_fetch_policy.
Print Assumptions C03_getbulk_max_repetitions.
Print Assumptions C03_strict_roundtrip_community.
Print Assumptions C03_strict_roundtrip_v3.

(* --- the Python layer hands get_many's OIDs to the socket unchanged (order and repetitions), sync and async *)
From GS Require Import Model.Base Model.Exc Model.Walk Model.PyLayer Proofs.PyLayerProofs.
Theorem C03_getmany_passes_oids :
  forall (cfg : pycfg) (fuel : nat) (oids : list bytes) (script : list tok) (m : meth) (l : list bytes), In (EvSock m (AOids l)) (r_events (run_api cfg fuel (ApiGetMany oids) script)) -> l = oids.
Proof. exact getmany_passes_oids. Qed.

Check C03_getmany_passes_oids :
  forall (cfg : pycfg) (fuel : nat) (oids : list bytes) (script : list tok) (m : meth) (l : list bytes), In (EvSock m (AOids l)) (r_events (run_api cfg fuel (ApiGetMany oids) script)) -> l = oids.
Print Assumptions C03_getmany_passes_oids.

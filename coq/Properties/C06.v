(* C06 - a walk never leaves its subtree, never goes backwards, always ends.
   Statements only; proofs in Proofs/WalkAnyAgent.v over Model/Walk.v (GetNextIter / GetBulkIter of the Python
   layer on top of GetIter::set_next_oid and OpGetNext / OpGetBulk::to_python), for an ARBITRARY agent
   [a : nat -> bytes -> pdu] (any function of the request number and the requested OID) and any fuel.
   [fresh_iter it0 base]: the iterator as GetIter::new leaves it (start = next = base). *)
From GS Require Import Model.Base Gen.Constants Model.Ber Model.Pdu Model.OidText Model.Exc Gen.ErrorMap Model.Ops Model.Walk
  Proofs.OpsLemmas Proofs.OpsProofs Proofs.WalkAnyAgent.

Theorem C06_contained :
  forall (fuel : nat) (a : agent) (it0 : getiter) (base : bytes), fresh_iter it0 base -> Forall (fun i : item => starts_with (it_oid i) base = true) (yielded (walk_next fuel a 0 it0 [] [])) /\ Forall (fun i : item => starts_with (it_oid i) base = true) (yielded (walk_bulk fuel a 0 it0 [] [])).
Proof. exact walk_contained. Qed.

Theorem C06_increasing :
  forall (fuel : nat) (a : agent) (it0 : getiter) (base : bytes), fresh_iter it0 base -> (increasing base (map it_oid (yielded (walk_next fuel a 0 it0 [] []))) /\ NoDup (map it_oid (yielded (walk_next fuel a 0 it0 [] [])))) /\ increasing base (map it_oid (yielded (walk_bulk fuel a 0 it0 [] []))) /\ NoDup (map it_oid (yielded (walk_bulk fuel a 0 it0 [] []))).
Proof. exact walk_increasing. Qed.

Theorem C06_no_crash :
  forall (fuel : nat) (a : agent) (it0 : getiter) (base : bytes), fresh_iter it0 base -> ended (walk_next fuel a 0 it0 [] []) <> CrashedW /\ ended (walk_bulk fuel a 0 it0 [] []) <> CrashedW.
Proof. exact walk_no_crash. Qed.

Theorem C06_terminates :
  forall (fuel : nat) (a : agent) (it0 : getiter) (base : bytes), fresh_iter it0 base -> forall U : list bytes, (forall (n : nat) (o : bytes), Forall (fun x : bytes => In x U) (reply_oids (a n o))) -> (fuel > length U)%nat -> ended (walk_next fuel a 0 it0 [] []) <> OutOfFuel /\ ended (walk_bulk fuel a 0 it0 [] []) <> OutOfFuel.
Proof. exact walk_terminates. Qed.

Theorem C06_getnext_followup :
  forall (fuel : nat) (a : agent) (it0 : getiter) (base : bytes), fresh_iter it0 base -> requested (walk_next fuel a 0 it0 [] []) = firstn (length (requested (walk_next fuel a 0 it0 [] []))) (base :: map it_oid (yielded (walk_next fuel a 0 it0 [] []))) /\ (ended (walk_next fuel a 0 it0 [] []) <> OutOfFuel -> requested (walk_next fuel a 0 it0 [] []) = base :: map it_oid (yielded (walk_next fuel a 0 it0 [] [])) /\ length (requested (walk_next fuel a 0 it0 [] [])) = (length (yielded (walk_next fuel a 0 it0 [] [])) + 1)%nat).
Proof. exact walk_next_followup. Qed.

Theorem C06_getnext_order :
  forall (fuel : nat) (a : agent) (it0 : getiter) (base : bytes), fresh_iter it0 base -> forall (k : nat) (i : item), nth_error (yielded (walk_next fuel a 0 it0 [] [])) k = Some i -> exists (o : bytes) (r : getresponse) (vb : varbind), nth_error (requested (walk_next fuel a 0 it0 [] [])) k = Some o /\ a k o = PGetResponse r /\ gr_vars r = [vb] /\ it_oid i = vb_oid vb /\ text_of_oid (vb_oid vb) = Ok (it_key i) /\ value_to_py (vb_value vb) = Ok (it_value i) /\ is_data_value (vb_value vb) = true.
Proof. exact walk_next_order. Qed.

Theorem C06_getnext_stops :
  forall (fuel : nat) (a : agent) (it0 : getiter) (base : bytes), fresh_iter it0 base -> forall (k : nat) (o : bytes), nth_error (requested (walk_next fuel a 0 it0 [] [])) k = Some o -> next_stop base o (a k o) = true <-> ended (walk_next fuel a 0 it0 [] []) = Stopped /\ k = length (yielded (walk_next fuel a 0 it0 [] [])).
Proof. exact walk_next_stops. Qed.

Theorem C06_getbulk_structure :
  forall (fuel : nat) (a : agent) (it0 : getiter) (base : bytes), fresh_iter it0 base -> exists chunks : list (list item), yielded (walk_bulk fuel a 0 it0 [] []) = concat chunks /\ length chunks = length (requested (walk_bulk fuel a 0 it0 [] [])) /\ (forall (k : nat) (c : list item), nth_error chunks k = Some c -> let o := last_oid (concat (firstn k chunks)) base in nth_error (requested (walk_bulk fuel a 0 it0 [] [])) k = Some o /\ (exists cvbs rest : list varbind, reply_data_vars (a k o) = cvbs ++ rest /\ Forall2 item_of_vb cvbs c) /\ match bulk_verdict base o (a k o) with | Go c' => c' = c /\ c <> [] /\ (S k = length chunks -> ended (walk_bulk fuel a 0 it0 [] []) = OutOfFuel) /\ (exists r : getresponse, a k o = PGetResponse r /\ Forall2 item_of_vb (data_vars (gr_vars r)) c) | Halt c' e => c' = c /\ S k = length chunks /\ ended (walk_bulk fuel a 0 it0 [] []) = e end).
Proof. exact walk_bulk_structure. Qed.

Theorem C06_getbulk_followup :
  forall (fuel : nat) (a : agent) (it0 : getiter) (base : bytes), fresh_iter it0 base -> exists chunks : list (list item), yielded (walk_bulk fuel a 0 it0 [] []) = concat chunks /\ length chunks = length (requested (walk_bulk fuel a 0 it0 [] [])) /\ (forall (k : nat) (o : bytes), nth_error (requested (walk_bulk fuel a 0 it0 [] [])) k = Some o -> o = last (map it_oid (concat (firstn k chunks))) base).
Proof. exact walk_bulk_followup. Qed.

Theorem C06_getbulk_order :
  forall (fuel : nat) (a : agent) (it0 : getiter) (base : bytes), fresh_iter it0 base -> exists chunks : list (list item), yielded (walk_bulk fuel a 0 it0 [] []) = concat chunks /\ length chunks = length (requested (walk_bulk fuel a 0 it0 [] [])) /\ (forall (k : nat) (c : list item), nth_error chunks k = Some c -> exists (o : bytes) (suffix : list bytes), nth_error (requested (walk_bulk fuel a 0 it0 [] [])) k = Some o /\ data_oids (a k o) = map it_oid c ++ suffix /\ (exists cvbs : list varbind, Forall2 item_of_vb cvbs c /\ (exists rest : list varbind, reply_data_vars (a k o) = cvbs ++ rest))).
Proof. exact walk_bulk_order. Qed.

Theorem C06_getbulk_stops :
  forall (fuel : nat) (a : agent) (it0 : getiter) (base : bytes), fresh_iter it0 base -> ended (walk_bulk fuel a 0 it0 [] []) = Stopped -> exists (chunks : list (list item)) (c : list item) (o : bytes) (r : getresponse), yielded (walk_bulk fuel a 0 it0 [] []) = concat chunks /\ length chunks = length (requested (walk_bulk fuel a 0 it0 [] [])) /\ nth_error chunks (length chunks - 1) = Some c /\ o = last_oid (concat (firstn (length chunks - 1) chunks)) base /\ nth_error (requested (walk_bulk fuel a 0 it0 [] [])) (length chunks - 1) = Some o /\ a (length chunks - 1)%nat o = PGetResponse r /\ (data_vars (gr_vars r) = [] /\ c = [] \/ (exists (cvbs : list varbind) (vb : varbind) (rest : list varbind), data_vars (gr_vars r) = cvbs ++ vb :: rest /\ Forall2 item_of_vb cvbs c /\ accepted base (last_oid c o) (vb_oid vb) = false)).
Proof. exact walk_bulk_stops. Qed.

Theorem C06_request_bound_getnext :
  forall (fuel : nat) (a : agent) (it0 : getiter) (base : bytes), fresh_iter it0 base -> forall U : list bytes, (forall (n : nat) (o : bytes), Forall (fun x : bytes => In x U) (reply_oids (a n o))) -> (length (requested (walk_next fuel a 0 it0 [] [])) <= length U + 1)%nat.
Proof. exact walk_next_request_bound. Qed.

Theorem C06_request_bound_getbulk :
  forall (fuel : nat) (a : agent) (it0 : getiter) (base : bytes), fresh_iter it0 base -> forall U : list bytes, (forall (n : nat) (o : bytes), Forall (fun x : bytes => In x U) (reply_oids (a n o))) -> (length (requested (walk_bulk fuel a 0 it0 [] [])) <= length U + 1)%nat.
Proof. exact walk_bulk_request_bound. Qed.

Check C06_contained :
  forall (fuel : nat) (a : agent) (it0 : getiter) (base : bytes), fresh_iter it0 base -> Forall (fun i : item => starts_with (it_oid i) base = true) (yielded (walk_next fuel a 0 it0 [] [])) /\ Forall (fun i : item => starts_with (it_oid i) base = true) (yielded (walk_bulk fuel a 0 it0 [] [])).
Check C06_increasing :
  forall (fuel : nat) (a : agent) (it0 : getiter) (base : bytes), fresh_iter it0 base -> (increasing base (map it_oid (yielded (walk_next fuel a 0 it0 [] []))) /\ NoDup (map it_oid (yielded (walk_next fuel a 0 it0 [] [])))) /\ increasing base (map it_oid (yielded (walk_bulk fuel a 0 it0 [] []))) /\ NoDup (map it_oid (yielded (walk_bulk fuel a 0 it0 [] []))).
Check C06_no_crash :
  forall (fuel : nat) (a : agent) (it0 : getiter) (base : bytes), fresh_iter it0 base -> ended (walk_next fuel a 0 it0 [] []) <> CrashedW /\ ended (walk_bulk fuel a 0 it0 [] []) <> CrashedW.
Check C06_terminates :
  forall (fuel : nat) (a : agent) (it0 : getiter) (base : bytes), fresh_iter it0 base -> forall U : list bytes, (forall (n : nat) (o : bytes), Forall (fun x : bytes => In x U) (reply_oids (a n o))) -> (fuel > length U)%nat -> ended (walk_next fuel a 0 it0 [] []) <> OutOfFuel /\ ended (walk_bulk fuel a 0 it0 [] []) <> OutOfFuel.
Check C06_getnext_followup :
  forall (fuel : nat) (a : agent) (it0 : getiter) (base : bytes), fresh_iter it0 base -> requested (walk_next fuel a 0 it0 [] []) = firstn (length (requested (walk_next fuel a 0 it0 [] []))) (base :: map it_oid (yielded (walk_next fuel a 0 it0 [] []))) /\ (ended (walk_next fuel a 0 it0 [] []) <> OutOfFuel -> requested (walk_next fuel a 0 it0 [] []) = base :: map it_oid (yielded (walk_next fuel a 0 it0 [] [])) /\ length (requested (walk_next fuel a 0 it0 [] [])) = (length (yielded (walk_next fuel a 0 it0 [] [])) + 1)%nat).
Check C06_getnext_order :
  forall (fuel : nat) (a : agent) (it0 : getiter) (base : bytes), fresh_iter it0 base -> forall (k : nat) (i : item), nth_error (yielded (walk_next fuel a 0 it0 [] [])) k = Some i -> exists (o : bytes) (r : getresponse) (vb : varbind), nth_error (requested (walk_next fuel a 0 it0 [] [])) k = Some o /\ a k o = PGetResponse r /\ gr_vars r = [vb] /\ it_oid i = vb_oid vb /\ text_of_oid (vb_oid vb) = Ok (it_key i) /\ value_to_py (vb_value vb) = Ok (it_value i) /\ is_data_value (vb_value vb) = true.
Check C06_getnext_stops :
  forall (fuel : nat) (a : agent) (it0 : getiter) (base : bytes), fresh_iter it0 base -> forall (k : nat) (o : bytes), nth_error (requested (walk_next fuel a 0 it0 [] [])) k = Some o -> next_stop base o (a k o) = true <-> ended (walk_next fuel a 0 it0 [] []) = Stopped /\ k = length (yielded (walk_next fuel a 0 it0 [] [])).
Check C06_getbulk_structure :
  forall (fuel : nat) (a : agent) (it0 : getiter) (base : bytes), fresh_iter it0 base -> exists chunks : list (list item), yielded (walk_bulk fuel a 0 it0 [] []) = concat chunks /\ length chunks = length (requested (walk_bulk fuel a 0 it0 [] [])) /\ (forall (k : nat) (c : list item), nth_error chunks k = Some c -> let o := last_oid (concat (firstn k chunks)) base in nth_error (requested (walk_bulk fuel a 0 it0 [] [])) k = Some o /\ (exists cvbs rest : list varbind, reply_data_vars (a k o) = cvbs ++ rest /\ Forall2 item_of_vb cvbs c) /\ match bulk_verdict base o (a k o) with | Go c' => c' = c /\ c <> [] /\ (S k = length chunks -> ended (walk_bulk fuel a 0 it0 [] []) = OutOfFuel) /\ (exists r : getresponse, a k o = PGetResponse r /\ Forall2 item_of_vb (data_vars (gr_vars r)) c) | Halt c' e => c' = c /\ S k = length chunks /\ ended (walk_bulk fuel a 0 it0 [] []) = e end).
Check C06_getbulk_followup :
  forall (fuel : nat) (a : agent) (it0 : getiter) (base : bytes), fresh_iter it0 base -> exists chunks : list (list item), yielded (walk_bulk fuel a 0 it0 [] []) = concat chunks /\ length chunks = length (requested (walk_bulk fuel a 0 it0 [] [])) /\ (forall (k : nat) (o : bytes), nth_error (requested (walk_bulk fuel a 0 it0 [] [])) k = Some o -> o = last (map it_oid (concat (firstn k chunks))) base).
Check C06_getbulk_order :
  forall (fuel : nat) (a : agent) (it0 : getiter) (base : bytes), fresh_iter it0 base -> exists chunks : list (list item), yielded (walk_bulk fuel a 0 it0 [] []) = concat chunks /\ length chunks = length (requested (walk_bulk fuel a 0 it0 [] [])) /\ (forall (k : nat) (c : list item), nth_error chunks k = Some c -> exists (o : bytes) (suffix : list bytes), nth_error (requested (walk_bulk fuel a 0 it0 [] [])) k = Some o /\ data_oids (a k o) = map it_oid c ++ suffix /\ (exists cvbs : list varbind, Forall2 item_of_vb cvbs c /\ (exists rest : list varbind, reply_data_vars (a k o) = cvbs ++ rest))).
Check C06_getbulk_stops :
  forall (fuel : nat) (a : agent) (it0 : getiter) (base : bytes), fresh_iter it0 base -> ended (walk_bulk fuel a 0 it0 [] []) = Stopped -> exists (chunks : list (list item)) (c : list item) (o : bytes) (r : getresponse), yielded (walk_bulk fuel a 0 it0 [] []) = concat chunks /\ length chunks = length (requested (walk_bulk fuel a 0 it0 [] [])) /\ nth_error chunks (length chunks - 1) = Some c /\ o = last_oid (concat (firstn (length chunks - 1) chunks)) base /\ nth_error (requested (walk_bulk fuel a 0 it0 [] [])) (length chunks - 1) = Some o /\ a (length chunks - 1)%nat o = PGetResponse r /\ (data_vars (gr_vars r) = [] /\ c = [] \/ (exists (cvbs : list varbind) (vb : varbind) (rest : list varbind), data_vars (gr_vars r) = cvbs ++ vb :: rest /\ Forall2 item_of_vb cvbs c /\ accepted base (last_oid c o) (vb_oid vb) = false)).
Check C06_request_bound_getnext :
  forall (fuel : nat) (a : agent) (it0 : getiter) (base : bytes), fresh_iter it0 base -> forall U : list bytes, (forall (n : nat) (o : bytes), Forall (fun x : bytes => In x U) (reply_oids (a n o))) -> (length (requested (walk_next fuel a 0 it0 [] [])) <= length U + 1)%nat.
Check C06_request_bound_getbulk :
  forall (fuel : nat) (a : agent) (it0 : getiter) (base : bytes), fresh_iter it0 base -> forall U : list bytes, (forall (n : nat) (o : bytes), Forall (fun x : bytes => In x U) (reply_oids (a n o))) -> (length (requested (walk_bulk fuel a 0 it0 [] [])) <= length U + 1)%nat.
Print Assumptions C06_contained.
Print Assumptions C06_increasing.
Print Assumptions C06_no_crash.
Print Assumptions C06_terminates.
Print Assumptions C06_getnext_followup.
Print Assumptions C06_getnext_order.
Print Assumptions C06_getnext_stops.
Print Assumptions C06_getbulk_structure.
Print Assumptions C06_getbulk_followup.
Print Assumptions C06_getbulk_order.
Print Assumptions C06_getbulk_stops.
Print Assumptions C06_request_bound_getnext.
Print Assumptions C06_request_bound_getbulk.

(* --- the Python GetBulk iterator (Model/PyLayer.v): the context carries `max_repetitions or default`; a buffered reply is
   yielded in order up to the end marker, which ends the walk; otherwise the next call issues a new request *)
From GS Require Import Model.Base Model.Exc Model.Walk Model.PyLayer Proofs.PyLayerProofs.
Theorem C06_getbulk_context :
  forall (cfg : pycfg) (fuel : nat) (oid : bytes) (req : option Z) (script : list tok), exists tl : list ev, r_events (run_api cfg fuel (ApiGetBulk oid req) script) = EvIter oid (Some (effective_max_rep req (pc_max_rep cfg))) :: tl.
Proof. exact getbulk_context. Qed.

Theorem C06_sync_buffer_drained :
  forall (pol : bool) (l : list (option Z)) (fuel : nat) (script : list tok) (evs : list ev) (items : list Z), (length l < fuel)%nat -> iterate fuel (sync_bulk_next pol) l script evs items = (if has_none l then {| r_events := evs; r_items := rev items ++ before_none l; r_end := PRaise EStopIteration; r_rest := script |} else iterate (fuel - length l) (sync_bulk_next pol) [] script evs (rev (before_none l) ++ items)).
Proof. exact sync_buffer_drained. Qed.

Check C06_getbulk_context :
  forall (cfg : pycfg) (fuel : nat) (oid : bytes) (req : option Z) (script : list tok), exists tl : list ev, r_events (run_api cfg fuel (ApiGetBulk oid req) script) = EvIter oid (Some (effective_max_rep req (pc_max_rep cfg))) :: tl.
Check C06_sync_buffer_drained :
  forall (pol : bool) (l : list (option Z)) (fuel : nat) (script : list tok) (evs : list ev) (items : list Z), (length l < fuel)%nat -> iterate fuel (sync_bulk_next pol) l script evs items = (if has_none l then {| r_events := evs; r_items := rev items ++ before_none l; r_end := PRaise EStopIteration; r_rest := script |} else iterate (fuel - length l) (sync_bulk_next pol) [] script evs (rev (before_none l) ++ items)).
Print Assumptions C06_getbulk_context.
Print Assumptions C06_sync_buffer_drained.

(* "a walk cannot report an entry twice", at the level of what the caller gets - the OID STRINGS ([it_key], the text the
   renderer made of the OID): whatever the agent replies, they are pairwise distinct.  Holds because the renderer refuses
   sub-identifiers above 2^32-1 (it printed them modulo 2^32 before the fix: commit, and the walk then reported 1 and
   2^32+1 as the same entry); Proofs/WalkKeys.v *)
From GS Require Import Proofs.WalkKeys.
Theorem C06_yielded_texts_distinct :
  forall (text : bytes) (mr : option Z) (it : getiter) (fuel : nat) (a : agent), getiter_new text mr = Return it -> NoDup (map it_key (yielded (walk_next fuel a 0 it [] []))) /\ NoDup (map it_key (yielded (walk_bulk fuel a 0 it [] []))).
Proof. exact walk_keys_distinct_api. Qed.
Theorem C06_yielded_texts_distinct_any_base :
  forall (fuel : nat) (a : agent) (it0 : getiter) (base : bytes) (c : Z) (rest : bytes), fresh_iter it0 base -> base = c :: rest -> 0 <= c < 120 -> NoDup (map it_key (yielded (walk_next fuel a 0 it0 [] []))) /\ NoDup (map it_key (yielded (walk_bulk fuel a 0 it0 [] []))).
Proof. exact walk_keys_distinct. Qed.
Check C06_yielded_texts_distinct :
  forall (text : bytes) (mr : option Z) (it : getiter) (fuel : nat) (a : agent), getiter_new text mr = Return it -> NoDup (map it_key (yielded (walk_next fuel a 0 it [] []))) /\ NoDup (map it_key (yielded (walk_bulk fuel a 0 it [] []))).
Check C06_yielded_texts_distinct_any_base :
  forall (fuel : nat) (a : agent) (it0 : getiter) (base : bytes) (c : Z) (rest : bytes), fresh_iter it0 base -> base = c :: rest -> 0 <= c < 120 -> NoDup (map it_key (yielded (walk_next fuel a 0 it0 [] []))) /\ NoDup (map it_key (yielded (walk_bulk fuel a 0 it0 [] []))).
Print Assumptions C06_yielded_texts_distinct.
Print Assumptions C06_yielded_texts_distinct_any_base.

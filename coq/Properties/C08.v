(* C08 - the OID sent is the OID asked for; invalid OID text is refused.
   Statements only; proofs in Proofs/OidTextProofs.v over Model/OidText.v (model of src/ber/objectid.rs,
   tied to the code by the oid_parse / oid_print correspondence of ./check C08).
   Reference semantics (Proofs/OidTextProofs.v): [denotes s arcs] - s split at every '.' gives parts each being an
   optional '+' followed by one or more decimal digits (Rust's u32::from_str), arcs their values;
   [valid_arcs] - at least two arcs, first <= 2, second <= 39, every arc <= 2^32-1;
   [oid_content] (Spec/X690.v) - canonical X.690 content octets; [canonical_text] - unsigned decimal without
   leading zeros joined by '.'. *)
From GS Require Import Model.Base Model.OidText Spec.X690 Proofs.OidTextProofs.

(* accepted text is transmitted as exactly the OID it denotes - never a different OID *)
Theorem C08_sound : forall s b, oid_of_text s = Ok b ->
  exists arcs, denotes s arcs /\ valid_arcs arcs /\ b = oid_content arcs.
Proof. exact Proofs.OidTextProofs.C08_sound. Qed.

Theorem C08_never_different : forall s b arcs, oid_of_text s = Ok b -> denotes s arcs ->
  valid_arcs arcs /\ b = oid_content arcs.
Proof. exact Proofs.OidTextProofs.C08_never_different. Qed.

(* every valid OID text is accepted *)
Theorem C08_complete : forall s arcs, denotes s arcs -> valid_arcs arcs -> oid_of_text s = Ok (oid_content arcs).
Proof. exact Proofs.OidTextProofs.C08_complete. Qed.

(* everything else is refused with an error (InvalidData -> an exception), never a panic *)
Theorem C08_refuse : forall s, oid_of_text s <> Panic /\ (forall e, oid_of_text s = Err e -> e = InvalidData).
Proof. exact Proofs.OidTextProofs.C08_refuse. Qed.
Theorem C08_refuse_not_denoting : forall s, (forall arcs, ~ denotes s arcs) -> oid_of_text s = Err InvalidData.
Proof. exact Proofs.OidTextProofs.C08_refuse_not_denoting. Qed.
Theorem C08_refuse_invalid : forall s arcs, denotes s arcs -> ~ valid_arcs arcs -> oid_of_text s = Err InvalidData.
Proof. exact Proofs.OidTextProofs.C08_refuse_invalid. Qed.

(* an OID received from the agent is rendered back to identical text *)
Theorem C08_print_parse : forall arcs, valid_arcs arcs -> text_of_oid (oid_content arcs) = Ok (canonical_text arcs).
Proof. exact Proofs.OidTextProofs.C08_print_parse. Qed.
Theorem C08_round_trip_canonical : forall arcs, valid_arcs arcs ->
  exists b, oid_of_text (canonical_text arcs) = Ok b /\ text_of_oid b = Ok (canonical_text arcs).
Proof. exact Proofs.OidTextProofs.C08_round_trip_canonical. Qed.

Check C08_sound : forall s b, oid_of_text s = Ok b -> exists arcs, denotes s arcs /\ valid_arcs arcs /\ b = oid_content arcs.
Check C08_never_different : forall s b arcs, oid_of_text s = Ok b -> denotes s arcs -> valid_arcs arcs /\ b = oid_content arcs.
Check C08_complete : forall s arcs, denotes s arcs -> valid_arcs arcs -> oid_of_text s = Ok (oid_content arcs).
Check C08_refuse : forall s, oid_of_text s <> Panic /\ (forall e, oid_of_text s = Err e -> e = InvalidData).
Check C08_refuse_not_denoting : forall s, (forall arcs, ~ denotes s arcs) -> oid_of_text s = Err InvalidData.
Check C08_refuse_invalid : forall s arcs, denotes s arcs -> ~ valid_arcs arcs -> oid_of_text s = Err InvalidData.
Check C08_print_parse : forall arcs, valid_arcs arcs -> text_of_oid (oid_content arcs) = Ok (canonical_text arcs).
Check C08_round_trip_canonical : forall arcs, valid_arcs arcs ->
  exists b, oid_of_text (canonical_text arcs) = Ok b /\ text_of_oid b = Ok (canonical_text arcs).
Print Assumptions C08_sound.
Print Assumptions C08_never_different.
Print Assumptions C08_complete.
Print Assumptions C08_refuse.
Print Assumptions C08_refuse_not_denoting.
Print Assumptions C08_refuse_invalid.
Print Assumptions C08_print_parse.
Print Assumptions C08_round_trip_canonical.

(* C14 - privacy salts never repeat and nothing confidential goes in clear.
   Statements only; proofs in Proofs/SaltProofs.v over Model/Priv.v and Model/V3.v.  [salts k reqs]: the
   msgPrivacyParameters of successive encrypt calls on one key installation (None where a call failed; the counter
   advances all the same); sends may be interleaved with any number of receives (decrypt does not touch the key
   state: C14_decrypt_keeps_state, C14_interleaved).  No bound on the number of messages; distinctness holds for any
   two messages fewer than 2^32 (DES) / 2^64 (AES) apart.  The clear part: the scoped PDU only enters the message as
   the ciphertext argument of v3_message (C11), and C03/C09 prove the rest of the message is the reference encoding
   of header and USM fields; the API run searches for request OIDs outside the ciphertext. *)
From GS Require Import Model.Base Gen.Constants Model.Ber Model.Pdu Model.Priv Model.V3 Spec.Rfc3414
  Proofs.PrivLemmas Proofs.PrivProofs Proofs.SaltProofs.

Theorem C14_des_salt_sequence :
  forall (reqs : list (scoped * Z * Z)) (k : priv_key) (i : nat) (pp : bytes), installed k -> pk_alg k = PDes -> nth_error (salts k reqs) i = Some (Some pp) -> exists (s : scoped) (boots time : Z), nth_error reqs i = Some (s, boots, time) /\ pp = be32 (wrap32 boots) ++ be32 ((pk_salt k + Z.of_nat i) mod 4294967296).
Proof. exact des_salts_nth. Qed.

Theorem C14_aes_salt_sequence :
  forall (reqs : list (scoped * Z * Z)) (k : priv_key) (i : nat) (pp : bytes), installed k -> pk_alg k = PAes -> nth_error (salts k reqs) i = Some (Some pp) -> pp = be64 ((pk_salt k + Z.of_nat i) mod 18446744073709551616).
Proof. exact aes_salts_nth. Qed.

Theorem C14_des_distinct :
  forall (reqs : list (scoped * Z * Z)) (k : priv_key) (i j : nat) (a b : bytes), installed k -> pk_alg k = PDes -> (i < j)%nat -> Z.of_nat j - Z.of_nat i < 4294967296 -> nth_error (salts k reqs) i = Some (Some a) -> nth_error (salts k reqs) j = Some (Some b) -> a <> b.
Proof. exact des_salts_distinct. Qed.

Theorem C14_aes_distinct :
  forall (reqs : list (scoped * Z * Z)) (k : priv_key) (i j : nat) (a b : bytes), installed k -> pk_alg k = PAes -> (i < j)%nat -> Z.of_nat j - Z.of_nat i < 18446744073709551616 -> nth_error (salts k reqs) i = Some (Some a) -> nth_error (salts k reqs) j = Some (Some b) -> a <> b.
Proof. exact aes_salts_distinct. Qed.

Theorem C14_distinct :
  forall (reqs : list (scoped * Z * Z)) (k : priv_key) (i j : nat) (a b : bytes), installed k -> (i < j)%nat -> Z.of_nat j - Z.of_nat i < 4294967296 -> nth_error (salts k reqs) i = Some (Some a) -> nth_error (salts k reqs) j = Some (Some b) -> a <> b.
Proof. exact salts_distinct. Qed.

Theorem C14_len8 :
  forall (k : priv_key) (s : scoped) (boots time : Z) (k' : priv_key) (ct pp : bytes), priv_encrypt k s boots time = (k', Ok (ct, pp)) -> len pp = 8.
Proof. exact salt_len8. Qed.

Theorem C14_priv_flag :
  forall (sk : v3sock) (p : pdu) (mid : Z) (pp : bytes) (d : msgdata), m_flag_priv (v3_message sk p mid pp d) = has_priv (pk_alg (privk sk)).
Proof. exact priv_flag. Qed.

Theorem C14_decrypt_keeps_state :
  forall (sk : v3sock) (m : v3msg), privk (fst (v3_unwrap sk m)) = privk sk.
Proof. exact decrypt_keeps_state. Qed.

Theorem C14_interleaved :
  forall (ops : list priv_op) (k : priv_key) (i j : nat) (a b : bytes), installed k -> (i < j)%nat -> Z.of_nat j - Z.of_nat i < 4294967296 -> nth_error (session_salts k ops) i = Some (Some a) -> nth_error (session_salts k ops) j = Some (Some b) -> a <> b.
Proof. exact session_salts_distinct. Qed.

Theorem C14_send_advances_only_salt :
  forall (sk : v3sock) (p : pdu) (rnd : Z), privk (fst (v3_push_pdu sk p rnd)) = (if has_priv (pk_alg (privk sk)) then fst (priv_encrypt (privk sk) {| s_engine_id := engine_id sk; s_pdu := p |} (engine_boots sk) (engine_time sk)) else privk sk).
Proof. exact push_pdu_key_state. Qed.

Check C14_des_salt_sequence :
  forall (reqs : list (scoped * Z * Z)) (k : priv_key) (i : nat) (pp : bytes), installed k -> pk_alg k = PDes -> nth_error (salts k reqs) i = Some (Some pp) -> exists (s : scoped) (boots time : Z), nth_error reqs i = Some (s, boots, time) /\ pp = be32 (wrap32 boots) ++ be32 ((pk_salt k + Z.of_nat i) mod 4294967296).
Check C14_aes_salt_sequence :
  forall (reqs : list (scoped * Z * Z)) (k : priv_key) (i : nat) (pp : bytes), installed k -> pk_alg k = PAes -> nth_error (salts k reqs) i = Some (Some pp) -> pp = be64 ((pk_salt k + Z.of_nat i) mod 18446744073709551616).
Check C14_des_distinct :
  forall (reqs : list (scoped * Z * Z)) (k : priv_key) (i j : nat) (a b : bytes), installed k -> pk_alg k = PDes -> (i < j)%nat -> Z.of_nat j - Z.of_nat i < 4294967296 -> nth_error (salts k reqs) i = Some (Some a) -> nth_error (salts k reqs) j = Some (Some b) -> a <> b.
Check C14_aes_distinct :
  forall (reqs : list (scoped * Z * Z)) (k : priv_key) (i j : nat) (a b : bytes), installed k -> pk_alg k = PAes -> (i < j)%nat -> Z.of_nat j - Z.of_nat i < 18446744073709551616 -> nth_error (salts k reqs) i = Some (Some a) -> nth_error (salts k reqs) j = Some (Some b) -> a <> b.
Check C14_distinct :
  forall (reqs : list (scoped * Z * Z)) (k : priv_key) (i j : nat) (a b : bytes), installed k -> (i < j)%nat -> Z.of_nat j - Z.of_nat i < 4294967296 -> nth_error (salts k reqs) i = Some (Some a) -> nth_error (salts k reqs) j = Some (Some b) -> a <> b.
Check C14_len8 :
  forall (k : priv_key) (s : scoped) (boots time : Z) (k' : priv_key) (ct pp : bytes), priv_encrypt k s boots time = (k', Ok (ct, pp)) -> len pp = 8.
Check C14_priv_flag :
  forall (sk : v3sock) (p : pdu) (mid : Z) (pp : bytes) (d : msgdata), m_flag_priv (v3_message sk p mid pp d) = has_priv (pk_alg (privk sk)).
Check C14_decrypt_keeps_state :
  forall (sk : v3sock) (m : v3msg), privk (fst (v3_unwrap sk m)) = privk sk.
Check C14_interleaved :
  forall (ops : list priv_op) (k : priv_key) (i j : nat) (a b : bytes), installed k -> (i < j)%nat -> Z.of_nat j - Z.of_nat i < 4294967296 -> nth_error (session_salts k ops) i = Some (Some a) -> nth_error (session_salts k ops) j = Some (Some b) -> a <> b.
Check C14_send_advances_only_salt :
  forall (sk : v3sock) (p : pdu) (rnd : Z), privk (fst (v3_push_pdu sk p rnd)) = (if has_priv (pk_alg (privk sk)) then fst (priv_encrypt (privk sk) {| s_engine_id := engine_id sk; s_pdu := p |} (engine_boots sk) (engine_time sk)) else privk sk).
Print Assumptions C14_des_salt_sequence.
Print Assumptions C14_aes_salt_sequence.
Print Assumptions C14_des_distinct.
Print Assumptions C14_aes_distinct.
Print Assumptions C14_distinct.
Print Assumptions C14_len8.
Print Assumptions C14_priv_flag.
Print Assumptions C14_decrypt_keeps_state.
Print Assumptions C14_interleaved.
Print Assumptions C14_send_advances_only_salt.

(* C05 - a walk returns the whole subtree, in order, once - by GetNext or GetBulk.
   Statements only; proofs in Proofs/WalkMib.v: the walk iterators of Model/Walk.v against the reference agent of
   Spec/Agent.v (RFC 3416 GetNext / GetBulk over a finite MIB sorted by sub-identifier lists; v1 ends with a
   noSuchName echo, v2c/v3 with endOfMibView).  [mib_ok m]: strictly sorted, sub-identifiers in 0..2^32-1, data
   values only; [subtree m base]: the entries strictly below base. *)
From GS Require Import Model.Base Gen.Constants Model.Ber Model.Pdu Model.OidText Model.Exc Gen.ErrorMap Model.Ops Model.Walk Spec.Agent
  Proofs.OpsLemmas Proofs.OpsProofs Proofs.WalkAnyAgent Proofs.WalkMib.

Theorem C05_getnext :
  forall (v1 : bool) (m : mib) (base : subs) (fuel : nat) (it0 : getiter), mib_ok m -> subs_ok base -> fresh_iter it0 (enc_subs base) -> (fuel > length m)%nat -> let w := walk_next fuel (mib_agent_next v1 m) 0 it0 [] [] in yielded w = map to_item (subtree m base) /\ requested w = enc_subs base :: map (fun kv : subs * value => enc_subs (fst kv)) (subtree m base) /\ ended w = Stopped.
Proof. exact Proofs.WalkMib.C05_getnext. Qed.

Theorem C05_getbulk :
  forall (m : mib) (base : subs) (max_rep cap : nat) (pad : nat -> nat) (fuel : nat) (it0 : getiter), mib_ok m -> subs_ok base -> fresh_iter it0 (enc_subs base) -> (1 <= max_rep)%nat -> (1 <= cap)%nat -> (fuel > length m)%nat -> let w := walk_bulk fuel (mib_agent_bulk m max_rep cap pad) 0 it0 [] [] in yielded w = map to_item (subtree m base) /\ ended w = Stopped.
Proof. exact Proofs.WalkMib.C05_getbulk. Qed.

Theorem C05_same :
  forall (m : mib) (base : subs) (base_text : bytes) (fuel : nat), mib_ok m -> subs_ok base -> oid_of_text base_text = Ok (enc_subs base) -> (fuel > length m)%nat -> forall (v1 : bool) (max_rep cap : nat) (pad : nat -> nat) (mr dmr : Z) (v : version) (allow_bulk : bool), (1 <= max_rep)%nat -> (1 <= cap)%nat -> exists w1 w2 w3 : walk, getnext_walk fuel (mib_agent_next v1 m) base_text = Return w1 /\ getbulk_walk fuel (mib_agent_bulk m max_rep cap pad) base_text mr = Return w2 /\ fetch_walk fuel (session_agent m v allow_bulk max_rep cap pad) v allow_bulk dmr base_text = Return w3 /\ yielded w1 = map to_item (subtree m base) /\ yielded w2 = yielded w1 /\ yielded w3 = yielded w1 /\ ended w1 = Stopped /\ ended w2 = Stopped /\ ended w3 = Stopped.
Proof. exact Proofs.WalkMib.C05_same. Qed.

Theorem C05_subtree_contiguous :
  forall base x y : subs, subs_lt base x = true -> subs_prefix base x = false -> subs_lt x y = true -> subs_prefix base y = false.
Proof. exact subtree_contiguous. Qed.

Theorem C05_prefix_is_subtree :
  forall k p : list Z, subs_ok k -> subs_ok p -> starts_with (enc_subs k) (enc_subs p) = subs_prefix p k.
Proof. exact starts_with_enc_subs. Qed.

Theorem C05_order_is_lexicographic :
  forall a b : list Z, subs_ok a -> subs_ok b -> is_after (enc_subs a) (enc_subs b) = subs_lt b a.
Proof. exact is_after_enc_subs. Qed.

Check C05_getnext :
  forall (v1 : bool) (m : mib) (base : subs) (fuel : nat) (it0 : getiter), mib_ok m -> subs_ok base -> fresh_iter it0 (enc_subs base) -> (fuel > length m)%nat -> let w := walk_next fuel (mib_agent_next v1 m) 0 it0 [] [] in yielded w = map to_item (subtree m base) /\ requested w = enc_subs base :: map (fun kv : subs * value => enc_subs (fst kv)) (subtree m base) /\ ended w = Stopped.
Check C05_getbulk :
  forall (m : mib) (base : subs) (max_rep cap : nat) (pad : nat -> nat) (fuel : nat) (it0 : getiter), mib_ok m -> subs_ok base -> fresh_iter it0 (enc_subs base) -> (1 <= max_rep)%nat -> (1 <= cap)%nat -> (fuel > length m)%nat -> let w := walk_bulk fuel (mib_agent_bulk m max_rep cap pad) 0 it0 [] [] in yielded w = map to_item (subtree m base) /\ ended w = Stopped.
Check C05_same :
  forall (m : mib) (base : subs) (base_text : bytes) (fuel : nat), mib_ok m -> subs_ok base -> oid_of_text base_text = Ok (enc_subs base) -> (fuel > length m)%nat -> forall (v1 : bool) (max_rep cap : nat) (pad : nat -> nat) (mr dmr : Z) (v : version) (allow_bulk : bool), (1 <= max_rep)%nat -> (1 <= cap)%nat -> exists w1 w2 w3 : walk, getnext_walk fuel (mib_agent_next v1 m) base_text = Return w1 /\ getbulk_walk fuel (mib_agent_bulk m max_rep cap pad) base_text mr = Return w2 /\ fetch_walk fuel (session_agent m v allow_bulk max_rep cap pad) v allow_bulk dmr base_text = Return w3 /\ yielded w1 = map to_item (subtree m base) /\ yielded w2 = yielded w1 /\ yielded w3 = yielded w1 /\ ended w1 = Stopped /\ ended w2 = Stopped /\ ended w3 = Stopped.
Check C05_subtree_contiguous :
  forall base x y : subs, subs_lt base x = true -> subs_prefix base x = false -> subs_lt x y = true -> subs_prefix base y = false.
Check C05_prefix_is_subtree :
  forall k p : list Z, subs_ok k -> subs_ok p -> starts_with (enc_subs k) (enc_subs p) = subs_prefix p k.
Check C05_order_is_lexicographic :
  forall a b : list Z, subs_ok a -> subs_ok b -> is_after (enc_subs a) (enc_subs b) = subs_lt b a.
Print Assumptions C05_getnext.
Print Assumptions C05_getbulk.
Print Assumptions C05_same.
Print Assumptions C05_subtree_contiguous.
Print Assumptions C05_prefix_is_subtree.
Print Assumptions C05_order_is_lexicographic.

(* "the same for the sync and async clients", at the Python layer: on every script of socket results without busy sockets and
   timer expiries (those are C18's), each API call of the asyncio SnmpSession yields the items, the outcome (StopIteration
   read as StopAsyncIteration), the unread rest and the policer consultations of the blocking SnmpSession.
   [lift]: the asyncio client's view of the same exchanges (send_xxx returns, recv_xxx gives the result); Proofs/PySyncAsync.v *)
From GS Require Import Model.Exc Model.PyLayer Proofs.PyLayerProofs Proofs.PySyncAsync.
Theorem C05_sync_async_same :
  forall (cfg : pycfg) (fuel : nat) (a : api) (s : list tok), forallb plain_tok s = true -> r_items (run_api (with_mode cfg Async) fuel a (lift s)) = r_items (run_api (with_mode cfg Sync) fuel a s) /\ r_end (run_api (with_mode cfg Async) fuel a (lift s)) = as_async (r_end (run_api (with_mode cfg Sync) fuel a s)) /\ r_rest (run_api (with_mode cfg Async) fuel a (lift s)) = lift (r_rest (run_api (with_mode cfg Sync) fuel a s)) /\ count_police (r_events (run_api (with_mode cfg Async) fuel a (lift s))) = count_police (r_events (run_api (with_mode cfg Sync) fuel a s)).
Proof. exact sync_async_same. Qed.
Check C05_sync_async_same :
  forall (cfg : pycfg) (fuel : nat) (a : api) (s : list tok), forallb plain_tok s = true -> r_items (run_api (with_mode cfg Async) fuel a (lift s)) = r_items (run_api (with_mode cfg Sync) fuel a s) /\ r_end (run_api (with_mode cfg Async) fuel a (lift s)) = as_async (r_end (run_api (with_mode cfg Sync) fuel a s)) /\ r_rest (run_api (with_mode cfg Async) fuel a (lift s)) = lift (r_rest (run_api (with_mode cfg Sync) fuel a s)) /\ count_police (r_events (run_api (with_mode cfg Async) fuel a (lift s))) = count_police (r_events (run_api (with_mode cfg Sync) fuel a s)).
Print Assumptions C05_sync_async_same.

(* the same for programs: several iterators and calls interleaved on one session *)
Theorem C05_program_sync_async_same :
  forall (cfg : pycfg) (p : list cmd) (s : list tok), forallb plain_tok s = true -> snd (fst (run_prog (with_mode cfg Async) p [] (lift s) [] [])) = map as_async (snd (fst (run_prog (with_mode cfg Sync) p [] s [] []))) /\ snd (run_prog (with_mode cfg Async) p [] (lift s) [] []) = lift (snd (run_prog (with_mode cfg Sync) p [] s [] [])) /\ count_police (fst (fst (run_prog (with_mode cfg Async) p [] (lift s) [] []))) = count_police (fst (fst (run_prog (with_mode cfg Sync) p [] s [] []))).
Proof. exact prog_sync_async_same_top. Qed.
Check C05_program_sync_async_same :
  forall (cfg : pycfg) (p : list cmd) (s : list tok), forallb plain_tok s = true -> snd (fst (run_prog (with_mode cfg Async) p [] (lift s) [] [])) = map as_async (snd (fst (run_prog (with_mode cfg Sync) p [] s [] []))) /\ snd (run_prog (with_mode cfg Async) p [] (lift s) [] []) = lift (snd (run_prog (with_mode cfg Sync) p [] s [] [])) /\ count_police (fst (fst (run_prog (with_mode cfg Async) p [] (lift s) [] []))) = count_police (fst (fst (run_prog (with_mode cfg Sync) p [] s [] []))).
Print Assumptions C05_program_sync_async_same.

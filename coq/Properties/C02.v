(* C02 - response values reach the caller exactly as the agent encoded them.
   Statements only; proofs in Proofs/HeaderRt.v, IntDecProofs.v, ValueProofs.v, RoundTrip.v.
   [encodes_value x v] (Proofs/ValueProofs.v): x is a legal BER encoding of the SNMP value v - any definite length
   form ([len_octets]: short, or long with redundant leading zero length octets), INTEGER of any 1..8 content octets
   with value [sval], unsigned 32/64-bit types of any content length with value [uval] (leading zero octet allowed),
   octet strings, IpAddress, OID, BOOLEAN, NULL and the three exception values.
   REAL is partial: the model decodes to an exact description (sign, mantissa, power of two / decimal text / special
   value); the final IEEE-754 rounding is not modelled (checked by the correspondence run instead). *)
From GS Require Import Model.Base Gen.Constants Model.Ber Model.Pdu Spec.X690
  Proofs.HeaderRt Proofs.IntDecProofs Proofs.ValueProofs Proofs.RoundTrip.

Theorem C02_value :
  forall (x : bytes) (v : value) (s : list Z), encodes_value x v -> value_from_ber (x ++ s) = Ok (s, v).
Proof. exact value_from_ber_encodes. Qed.

Theorem C02_any_length_form :
  forall (tag : Z) (lo c : bytes) (s : list Z), 0 <= tag < 256 -> Z.land tag 31 <> 31 -> len_octets (len c) lo -> parse_header (tag :: lo ++ c ++ s) = Ok (c ++ s, hdr_of tag (len c)).
Proof. exact parse_header_any_len. Qed.

Theorem C02_integer :
  forall (c : bytes) (s : list Z) (h : hdr), wfb c -> h_length h = len c -> (1 <= length c <= 8)%nat -> decode_int (c ++ s) h = Ok (sval c).
Proof. exact decode_int_sval. Qed.

Theorem C02_integer_any_encoding :
  forall (lo c : bytes) (s : list Z), wfb c -> (1 <= length c <= 8)%nat -> len_octets (len c) lo -> int_from_ber (2 :: lo ++ c ++ s) = Ok (s, sval c).
Proof. exact int_from_ber_any_len. Qed.

Theorem C02_unsigned32 :
  forall (c : bytes) (s : list Z) (h : hdr), wfb c -> h_length h = len c -> uval c < 2 ^ 32 -> decode_u32 (c ++ s) h = Ok (uval c).
Proof. exact decode_u32_uval. Qed.

Theorem C02_unsigned64 :
  forall (c : bytes) (s : list Z) (h : hdr), wfb c -> h_length h = len c -> uval c < 2 ^ 64 -> decode_u64 (c ++ s) h = Ok (uval c).
Proof. exact decode_u64_uval. Qed.

Theorem C02_response_every_position :
  forall (id es ei : Z) (vbs : list (bytes * bytes)) (vars : list varbind), i64 id -> i64 es -> i64 ei -> Forall2 (fun '(name, x) (vb : varbind) => wfb name /\ name <> [] /\ encodes_value x (vb_value vb) /\ vb_oid vb = name) vbs vars -> len (enc_response id es ei vbs) < 65536 -> pdu_decode (enc_response id es ei vbs) = Ok (PGetResponse {| gr_request_id := id; gr_error_status := es; gr_error_index := ei; gr_vars := vars |}).
Proof. exact pdu_decode_enc_response. Qed.

Theorem C02_real_zero_partial :
  forall (s : bytes) (h : hdr), h_length h = 0 -> decode_real s h = Ok RZero.
Proof. exact decode_real_empty. Qed.

Theorem C02_real_plus_inf_partial :
  forall (s : list Z) (h : hdr), h_length h = 1 -> decode_real ([64] ++ s) h = Ok RPlusInf.
Proof. exact decode_real_plus_inf. Qed.

Theorem C02_real_minus_inf_partial :
  forall (s : list Z) (h : hdr), h_length h = 1 -> decode_real ([65] ++ s) h = Ok RMinusInf.
Proof. exact decode_real_minus_inf. Qed.

Theorem C02_real_nan_partial :
  forall (s : list Z) (h : hdr), h_length h = 1 -> decode_real ([66] ++ s) h = Ok RNaN.
Proof. exact decode_real_nan. Qed.

Theorem C02_real_minus_zero_partial :
  forall (s : list Z) (h : hdr), h_length h = 1 -> decode_real ([67] ++ s) h = Ok RMinusZero.
Proof. exact decode_real_minus_zero. Qed.

Theorem C02_real_binary_partial :
  forall (f : Z) (eo mo : bytes) (s : list Z) (h : hdr), 0 <= f < 256 -> testbit f 128 = true -> Z.land f 3 <> 3 -> Z.land f 48 <> 48 -> wfb eo -> len eo = Z.land f 3 + 1 -> wfb mo -> len mo <= 16 -> h_length h = len (f :: eo ++ mo) -> Z.abs (real_base_bits f * sval eo + real_scale f) <= 4000 -> decode_real ((f :: eo ++ mo) ++ s) h = Ok (RBin (testbit f 64) (uval mo) (real_base_bits f * sval eo + real_scale f)).
Proof. exact decode_real_binary_exact. Qed.

Theorem C02_real_binary_long_exponent_partial :
  forall (f : Z) (eo mo : bytes) (s : list Z) (h : hdr), 0 <= f < 256 -> testbit f 128 = true -> Z.land f 3 = 3 -> Z.land f 48 <> 48 -> wfb eo -> 1 <= len eo <= 8 -> wfb mo -> len mo <= 16 -> h_length h = len (f :: len eo :: eo ++ mo) -> decode_real ((f :: len eo :: eo ++ mo) ++ s) h = Ok (real_bin_result f eo mo).
Proof. exact decode_real_binary_long. Qed.

Theorem C02_real_extent_partial :
  forall (c : bytes) (s : list Z) (h : hdr), h_length h = len c -> decode_real (c ++ s) h = decode_real c h.
Proof. exact decode_real_local. Qed.

Check C02_value :
  forall (x : bytes) (v : value) (s : list Z), encodes_value x v -> value_from_ber (x ++ s) = Ok (s, v).
Check C02_any_length_form :
  forall (tag : Z) (lo c : bytes) (s : list Z), 0 <= tag < 256 -> Z.land tag 31 <> 31 -> len_octets (len c) lo -> parse_header (tag :: lo ++ c ++ s) = Ok (c ++ s, hdr_of tag (len c)).
Check C02_integer :
  forall (c : bytes) (s : list Z) (h : hdr), wfb c -> h_length h = len c -> (1 <= length c <= 8)%nat -> decode_int (c ++ s) h = Ok (sval c).
Check C02_integer_any_encoding :
  forall (lo c : bytes) (s : list Z), wfb c -> (1 <= length c <= 8)%nat -> len_octets (len c) lo -> int_from_ber (2 :: lo ++ c ++ s) = Ok (s, sval c).
Check C02_unsigned32 :
  forall (c : bytes) (s : list Z) (h : hdr), wfb c -> h_length h = len c -> uval c < 2 ^ 32 -> decode_u32 (c ++ s) h = Ok (uval c).
Check C02_unsigned64 :
  forall (c : bytes) (s : list Z) (h : hdr), wfb c -> h_length h = len c -> uval c < 2 ^ 64 -> decode_u64 (c ++ s) h = Ok (uval c).
Check C02_response_every_position :
  forall (id es ei : Z) (vbs : list (bytes * bytes)) (vars : list varbind), i64 id -> i64 es -> i64 ei -> Forall2 (fun '(name, x) (vb : varbind) => wfb name /\ name <> [] /\ encodes_value x (vb_value vb) /\ vb_oid vb = name) vbs vars -> len (enc_response id es ei vbs) < 65536 -> pdu_decode (enc_response id es ei vbs) = Ok (PGetResponse {| gr_request_id := id; gr_error_status := es; gr_error_index := ei; gr_vars := vars |}).
Check C02_real_zero_partial :
  forall (s : bytes) (h : hdr), h_length h = 0 -> decode_real s h = Ok RZero.
Check C02_real_plus_inf_partial :
  forall (s : list Z) (h : hdr), h_length h = 1 -> decode_real ([64] ++ s) h = Ok RPlusInf.
Check C02_real_minus_inf_partial :
  forall (s : list Z) (h : hdr), h_length h = 1 -> decode_real ([65] ++ s) h = Ok RMinusInf.
Check C02_real_nan_partial :
  forall (s : list Z) (h : hdr), h_length h = 1 -> decode_real ([66] ++ s) h = Ok RNaN.
Check C02_real_minus_zero_partial :
  forall (s : list Z) (h : hdr), h_length h = 1 -> decode_real ([67] ++ s) h = Ok RMinusZero.
Check C02_real_binary_partial :
  forall (f : Z) (eo mo : bytes) (s : list Z) (h : hdr), 0 <= f < 256 -> testbit f 128 = true -> Z.land f 3 <> 3 -> Z.land f 48 <> 48 -> wfb eo -> len eo = Z.land f 3 + 1 -> wfb mo -> len mo <= 16 -> h_length h = len (f :: eo ++ mo) -> Z.abs (real_base_bits f * sval eo + real_scale f) <= 4000 -> decode_real ((f :: eo ++ mo) ++ s) h = Ok (RBin (testbit f 64) (uval mo) (real_base_bits f * sval eo + real_scale f)).
Check C02_real_binary_long_exponent_partial :
  forall (f : Z) (eo mo : bytes) (s : list Z) (h : hdr), 0 <= f < 256 -> testbit f 128 = true -> Z.land f 3 = 3 -> Z.land f 48 <> 48 -> wfb eo -> 1 <= len eo <= 8 -> wfb mo -> len mo <= 16 -> h_length h = len (f :: len eo :: eo ++ mo) -> decode_real ((f :: len eo :: eo ++ mo) ++ s) h = Ok (real_bin_result f eo mo).
Check C02_real_extent_partial :
  forall (c : bytes) (s : list Z) (h : hdr), h_length h = len c -> decode_real (c ++ s) h = decode_real c h.
Print Assumptions C02_value.
Print Assumptions C02_any_length_form.
Print Assumptions C02_integer.
Print Assumptions C02_integer_any_encoding.
Print Assumptions C02_unsigned32.
Print Assumptions C02_unsigned64.
Print Assumptions C02_response_every_position.
Print Assumptions C02_real_zero_partial.
Print Assumptions C02_real_plus_inf_partial.
Print Assumptions C02_real_minus_inf_partial.
Print Assumptions C02_real_nan_partial.
Print Assumptions C02_real_minus_zero_partial.
Print Assumptions C02_real_binary_partial.
Print Assumptions C02_real_binary_long_exponent_partial.
Print Assumptions C02_real_extent_partial.

(* C15 - everything the library encodes, it decodes back unchanged and minimally.
   Statements only.  Encoders (Model/Buffer.v: push_int, push_oid, push_pdu, push_cmsg, push_v3) emit exactly the
   reference encodings of Spec/X690.v (minimal two's complement INTEGER, minimal definite lengths); the library's
   decoders (Model/Ber.v, Model/Pdu.v) map those encodings back to the original value with nothing left over.
   [emits b s bm]: the octets s are prepended to the buffer when they fit, OutOfBuffer otherwise. *)
From GS Require Import Model.Base Gen.Constants Model.Ber Model.Pdu Model.Buffer Spec.X690
  Proofs.BufferProofs Proofs.IntEncProofs Proofs.EncodeProofs Proofs.HeaderRt Proofs.IntDecProofs Proofs.ValueProofs Proofs.RoundTrip.

Theorem C15_int_encode :
  forall (b : buffer) (v : Z), Inv b -> - 2 ^ 63 <= v < 2 ^ 63 -> push_int b v = emits b (enc_int v) (bookmark b).
Proof. exact push_int_emits. Qed.

Theorem C15_int_minimal :
  forall (v : Z) (bs : bytes), - 2 ^ 63 <= v < 2 ^ 63 -> wfb bs -> bs <> [] -> sval bs = v -> (length (min_twos v) <= length bs)%nat.
Proof. exact Proofs.IntEncProofs.min_twos_minimal. Qed.

Theorem C15_int_value :
  forall v : Z, - 2 ^ 63 <= v < 2 ^ 63 -> sval (min_twos v) = v /\ wfb (min_twos v) /\ (1 <= length (min_twos v) <= 8)%nat.
Proof. exact Proofs.IntEncProofs.min_twos_sval. Qed.

Theorem C15_int_roundtrip :
  forall (v : Z) (s : list Z), - 2 ^ 63 <= v < 2 ^ 63 -> int_from_ber (enc_int v ++ s) = Ok (s, v).
Proof. exact int_from_ber_enc_int. Qed.

Theorem C15_oid_encode :
  forall (b : buffer) (o : bytes), push_oid b o = emits b (enc_oid o) (bookmark b).
Proof. exact push_oid_emits_gen. Qed.

Theorem C15_oid_roundtrip :
  forall (b : bytes) (s : list Z), len b < 65536 -> oid_from_ber (enc_oid b ++ s) = Ok (s, b).
Proof. exact oid_from_ber_enc. Qed.

Theorem C15_null_encode :
  forall b : buffer, push_null b = emits b enc_null (bookmark b).
Proof. exact push_null_emits. Qed.

Theorem C15_null_roundtrip :
  forall s : list Z, null_from_ber (enc_null ++ s) = Ok (s, tt).
Proof. exact null_from_ber_enc. Qed.

Theorem C15_octets_roundtrip :
  forall (b : bytes) (s : list Z), len b < 65536 -> octetstring_from_ber (enc_octets b ++ s) = Ok (s, b).
Proof. exact octetstring_from_ber_enc. Qed.

Theorem C15_pdu_encode :
  forall (b : buffer) (p : pdu) (r : req), Inv b -> req_of_pdu p = Some r -> req_ok r -> push_pdu b p = emits b (enc_req r) (bookmark b).
Proof. exact push_pdu_emits. Qed.

Theorem C15_pdu_roundtrip :
  forall r : req, req_wf r -> pdu_decode (enc_req r) = Ok (pdu_of_req r).
Proof. exact pdu_decode_enc_req. Qed.

Theorem C15_community_encode :
  forall (ver : Z) (b : buffer) (m : cmsg) (r : req), blen b = 0 -> 0 <= ver < 128 -> req_of_pdu (cm_pdu m) = Some r -> req_ok r -> push_cmsg ver b m = emits b (enc_cmsg ver (cm_community m) r) (bookmark b).
Proof. exact push_cmsg_emits. Qed.

Theorem C15_community_roundtrip :
  forall (ver : Z) (c : bytes) (r : req), 0 <= ver < 128 -> wfb c -> req_wf r -> len (enc_cmsg ver c r) < 65536 -> cmsg_decode ver (enc_cmsg ver c r) = Ok {| cm_community := c; cm_pdu := pdu_of_req r |}.
Proof. exact cmsg_decode_enc_cmsg. Qed.

Theorem C15_v3_encode :
  forall (b : buffer) (m : v3msg) (D : bytes), blen b = 0 -> v3_ok m -> msgdata_spec (m_data m) D -> push_v3 b m = emits b (enc_v3_of m D) (v3_bookmark b m D).
Proof. exact push_v3_emits_bm. Qed.

Theorem C15_v3_roundtrip_plain :
  forall (msg_id max_size flags : Z) (u : usm_fields) (ctx : bytes) (r : req), i64 msg_id -> i64 max_size -> i64 (uf_boots u) -> i64 (uf_time u) -> req_ids r -> len (enc_v3 msg_id max_size flags u (enc_scoped ctx r)) < 65536 -> v3_decode (enc_v3 msg_id max_size flags u (enc_scoped ctx r)) = Ok {| m_msg_id := msg_id; m_flag_auth := testbit flags 1; m_flag_priv := testbit flags 2; m_flag_report := testbit flags 4; m_usm := usm_of_fields u; m_data := Plaintext {| s_engine_id := ctx; s_pdu := pdu_of_req r |} |}.
Proof. exact v3_decode_enc_v3_plain. Qed.

Theorem C15_v3_roundtrip_encrypted :
  forall (msg_id max_size flags : Z) (u : usm_fields) (ct : bytes), i64 msg_id -> i64 max_size -> i64 (uf_boots u) -> i64 (uf_time u) -> len (enc_v3 msg_id max_size flags u (enc_octets ct)) < 65536 -> v3_decode (enc_v3 msg_id max_size flags u (enc_octets ct)) = Ok {| m_msg_id := msg_id; m_flag_auth := testbit flags 1; m_flag_priv := testbit flags 2; m_flag_report := testbit flags 4; m_usm := usm_of_fields u; m_data := Encrypted ct |}.
Proof. exact v3_decode_enc_v3_encrypted. Qed.

Theorem C15_usm_roundtrip :
  forall u : usm_fields, i64 (uf_boots u) -> i64 (uf_time u) -> len (enc_usm u) < 65536 -> usm_decode (enc_usm u) = Ok (usm_of_fields u).
Proof. exact usm_decode_enc_usm. Qed.

Theorem C15_scoped_roundtrip :
  forall (ctx : bytes) (r : req), req_wf r -> len (enc_scoped ctx r) < 65536 -> scoped_decode (enc_scoped ctx r) = Ok {| s_engine_id := ctx; s_pdu := pdu_of_req r |}.
Proof. exact scoped_decode_enc_scoped. Qed.

Check C15_int_encode :
  forall (b : buffer) (v : Z), Inv b -> - 2 ^ 63 <= v < 2 ^ 63 -> push_int b v = emits b (enc_int v) (bookmark b).
Check C15_int_minimal :
  forall (v : Z) (bs : bytes), - 2 ^ 63 <= v < 2 ^ 63 -> wfb bs -> bs <> [] -> sval bs = v -> (length (min_twos v) <= length bs)%nat.
Check C15_int_value :
  forall v : Z, - 2 ^ 63 <= v < 2 ^ 63 -> sval (min_twos v) = v /\ wfb (min_twos v) /\ (1 <= length (min_twos v) <= 8)%nat.
Check C15_int_roundtrip :
  forall (v : Z) (s : list Z), - 2 ^ 63 <= v < 2 ^ 63 -> int_from_ber (enc_int v ++ s) = Ok (s, v).
Check C15_oid_encode :
  forall (b : buffer) (o : bytes), push_oid b o = emits b (enc_oid o) (bookmark b).
Check C15_oid_roundtrip :
  forall (b : bytes) (s : list Z), len b < 65536 -> oid_from_ber (enc_oid b ++ s) = Ok (s, b).
Check C15_null_encode :
  forall b : buffer, push_null b = emits b enc_null (bookmark b).
Check C15_null_roundtrip :
  forall s : list Z, null_from_ber (enc_null ++ s) = Ok (s, tt).
Check C15_octets_roundtrip :
  forall (b : bytes) (s : list Z), len b < 65536 -> octetstring_from_ber (enc_octets b ++ s) = Ok (s, b).
Check C15_pdu_encode :
  forall (b : buffer) (p : pdu) (r : req), Inv b -> req_of_pdu p = Some r -> req_ok r -> push_pdu b p = emits b (enc_req r) (bookmark b).
Check C15_pdu_roundtrip :
  forall r : req, req_wf r -> pdu_decode (enc_req r) = Ok (pdu_of_req r).
Check C15_community_encode :
  forall (ver : Z) (b : buffer) (m : cmsg) (r : req), blen b = 0 -> 0 <= ver < 128 -> req_of_pdu (cm_pdu m) = Some r -> req_ok r -> push_cmsg ver b m = emits b (enc_cmsg ver (cm_community m) r) (bookmark b).
Check C15_community_roundtrip :
  forall (ver : Z) (c : bytes) (r : req), 0 <= ver < 128 -> wfb c -> req_wf r -> len (enc_cmsg ver c r) < 65536 -> cmsg_decode ver (enc_cmsg ver c r) = Ok {| cm_community := c; cm_pdu := pdu_of_req r |}.
Check C15_v3_encode :
  forall (b : buffer) (m : v3msg) (D : bytes), blen b = 0 -> v3_ok m -> msgdata_spec (m_data m) D -> push_v3 b m = emits b (enc_v3_of m D) (v3_bookmark b m D).
Check C15_v3_roundtrip_plain :
  forall (msg_id max_size flags : Z) (u : usm_fields) (ctx : bytes) (r : req), i64 msg_id -> i64 max_size -> i64 (uf_boots u) -> i64 (uf_time u) -> req_ids r -> len (enc_v3 msg_id max_size flags u (enc_scoped ctx r)) < 65536 -> v3_decode (enc_v3 msg_id max_size flags u (enc_scoped ctx r)) = Ok {| m_msg_id := msg_id; m_flag_auth := testbit flags 1; m_flag_priv := testbit flags 2; m_flag_report := testbit flags 4; m_usm := usm_of_fields u; m_data := Plaintext {| s_engine_id := ctx; s_pdu := pdu_of_req r |} |}.
Check C15_v3_roundtrip_encrypted :
  forall (msg_id max_size flags : Z) (u : usm_fields) (ct : bytes), i64 msg_id -> i64 max_size -> i64 (uf_boots u) -> i64 (uf_time u) -> len (enc_v3 msg_id max_size flags u (enc_octets ct)) < 65536 -> v3_decode (enc_v3 msg_id max_size flags u (enc_octets ct)) = Ok {| m_msg_id := msg_id; m_flag_auth := testbit flags 1; m_flag_priv := testbit flags 2; m_flag_report := testbit flags 4; m_usm := usm_of_fields u; m_data := Encrypted ct |}.
Check C15_usm_roundtrip :
  forall u : usm_fields, i64 (uf_boots u) -> i64 (uf_time u) -> len (enc_usm u) < 65536 -> usm_decode (enc_usm u) = Ok (usm_of_fields u).
Check C15_scoped_roundtrip :
  forall (ctx : bytes) (r : req), req_wf r -> len (enc_scoped ctx r) < 65536 -> scoped_decode (enc_scoped ctx r) = Ok {| s_engine_id := ctx; s_pdu := pdu_of_req r |}.
Print Assumptions C15_int_encode.
Print Assumptions C15_int_minimal.
Print Assumptions C15_int_value.
Print Assumptions C15_int_roundtrip.
Print Assumptions C15_oid_encode.
Print Assumptions C15_oid_roundtrip.
Print Assumptions C15_null_encode.
Print Assumptions C15_null_roundtrip.
Print Assumptions C15_octets_roundtrip.
Print Assumptions C15_pdu_encode.
Print Assumptions C15_pdu_roundtrip.
Print Assumptions C15_community_encode.
Print Assumptions C15_community_roundtrip.
Print Assumptions C15_v3_encode.
Print Assumptions C15_v3_roundtrip_plain.
Print Assumptions C15_v3_roundtrip_encrypted.
Print Assumptions C15_usm_roundtrip.
Print Assumptions C15_scoped_roundtrip.

(* C19 - the rate limiter never lets the request rate exceed rps.
   Only statements, closed by [exact]; the proofs are in Proofs/PolicerProofs.v,
   the model in Gen/Policer.v (regenerated from policer.py on every run). *)
From Coq Require Import ZArith List.
From GS Require Import Gen.Policer Model.PolicerRun Proofs.PolicerProofs.
Open Scope Z_scope.

(* Non-positive or unrepresentably high rates are refused at construction;
   an accepted policer has a positive interval and no previous request. *)
Theorem C19_ctor :
  (forall q, init true q = None) /\ (forall b, init b 0 = None) /\
  (forall b q st, init b q = Some st -> 0 <= q -> _prev st = None /\ _delta st = q /\ 0 < q).
Proof. exact ctor_refuses. Qed.

(* No request is delayed by more than one interval (and never by a negative time). *)
Theorem C19_delay : forall q st0 t0 gaps,
  init false q = Some st0 -> 0 <= q ->
  Forall (fun s => 0 <= s <= q) (history_sleeps st0 t0 gaps).
Proof. exact delay_bound. Qed.

(* Any two releases i < j of one history are more than (j - i - 1) intervals apart:
   k+1 consecutive releases span more than (k-1) intervals. *)
Theorem C19_window : forall q st0 t0 gaps,
  init false q = Some st0 -> 0 <= q ->
  forall i j ri rj, (i < j)%nat ->
  nth_error (history st0 t0 gaps) i = Some ri ->
  nth_error (history st0 t0 gaps) j = Some rj ->
  rj - ri > (Z.of_nat j - Z.of_nat i - 1) * q.
Proof. exact window_bound. Qed.

Check C19_ctor : (forall q, init true q = None) /\ (forall b, init b 0 = None) /\
  (forall b q st, init b q = Some st -> 0 <= q -> _prev st = None /\ _delta st = q /\ 0 < q).
Check C19_delay : forall q st0 t0 gaps, init false q = Some st0 -> 0 <= q ->
  Forall (fun s => 0 <= s <= q) (history_sleeps st0 t0 gaps).
Check C19_window : forall q st0 t0 gaps, init false q = Some st0 -> 0 <= q ->
  forall i j ri rj, (i < j)%nat ->
  nth_error (history st0 t0 gaps) i = Some ri -> nth_error (history st0 t0 gaps) j = Some rj ->
  rj - ri > (Z.of_nat j - Z.of_nat i - 1) * q.
Print Assumptions C19_ctor.
Print Assumptions C19_delay.
Print Assumptions C19_window.

(* --- through a rate-limited SESSION (Model/PyLayer.v: the Python layer on any script of socket results): the trace of every
   API call is a sequence of requests each released by exactly one consultation of the session's policer (a send repeated
   after a full socket buffer shares it); consultations = requests.  The histories of C19_window are these consultations. *)
From GS Require Import Model.Base Model.Exc Model.Walk Model.PyLayer Proofs.PyLayerProofs.
Theorem C19_session_policed :
  forall (cfg : pycfg) (fuel : nat) (a : api) (script : list tok), pc_policer cfg = true -> well_policed (r_events (run_api cfg fuel a script)).
Proof. exact session_policed. Qed.

Theorem C19_session_policed_count :
  forall (cfg : pycfg) (fuel : nat) (a : api) (script : list tok), pc_policer cfg = true -> exists n : nat, n_requests (r_events (run_api cfg fuel a script)) n /\ count_police (r_events (run_api cfg fuel a script)) = n.
Proof. exact session_policed_count. Qed.

Check C19_session_policed :
  forall (cfg : pycfg) (fuel : nat) (a : api) (script : list tok), pc_policer cfg = true -> well_policed (r_events (run_api cfg fuel a script)).
Check C19_session_policed_count :
  forall (cfg : pycfg) (fuel : nat) (a : api) (script : list tok), pc_policer cfg = true -> exists n : nat, n_requests (r_events (run_api cfg fuel a script)) n /\ count_police (r_events (run_api cfg fuel a script)) = n.
Print Assumptions C19_session_policed.
Print Assumptions C19_session_policed_count.

(* --- and for any PROGRAM on one session: single calls and next() calls on several iterators in any interleaving, iterators
   used again after they raised or abandoned half-way *)
Theorem C19_program_policed :
  forall cfg : pycfg, pc_policer cfg = true -> forall (p : list cmd) (its : list iter_st) (script : list tok) (evs : list ev) (outs : list pyout), well_policed evs -> well_policed (fst (fst (run_prog cfg p its script evs outs))).
Proof. exact prog_policed. Qed.

Check C19_program_policed :
  forall cfg : pycfg, pc_policer cfg = true -> forall (p : list cmd) (its : list iter_st) (script : list tok) (evs : list ev) (outs : list pyout), well_policed evs -> well_policed (fst (fst (run_prog cfg p its script evs outs))).
Print Assumptions C19_program_policed.

(* On the wire: request i leaves at some moment [wi] between its release and the moment the next request is asked for (the
   session consults the policer once per request, before it sends: C19_session_policed), so the datagrams of requests i < j
   are more than (j - i - 2) intervals apart - the long-run rate on the wire never exceeds rps.  Proofs/PolicerWire.v *)
From GS Require Import Proofs.PolicerWire.
Theorem C19_wire_window :
  forall (q : Z) (st0 : pstate) (t0 : Z) (gaps : list Z), init false q = Some st0 -> 0 <= q -> forall (i j : nat) (ri rj gi wi wj : Z), (i < j)%nat -> nth_error (history st0 t0 gaps) i = Some ri -> nth_error (history st0 t0 gaps) j = Some rj -> nth_error gaps i = Some gi -> ri <= wi <= ri + Z.abs gi -> rj <= wj -> wj - wi > (Z.of_nat j - Z.of_nat i - 2) * q.
Proof. exact wire_window. Qed.
Check C19_wire_window :
  forall (q : Z) (st0 : pstate) (t0 : Z) (gaps : list Z), init false q = Some st0 -> 0 <= q -> forall (i j : nat) (ri rj gi wi wj : Z), (i < j)%nat -> nth_error (history st0 t0 gaps) i = Some ri -> nth_error (history st0 t0 gaps) j = Some rj -> nth_error gaps i = Some gi -> ri <= wi <= ri + Z.abs gi -> rj <= wj -> wj - wi > (Z.of_nat j - Z.of_nat i - 2) * q.
Print Assumptions C19_wire_window.

(* C16 - decoding an element reads exactly its declared extent.
   Statements only; proofs in Proofs/HeaderProofs.v, Proofs/DecodeProofs.v, Proofs/MsgDecodeProofs.v over
   Model/Ber.v and Model/Pdu.v (models of src/ber and src/snmp, tied to the code by the decoder correspondences
   of ./check C16 and ./check C01).  [wfb l]: every element of l is an octet (0..255). *)
From GS Require Import Model.Base Model.Ber Model.Pdu Proofs.HeaderProofs Proofs.DecodeProofs Proofs.MsgDecodeProofs.

(* the header does not depend on what follows; a declared length never exceeds the octets available (an element
   running past the enclosing slice is rejected); every header error is Incomplete *)
Theorem C16_header_extent :
  forall (x : bytes) (s : list Z) (c : bytes) (h : hdr), parse_header x = Ok (c, h) -> parse_header (x ++ s) = Ok (c ++ s, h).
Proof. exact parse_header_app. Qed.

Theorem C16_header_fits :
  forall (i c : bytes) (h : hdr), wfb i -> parse_header i = Ok (c, h) -> 0 <= h_length h <= len c /\ wfb c /\ len c + 2 <= len i /\ (exists pre : list Z, i = pre ++ c).
Proof. exact parse_header_fits. Qed.

Theorem C16_header_errors :
  forall (i : bytes) (e : err), parse_header i = Err e -> e = Incomplete.
Proof. exact parse_header_err_incomplete. Qed.

Theorem C16_element_extent :
  forall (A : Type) (tag : Z) (p k : bool) (d : bytes -> hdr -> res A) (x : bytes) (s : list Z) (rest : bytes) (v : A), decodes_locally d -> wfb x -> from_ber tag p k d x = Ok (rest, v) -> from_ber tag p k d (x ++ s) = Ok (rest ++ s, v).
Proof. exact from_ber_app. Qed.

Theorem C16_element_rest :
  forall (A : Type) (tag : Z) (p k : bool) (d : bytes -> hdr -> res A) (x rest : bytes) (v : A), wfb x -> from_ber tag p k d x = Ok (rest, v) -> wfb rest /\ len rest + 2 <= len x /\ (exists used : list Z, x = used ++ rest).
Proof. exact from_ber_rest. Qed.

Theorem C16_value_extent :
  forall (x : bytes) (s : list Z) (rest : bytes) (v : value), wfb x -> value_from_ber x = Ok (rest, v) -> value_from_ber (x ++ s) = Ok (rest ++ s, v).
Proof. exact value_from_ber_app. Qed.

Theorem C16_value_rest :
  forall (x rest : bytes) (v : value), wfb x -> value_from_ber x = Ok (rest, v) -> wfb rest /\ len rest + 2 <= len x /\ (exists used : list Z, x = used ++ rest).
Proof. exact value_from_ber_rest. Qed.

Theorem C16_pdu_element_extent :
  forall (x : bytes) (s : list Z) (rest : bytes) (v : Z * bytes), wfb x -> option_from_ber x = Ok (rest, v) -> option_from_ber (x ++ s) = Ok (rest ++ s, v).
Proof. exact option_from_ber_app. Qed.

Theorem C16_int_local :
  decodes_locally decode_int.
Proof. exact decode_int_local. Qed.

Theorem C16_real_local :
  decodes_locally decode_real.
Proof. exact decode_real_local. Qed.

Theorem C16_slice_local :
  decodes_locally decode_slice.
Proof. exact decode_slice_local. Qed.

Theorem C16_u32_local :
  decodes_locally decode_u32.
Proof. exact decode_u32_local. Qed.

Theorem C16_u64_local :
  decodes_locally decode_u64.
Proof. exact decode_u64_local. Qed.

Theorem C16_bool_local :
  decodes_locally decode_bool.
Proof. exact decode_bool_local. Qed.

Theorem C16_ip_local :
  decodes_locally decode_ip.
Proof. exact decode_ip_local. Qed.

Theorem C16_null_local :
  decodes_locally decode_null.
Proof. exact decode_null_local. Qed.

Theorem C16_trailing_community :
  forall (ver : Z) (x : bytes) (s : list Z) (m : cmsg), wfb x -> cmsg_decode ver x = Ok m -> s <> [] -> wfb s -> cmsg_decode ver (x ++ s) = Err TrailingData.
Proof. exact cmsg_decode_trailing. Qed.

Theorem C16_trailing_v3 :
  forall (x : bytes) (s : list Z) (m : v3msg), wfb x -> v3_decode x = Ok m -> s <> [] -> wfb s -> v3_decode (x ++ s) = Err TrailingData.
Proof. exact v3_decode_trailing. Qed.

Theorem C16_trailing_usm :
  forall (x : bytes) (s : list Z) (m : usm), wfb x -> usm_decode x = Ok m -> s <> [] -> wfb s -> usm_decode (x ++ s) = Err TrailingData.
Proof. exact usm_decode_trailing. Qed.

Theorem C16_trailing_getresponse :
  forall (x : bytes) (s : list Z) (r : getresponse), getresponse_decode x = Ok r -> s <> [] -> getresponse_decode (x ++ s) = Err TrailingData.
Proof. exact getresponse_decode_trailing. Qed.

Theorem C16_trailing_get :
  forall (x : bytes) (s : list Z) (r : getreq), get_decode x = Ok r -> s <> [] -> get_decode (x ++ s) = Err TrailingData.
Proof. exact get_decode_trailing. Qed.

Theorem C16_trailing_getbulk :
  forall (x : bytes) (s : list Z) (r : getbulk), getbulk_decode x = Ok r -> s <> [] -> getbulk_decode (x ++ s) = Err TrailingData.
Proof. exact getbulk_decode_trailing. Qed.

Check C16_header_extent :
  forall (x : bytes) (s : list Z) (c : bytes) (h : hdr), parse_header x = Ok (c, h) -> parse_header (x ++ s) = Ok (c ++ s, h).
Check C16_header_fits :
  forall (i c : bytes) (h : hdr), wfb i -> parse_header i = Ok (c, h) -> 0 <= h_length h <= len c /\ wfb c /\ len c + 2 <= len i /\ (exists pre : list Z, i = pre ++ c).
Check C16_header_errors :
  forall (i : bytes) (e : err), parse_header i = Err e -> e = Incomplete.
Check C16_element_extent :
  forall (A : Type) (tag : Z) (p k : bool) (d : bytes -> hdr -> res A) (x : bytes) (s : list Z) (rest : bytes) (v : A), decodes_locally d -> wfb x -> from_ber tag p k d x = Ok (rest, v) -> from_ber tag p k d (x ++ s) = Ok (rest ++ s, v).
Check C16_element_rest :
  forall (A : Type) (tag : Z) (p k : bool) (d : bytes -> hdr -> res A) (x rest : bytes) (v : A), wfb x -> from_ber tag p k d x = Ok (rest, v) -> wfb rest /\ len rest + 2 <= len x /\ (exists used : list Z, x = used ++ rest).
Check C16_value_extent :
  forall (x : bytes) (s : list Z) (rest : bytes) (v : value), wfb x -> value_from_ber x = Ok (rest, v) -> value_from_ber (x ++ s) = Ok (rest ++ s, v).
Check C16_value_rest :
  forall (x rest : bytes) (v : value), wfb x -> value_from_ber x = Ok (rest, v) -> wfb rest /\ len rest + 2 <= len x /\ (exists used : list Z, x = used ++ rest).
Check C16_pdu_element_extent :
  forall (x : bytes) (s : list Z) (rest : bytes) (v : Z * bytes), wfb x -> option_from_ber x = Ok (rest, v) -> option_from_ber (x ++ s) = Ok (rest ++ s, v).
Check C16_int_local :
  decodes_locally decode_int.
Check C16_real_local :
  decodes_locally decode_real.
Check C16_slice_local :
  decodes_locally decode_slice.
Check C16_u32_local :
  decodes_locally decode_u32.
Check C16_u64_local :
  decodes_locally decode_u64.
Check C16_bool_local :
  decodes_locally decode_bool.
Check C16_ip_local :
  decodes_locally decode_ip.
Check C16_null_local :
  decodes_locally decode_null.
Check C16_trailing_community :
  forall (ver : Z) (x : bytes) (s : list Z) (m : cmsg), wfb x -> cmsg_decode ver x = Ok m -> s <> [] -> wfb s -> cmsg_decode ver (x ++ s) = Err TrailingData.
Check C16_trailing_v3 :
  forall (x : bytes) (s : list Z) (m : v3msg), wfb x -> v3_decode x = Ok m -> s <> [] -> wfb s -> v3_decode (x ++ s) = Err TrailingData.
Check C16_trailing_usm :
  forall (x : bytes) (s : list Z) (m : usm), wfb x -> usm_decode x = Ok m -> s <> [] -> wfb s -> usm_decode (x ++ s) = Err TrailingData.
Check C16_trailing_getresponse :
  forall (x : bytes) (s : list Z) (r : getresponse), getresponse_decode x = Ok r -> s <> [] -> getresponse_decode (x ++ s) = Err TrailingData.
Check C16_trailing_get :
  forall (x : bytes) (s : list Z) (r : getreq), get_decode x = Ok r -> s <> [] -> get_decode (x ++ s) = Err TrailingData.
Check C16_trailing_getbulk :
  forall (x : bytes) (s : list Z) (r : getbulk), getbulk_decode x = Ok r -> s <> [] -> getbulk_decode (x ++ s) = Err TrailingData.
Print Assumptions C16_header_extent.
Print Assumptions C16_header_fits.
Print Assumptions C16_header_errors.
Print Assumptions C16_element_extent.
Print Assumptions C16_element_rest.
Print Assumptions C16_value_extent.
Print Assumptions C16_value_rest.
Print Assumptions C16_pdu_element_extent.
Print Assumptions C16_int_local.
Print Assumptions C16_real_local.
Print Assumptions C16_slice_local.
Print Assumptions C16_u32_local.
Print Assumptions C16_u64_local.
Print Assumptions C16_bool_local.
Print Assumptions C16_ip_local.
Print Assumptions C16_null_local.
Print Assumptions C16_trailing_community.
Print Assumptions C16_trailing_v3.
Print Assumptions C16_trailing_usm.
Print Assumptions C16_trailing_getresponse.
Print Assumptions C16_trailing_get.
Print Assumptions C16_trailing_getbulk.

(* C11 - encrypted payloads are exactly the scoped PDU under RFC 3414 / RFC 3826.
   Statements only; proofs in Proofs/PrivProofs.v (message level), Proofs/ModesProofs.v (CBC / CFB inverse laws for
   any block cipher), Proofs/DESInverse.v (the Gallina DES: decrypt after encrypt is the identity on octet blocks,
   Feistel argument + FP after IP = id), Proofs/CipherRoundTrips.v.  The ciphers are the executable Gallina DES and
   AES-128 of Model/Crypto (validated on FIPS 46-3 / FIPS 197 / SP 800-38A vectors inside Coq and, octet for octet,
   against the des / aes / cbc / cfb-mode crates on every run).  [installed k]: a key state as priv_as_localized
   leaves it; [des_iv] / [aes_iv] / [des_salt]: Spec/Rfc3414.v; [enc_scoped]: Spec/X690.v. *)
From GS Require Import Model.Base Gen.Constants Model.Ber Model.Pdu Model.Buffer Model.Priv Model.V3 Spec.X690 Spec.Rfc3414
  Proofs.EncodeProofs Proofs.ModesProofs Proofs.DESInverse Proofs.CipherRoundTrips Proofs.PrivLemmas Proofs.PrivProofs Proofs.SaltProofs.
From GS Require Model.Crypto.DES Model.Crypto.AES Model.Crypto.Modes.

Theorem C11_des_message :
  forall (k : priv_key) (s : scoped) (r : req) (boots time : Z) (k' : priv_key) (ct pp : bytes), installed k -> pk_alg k = PDes -> req_of_pdu (s_pdu s) = Some r -> req_ok r -> wfb (s_engine_id s) -> Forall wfb (RoundTrip.req_oids r) -> priv_encrypt k s boots time = (k', Ok (ct, pp)) -> let e := enc_scoped (s_engine_id s) r in let p := pad_len 8 (len e) in pp = des_salt (wrap32 boots) (pk_salt k) /\ len pp = 8 /\ k' = {| pk_alg := PDes; pk_key := pk_key k; pk_pre_iv := pk_pre_iv k; pk_salt := wrap32 (pk_salt k + 1) |} /\ 0 <= p < 8 /\ (len e + p) mod 8 = 0 /\ len ct = len e + p /\ Modes.cbc_decrypt (DES.des_decrypt_block (pk_key k)) 8 (des_iv (pk_key k ++ pk_pre_iv k) pp) ct = e ++ zeros (Z.to_nat p).
Proof. exact des_encrypt_spec. Qed.

Theorem C11_aes_message :
  forall (k : priv_key) (s : scoped) (r : req) (boots time : Z) (k' : priv_key) (ct pp : bytes), installed k -> pk_alg k = PAes -> req_of_pdu (s_pdu s) = Some r -> req_ok r -> priv_encrypt k s boots time = (k', Ok (ct, pp)) -> let e := enc_scoped (s_engine_id s) r in let p := pad_len 16 (len e) in pp = be64_spec (pk_salt k) /\ len pp = 8 /\ k' = {| pk_alg := PAes; pk_key := pk_key k; pk_pre_iv := pk_pre_iv k; pk_salt := wrap64 (pk_salt k + 1) |} /\ 0 <= p < 16 /\ (len e + p) mod 16 = 0 /\ len ct = len e + p /\ Modes.cfb_decrypt (AES.aes128_encrypt_block (pk_key k)) 16 (aes_iv (wrap32 boots) (wrap32 time) pp) ct = e ++ zeros (Z.to_nat p).
Proof. exact aes_encrypt_spec. Qed.

Theorem C11_plaintext_is_padded_scoped_pdu :
  forall (block : Z) (s : scoped) (r : req), req_of_pdu (s_pdu s) = Some r -> req_ok r -> block = 8 \/ block = 16 -> len (enc_scoped (s_engine_id s) r) + block <= BUF_MAX_SIZE -> padded_plaintext block s = Ok (enc_scoped (s_engine_id s) r ++ zeros (Z.to_nat (pad_len block (len (enc_scoped (s_engine_id s) r))))).
Proof. exact padded_plaintext_spec. Qed.

Theorem C11_history_independent :
  forall (k1 k2 : priv_key) (s : scoped) (boots time : Z), pk_alg k1 = pk_alg k2 -> pk_key k1 = pk_key k2 -> pk_pre_iv k1 = pk_pre_iv k2 -> pk_salt k1 = pk_salt k2 -> priv_encrypt k1 s boots time = priv_encrypt k2 s boots time.
Proof. exact priv_encrypt_deterministic. Qed.

Theorem C11_des_decrypt_exact :
  forall (k : priv_key) (u : usm) (pt : bytes), installed k -> pk_alg k = PDes -> len (u_privacy_params u) = 8 -> wfb (u_privacy_params u) -> wfb pt -> len pt mod 8 = 0 -> len pt <= BUF_MAX_SIZE -> priv_decrypt_bytes k (Modes.cbc_encrypt (DES.des_encrypt_block (pk_key k)) 8 (des_iv (pk_key k ++ pk_pre_iv k) (u_privacy_params u)) pt) u = Ok pt.
Proof. exact des_decrypt_exact. Qed.

Theorem C11_aes_decrypt_exact :
  forall (k : priv_key) (u : usm) (pt : bytes), installed k -> pk_alg k = PAes -> len (u_privacy_params u) = 8 -> len pt <= BUF_MAX_SIZE -> priv_decrypt_bytes k (Modes.cfb_encrypt (AES.aes128_encrypt_block (pk_key k)) 16 (aes_iv (u_engine_boots u) (u_engine_time u) (u_privacy_params u)) pt) u = Ok pt.
Proof. exact aes_decrypt_exact_rfc. Qed.

Theorem C11_des_round_trip :
  forall (k : priv_key) (s : scoped) (r : req) (boots time : Z) (k' : priv_key) (ct pp : bytes) (u : usm), installed k -> pk_alg k = PDes -> req_of_pdu (s_pdu s) = Some r -> req_ok r -> wfb (s_engine_id s) -> Forall wfb (RoundTrip.req_oids r) -> priv_encrypt k s boots time = (k', Ok (ct, pp)) -> u_privacy_params u = pp -> priv_decrypt k' ct u = Ok {| s_engine_id := s_engine_id s; s_pdu := s_pdu s |}.
Proof. exact des_decrypt_encrypt_msg. Qed.

Theorem C11_aes_round_trip :
  forall (k : priv_key) (s : scoped) (r : req) (boots time : Z) (k' : priv_key) (ct pp : bytes) (u : usm), installed k -> pk_alg k = PAes -> req_of_pdu (s_pdu s) = Some r -> req_ok r -> priv_encrypt k s boots time = (k', Ok (ct, pp)) -> u_privacy_params u = pp -> wrap32 (u_engine_boots u) = wrap32 boots -> wrap32 (u_engine_time u) = wrap32 time -> priv_decrypt k' ct u = Ok {| s_engine_id := s_engine_id s; s_pdu := s_pdu s |}.
Proof. exact aes_decrypt_encrypt_msg. Qed.

Theorem C11_decrypt_total :
  forall (k : priv_key) (ct : bytes) (u : usm), wfb ct -> wfb (u_privacy_params u) -> installed k -> priv_decrypt k ct u <> Panic.
Proof. exact priv_decrypt_no_panic. Qed.

Theorem C11_des_block_inverse :
  forall k b : list Z, length k = 8%nat -> length b = 8%nat -> Forall (fun x : Z => 0 <= x < 256) b -> DES.des_decrypt_block k (DES.des_encrypt_block k b) = b.
Proof. exact des_decrypt_encrypt_block. Qed.

Theorem C11_cbc_inverse :
  forall (E D : list Z -> list Z) (bs : nat), (bs > 0)%nat -> (forall b : list Z, length b = bs -> length (E b) = bs) -> (forall b : list Z, length b = bs -> D (E b) = b) -> forall iv pt : list Z, length iv = bs -> (length pt mod bs)%nat = 0%nat -> Modes.cbc_decrypt D bs iv (Modes.cbc_encrypt E bs iv pt) = pt.
Proof. exact cbc_decrypt_encrypt. Qed.

Theorem C11_cfb_inverse :
  forall (E : list Z -> list Z) (bs : nat), (bs > 0)%nat -> (forall b : list Z, length b = bs -> length (E b) = bs) -> forall iv pt : list Z, length iv = bs -> Modes.cfb_decrypt E bs iv (Modes.cfb_encrypt E bs iv pt) = pt.
Proof. exact cfb_decrypt_encrypt. Qed.

Theorem C11_key_installation :
  forall (k : priv_key) (key : bytes) (seed : Z) (k' : priv_key), wfb key -> 16 <= len key -> priv_as_localized k key seed = Ok k' -> installed k' /\ pk_alg k' = pk_alg k.
Proof. exact priv_as_localized_installed. Qed.

Check C11_des_message :
  forall (k : priv_key) (s : scoped) (r : req) (boots time : Z) (k' : priv_key) (ct pp : bytes), installed k -> pk_alg k = PDes -> req_of_pdu (s_pdu s) = Some r -> req_ok r -> wfb (s_engine_id s) -> Forall wfb (RoundTrip.req_oids r) -> priv_encrypt k s boots time = (k', Ok (ct, pp)) -> let e := enc_scoped (s_engine_id s) r in let p := pad_len 8 (len e) in pp = des_salt (wrap32 boots) (pk_salt k) /\ len pp = 8 /\ k' = {| pk_alg := PDes; pk_key := pk_key k; pk_pre_iv := pk_pre_iv k; pk_salt := wrap32 (pk_salt k + 1) |} /\ 0 <= p < 8 /\ (len e + p) mod 8 = 0 /\ len ct = len e + p /\ Modes.cbc_decrypt (DES.des_decrypt_block (pk_key k)) 8 (des_iv (pk_key k ++ pk_pre_iv k) pp) ct = e ++ zeros (Z.to_nat p).
Check C11_aes_message :
  forall (k : priv_key) (s : scoped) (r : req) (boots time : Z) (k' : priv_key) (ct pp : bytes), installed k -> pk_alg k = PAes -> req_of_pdu (s_pdu s) = Some r -> req_ok r -> priv_encrypt k s boots time = (k', Ok (ct, pp)) -> let e := enc_scoped (s_engine_id s) r in let p := pad_len 16 (len e) in pp = be64_spec (pk_salt k) /\ len pp = 8 /\ k' = {| pk_alg := PAes; pk_key := pk_key k; pk_pre_iv := pk_pre_iv k; pk_salt := wrap64 (pk_salt k + 1) |} /\ 0 <= p < 16 /\ (len e + p) mod 16 = 0 /\ len ct = len e + p /\ Modes.cfb_decrypt (AES.aes128_encrypt_block (pk_key k)) 16 (aes_iv (wrap32 boots) (wrap32 time) pp) ct = e ++ zeros (Z.to_nat p).
Check C11_plaintext_is_padded_scoped_pdu :
  forall (block : Z) (s : scoped) (r : req), req_of_pdu (s_pdu s) = Some r -> req_ok r -> block = 8 \/ block = 16 -> len (enc_scoped (s_engine_id s) r) + block <= BUF_MAX_SIZE -> padded_plaintext block s = Ok (enc_scoped (s_engine_id s) r ++ zeros (Z.to_nat (pad_len block (len (enc_scoped (s_engine_id s) r))))).
Check C11_history_independent :
  forall (k1 k2 : priv_key) (s : scoped) (boots time : Z), pk_alg k1 = pk_alg k2 -> pk_key k1 = pk_key k2 -> pk_pre_iv k1 = pk_pre_iv k2 -> pk_salt k1 = pk_salt k2 -> priv_encrypt k1 s boots time = priv_encrypt k2 s boots time.
Check C11_des_decrypt_exact :
  forall (k : priv_key) (u : usm) (pt : bytes), installed k -> pk_alg k = PDes -> len (u_privacy_params u) = 8 -> wfb (u_privacy_params u) -> wfb pt -> len pt mod 8 = 0 -> len pt <= BUF_MAX_SIZE -> priv_decrypt_bytes k (Modes.cbc_encrypt (DES.des_encrypt_block (pk_key k)) 8 (des_iv (pk_key k ++ pk_pre_iv k) (u_privacy_params u)) pt) u = Ok pt.
Check C11_aes_decrypt_exact :
  forall (k : priv_key) (u : usm) (pt : bytes), installed k -> pk_alg k = PAes -> len (u_privacy_params u) = 8 -> len pt <= BUF_MAX_SIZE -> priv_decrypt_bytes k (Modes.cfb_encrypt (AES.aes128_encrypt_block (pk_key k)) 16 (aes_iv (u_engine_boots u) (u_engine_time u) (u_privacy_params u)) pt) u = Ok pt.
Check C11_des_round_trip :
  forall (k : priv_key) (s : scoped) (r : req) (boots time : Z) (k' : priv_key) (ct pp : bytes) (u : usm), installed k -> pk_alg k = PDes -> req_of_pdu (s_pdu s) = Some r -> req_ok r -> wfb (s_engine_id s) -> Forall wfb (RoundTrip.req_oids r) -> priv_encrypt k s boots time = (k', Ok (ct, pp)) -> u_privacy_params u = pp -> priv_decrypt k' ct u = Ok {| s_engine_id := s_engine_id s; s_pdu := s_pdu s |}.
Check C11_aes_round_trip :
  forall (k : priv_key) (s : scoped) (r : req) (boots time : Z) (k' : priv_key) (ct pp : bytes) (u : usm), installed k -> pk_alg k = PAes -> req_of_pdu (s_pdu s) = Some r -> req_ok r -> priv_encrypt k s boots time = (k', Ok (ct, pp)) -> u_privacy_params u = pp -> wrap32 (u_engine_boots u) = wrap32 boots -> wrap32 (u_engine_time u) = wrap32 time -> priv_decrypt k' ct u = Ok {| s_engine_id := s_engine_id s; s_pdu := s_pdu s |}.
Check C11_decrypt_total :
  forall (k : priv_key) (ct : bytes) (u : usm), wfb ct -> wfb (u_privacy_params u) -> installed k -> priv_decrypt k ct u <> Panic.
Check C11_des_block_inverse :
  forall k b : list Z, length k = 8%nat -> length b = 8%nat -> Forall (fun x : Z => 0 <= x < 256) b -> DES.des_decrypt_block k (DES.des_encrypt_block k b) = b.
Check C11_cbc_inverse :
  forall (E D : list Z -> list Z) (bs : nat), (bs > 0)%nat -> (forall b : list Z, length b = bs -> length (E b) = bs) -> (forall b : list Z, length b = bs -> D (E b) = b) -> forall iv pt : list Z, length iv = bs -> (length pt mod bs)%nat = 0%nat -> Modes.cbc_decrypt D bs iv (Modes.cbc_encrypt E bs iv pt) = pt.
Check C11_cfb_inverse :
  forall (E : list Z -> list Z) (bs : nat), (bs > 0)%nat -> (forall b : list Z, length b = bs -> length (E b) = bs) -> forall iv pt : list Z, length iv = bs -> Modes.cfb_decrypt E bs iv (Modes.cfb_encrypt E bs iv pt) = pt.
Check C11_key_installation :
  forall (k : priv_key) (key : bytes) (seed : Z) (k' : priv_key), wfb key -> 16 <= len key -> priv_as_localized k key seed = Ok k' -> installed k' /\ pk_alg k' = pk_alg k.
Print Assumptions C11_des_message.
Print Assumptions C11_aes_message.
Print Assumptions C11_plaintext_is_padded_scoped_pdu.
Print Assumptions C11_history_independent.
Print Assumptions C11_des_decrypt_exact.
Print Assumptions C11_aes_decrypt_exact.
Print Assumptions C11_des_round_trip.
Print Assumptions C11_aes_round_trip.
Print Assumptions C11_decrypt_total.
Print Assumptions C11_des_block_inverse.
Print Assumptions C11_cbc_inverse.
Print Assumptions C11_cfb_inverse.
Print Assumptions C11_key_installation.

(* a key change that the socket refuses leaves the installed cipher, its salt counter and the digest key as they were (only
   the user name is replaced): the messages after it are encrypted as the theorems above say, under the key installed before *)
From GS Require Import Model.Auth Proofs.V3StateProofs.
Theorem C11_refused_key_change :
  forall (s : v3sock) (user : bytes) (aalg : Z) (akey : bytes) (palg : Z) (pkey : bytes) (seed : Z) (s' : v3sock) (e : err), v3_set_keys_st s user aalg akey palg pkey seed = (s', Err e) -> install_keys aalg akey palg pkey (engine_id s) seed = Err e /\ privk s' = privk s /\ auth s' = auth s /\ user_name s' = user /\ engine_id s' = engine_id s /\ engine_boots s' = engine_boots s /\ engine_time s' = engine_time s /\ msg_id s' = msg_id s /\ request_id s' = request_id s.
Proof. exact set_keys_st_refused. Qed.
Check C11_refused_key_change :
  forall (s : v3sock) (user : bytes) (aalg : Z) (akey : bytes) (palg : Z) (pkey : bytes) (seed : Z) (s' : v3sock) (e : err), v3_set_keys_st s user aalg akey palg pkey seed = (s', Err e) -> install_keys aalg akey palg pkey (engine_id s) seed = Err e /\ privk s' = privk s /\ auth s' = auth s /\ user_name s' = user /\ engine_id s' = engine_id s /\ engine_boots s' = engine_boots s /\ engine_time s' = engine_time s /\ msg_id s' = msg_id s /\ request_id s' = request_id s.
Print Assumptions C11_refused_key_change.

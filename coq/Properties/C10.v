(* C10 - unauthenticated or forged v3 replies are never accepted.  KNOWN FINDING: at the pinned commit (and now)
   src/socket/v3.rs::unwrap_pdu examines neither the auth flag nor msgAuthenticationParameters nor the security
   level; the full statement "delivered -> authenticated or Report" is FALSE of the faithful model and of the code.
   This file states (1) the complete acceptance condition of the code (C10_accept_char), (2) the refutation with
   concrete witnesses evaluated by vm_compute (C10_refuted), and (3) what IS enforced (C10_modulo_known): a reply
   with a wrong user name, engine id, message id or request-id is never delivered, only a Report bypasses the
   request-id test, and encrypted data must decrypt under the session's privacy key.
   The finding is listed in /verif/known_findings.json by forgery class. *)
From GS Require Import Model.Base Gen.Constants Model.Ber Model.Pdu Model.Exc Gen.ErrorMap Model.Ops Model.Auth Model.Priv Model.V3
  Proofs.V3StateProofs.

Theorem C10_accept_char :
  forall (s : v3sock) (m : v3msg) (p : pdu), snd (v3_unwrap s m) = Some p <-> (exists sc : scoped, accepts s m sc /\ p = s_pdu sc).
Proof. exact v3_unwrap_accept_char. Qed.

Theorem C10_refuted :
  (exists (s : v3sock) (m : v3msg) (r : getresponse), has_auth (ak_alg (auth s)) = true /\ m_flag_auth m = false /\ u_auth_params (m_usm m) = [] /\ snd (v3_unwrap s m) = Some (PGetResponse r)) /\ (exists (s : v3sock) (m : v3msg) (r : getresponse), has_auth (ak_alg (auth s)) = true /\ m_flag_auth m = true /\ u_auth_params (m_usm m) = [0; 0; 0; 0; 0; 0; 0; 0; 0; 0; 0; 0] /\ snd (v3_unwrap s m) = Some (PGetResponse r)).
Proof. exact Proofs.V3StateProofs.C10_refuted. Qed.

Theorem C10_ignores_auth :
  forall (s : v3sock) (m : v3msg) (fa fp fr : bool) (ap : bytes) (sc : scoped), m_data m = Plaintext sc -> snd (v3_unwrap s {| m_msg_id := m_msg_id m; m_flag_auth := fa; m_flag_priv := fp; m_flag_report := fr; m_usm := {| u_engine_id := u_engine_id (m_usm m); u_engine_boots := u_engine_boots (m_usm m); u_engine_time := u_engine_time (m_usm m); u_user_name := u_user_name (m_usm m); u_auth_params := ap; u_privacy_params := u_privacy_params (m_usm m) |}; m_data := m_data m |}) = snd (v3_unwrap s m).
Proof. exact v3_unwrap_ignores_auth. Qed.

Theorem C10_modulo_known :
  forall (s : v3sock) (m : v3msg) (p : pdu), snd (v3_unwrap s m) = Some p -> all_eqb (user_name s) (u_user_name (m_usm m)) = true /\ (len (engine_id s) = 0 \/ all_eqb (u_engine_id (m_usm m)) (engine_id s) = true) /\ msg_id s = m_msg_id m /\ (pdu_request_id p = Some (request_id s) \/ (exists raw : bytes, p = PReport raw)) /\ (forall ct : bytes, m_data m = Encrypted ct -> exists sc : scoped, priv_decrypt (privk s) ct (m_usm m) = Ok sc /\ p = s_pdu sc) /\ (forall sc : scoped, m_data m = Plaintext sc -> p = s_pdu sc).
Proof. exact Proofs.V3StateProofs.C10_modulo_known. Qed.

Theorem C10_never_wrong_request :
  forall (s : v3sock) (ds : list bytes) (s' : v3sock) (r : getresponse) (rest : list bytes), v3_recv_loop s ds = (s', Delivered (PGetResponse r) rest) -> gr_request_id r = request_id s.
Proof. exact v3_never_wrong_request_loop. Qed.

Theorem C10_skip_keeps_state :
  forall (s : v3sock) (m : v3msg) (s' : v3sock), v3_unwrap s m = (s', None) -> s' = s.
Proof. exact v3_unwrap_none_keeps_state. Qed.

Theorem C10_loop_delivered :
  forall (s : v3sock) (ds : list bytes) (s' : v3sock) (p : pdu) (rest : list bytes), v3_recv_loop s ds = (s', Delivered p rest) -> exists (pre : list bytes) (d : bytes) (m : v3msg), ds = pre ++ d :: rest /\ Forall (v3_skips s) pre /\ v3_decode d = Ok m /\ v3_unwrap_panics s m = false /\ v3_unwrap s m = (s', Some p).
Proof. exact v3_recv_loop_delivered. Qed.

Theorem C10_loop_skips :
  forall (s : v3sock) (pre ds : list bytes), Forall (v3_skips s) pre -> v3_recv_loop s (pre ++ ds) = v3_recv_loop s ds.
Proof. exact v3_recv_loop_skips. Qed.

Theorem C10_loop_timeout :
  forall (s : v3sock) (ds : list bytes), snd (v3_recv_loop s ds) = TimedOut <-> Forall (v3_skips s) ds.
Proof. exact v3_recv_loop_timeout. Qed.

Theorem C10_loop_decode_error :
  forall (s : v3sock) (ds : list bytes) (s' : v3sock) (e : exc) (rest : list bytes), v3_recv_loop s ds = (s', Failed e rest) -> e = EDecode.
Proof. exact v3_recv_loop_failed_decode. Qed.

Check C10_accept_char :
  forall (s : v3sock) (m : v3msg) (p : pdu), snd (v3_unwrap s m) = Some p <-> (exists sc : scoped, accepts s m sc /\ p = s_pdu sc).
Check C10_refuted :
  (exists (s : v3sock) (m : v3msg) (r : getresponse), has_auth (ak_alg (auth s)) = true /\ m_flag_auth m = false /\ u_auth_params (m_usm m) = [] /\ snd (v3_unwrap s m) = Some (PGetResponse r)) /\ (exists (s : v3sock) (m : v3msg) (r : getresponse), has_auth (ak_alg (auth s)) = true /\ m_flag_auth m = true /\ u_auth_params (m_usm m) = [0; 0; 0; 0; 0; 0; 0; 0; 0; 0; 0; 0] /\ snd (v3_unwrap s m) = Some (PGetResponse r)).
Check C10_ignores_auth :
  forall (s : v3sock) (m : v3msg) (fa fp fr : bool) (ap : bytes) (sc : scoped), m_data m = Plaintext sc -> snd (v3_unwrap s {| m_msg_id := m_msg_id m; m_flag_auth := fa; m_flag_priv := fp; m_flag_report := fr; m_usm := {| u_engine_id := u_engine_id (m_usm m); u_engine_boots := u_engine_boots (m_usm m); u_engine_time := u_engine_time (m_usm m); u_user_name := u_user_name (m_usm m); u_auth_params := ap; u_privacy_params := u_privacy_params (m_usm m) |}; m_data := m_data m |}) = snd (v3_unwrap s m).
Check C10_modulo_known :
  forall (s : v3sock) (m : v3msg) (p : pdu), snd (v3_unwrap s m) = Some p -> all_eqb (user_name s) (u_user_name (m_usm m)) = true /\ (len (engine_id s) = 0 \/ all_eqb (u_engine_id (m_usm m)) (engine_id s) = true) /\ msg_id s = m_msg_id m /\ (pdu_request_id p = Some (request_id s) \/ (exists raw : bytes, p = PReport raw)) /\ (forall ct : bytes, m_data m = Encrypted ct -> exists sc : scoped, priv_decrypt (privk s) ct (m_usm m) = Ok sc /\ p = s_pdu sc) /\ (forall sc : scoped, m_data m = Plaintext sc -> p = s_pdu sc).
Check C10_never_wrong_request :
  forall (s : v3sock) (ds : list bytes) (s' : v3sock) (r : getresponse) (rest : list bytes), v3_recv_loop s ds = (s', Delivered (PGetResponse r) rest) -> gr_request_id r = request_id s.
Check C10_skip_keeps_state :
  forall (s : v3sock) (m : v3msg) (s' : v3sock), v3_unwrap s m = (s', None) -> s' = s.
Check C10_loop_delivered :
  forall (s : v3sock) (ds : list bytes) (s' : v3sock) (p : pdu) (rest : list bytes), v3_recv_loop s ds = (s', Delivered p rest) -> exists (pre : list bytes) (d : bytes) (m : v3msg), ds = pre ++ d :: rest /\ Forall (v3_skips s) pre /\ v3_decode d = Ok m /\ v3_unwrap_panics s m = false /\ v3_unwrap s m = (s', Some p).
Check C10_loop_skips :
  forall (s : v3sock) (pre ds : list bytes), Forall (v3_skips s) pre -> v3_recv_loop s (pre ++ ds) = v3_recv_loop s ds.
Check C10_loop_timeout :
  forall (s : v3sock) (ds : list bytes), snd (v3_recv_loop s ds) = TimedOut <-> Forall (v3_skips s) ds.
Check C10_loop_decode_error :
  forall (s : v3sock) (ds : list bytes) (s' : v3sock) (e : exc) (rest : list bytes), v3_recv_loop s ds = (s', Failed e rest) -> e = EDecode.
Print Assumptions C10_accept_char.
Print Assumptions C10_refuted.
Print Assumptions C10_ignores_auth.
Print Assumptions C10_modulo_known.
Print Assumptions C10_never_wrong_request.
Print Assumptions C10_skip_keeps_state.
Print Assumptions C10_loop_delivered.
Print Assumptions C10_loop_skips.
Print Assumptions C10_loop_timeout.
Print Assumptions C10_loop_decode_error.

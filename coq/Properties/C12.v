(* C12 - USM keys are derived exactly as RFC 3414 A.2 prescribes.
   Statements only; proofs in Proofs/AuthProofs.v over Model/Auth.v (src/auth/mod.rs, digest.rs, util.rs).
   [password_to_key] / [localize_key]: Spec/Rfc3414.v (digest of the first 2^20 octets of the password repeated
   forever; H(Ku || engineID || Ku)).  The digests are the executable Gallina MD5 / SHA-1 (streaming law proved). *)
From GS Require Import Model.Base Gen.Constants Model.Auth Spec.Rfc3414 Proofs.HashStream Proofs.AuthProofs.
From GS Require Model.Crypto.MD5 Model.Crypto.SHA1.

Theorem C12_password_to_master :
  forall (S : Type) (init : S) (update : S -> bytes -> S) (final : S -> bytes) (KS : Z), (forall (s : S) (a b : bytes), update (update s a) b = update s (a ++ b)) -> (forall s : S, len (final s) = KS) -> 0 <= KS <= 64 -> forall pw : list Z, pw <> [] -> password_to_master S init update final KS pw = Ok (password_to_key (H S init update final) pw).
Proof. exact password_to_master_spec. Qed.

Theorem C12_md5_password_to_master :
  forall pw : list Z, pw <> [] -> md5_p2m pw = Ok (password_to_key MD5.md5 pw).
Proof. exact md5_p2m_spec. Qed.

Theorem C12_sha1_password_to_master :
  forall pw : list Z, pw <> [] -> sha1_p2m pw = Ok (password_to_key SHA1.sha1 pw).
Proof. exact sha1_p2m_spec. Qed.

Theorem C12_localize :
  forall (S : Type) (init : S) (update : S -> bytes -> S) (final : S -> bytes) (KS : Z), (forall (s : S) (a b : bytes), update (update s a) b = update s (a ++ b)) -> (forall s : S, len (final s) = KS) -> 0 <= KS <= 64 -> forall key loc : bytes, localize S init update final KS key loc = Ok (localize_key (H S init update final) key loc).
Proof. exact localize_spec. Qed.

Theorem C12_md5_localize :
  forall key loc : bytes, md5_localize key loc = Ok (localize_key MD5.md5 key loc).
Proof. exact md5_localize_spec. Qed.

Theorem C12_sha1_localize :
  forall key loc : bytes, sha1_localize key loc = Ok (localize_key SHA1.sha1 key loc).
Proof. exact sha1_localize_spec. Qed.

Theorem C12_empty_password_must_be_refused_first :
  forall (S : Type) (init : S) (update : S -> bytes -> S) (final : S -> bytes) (KS : Z), password_to_master S init update final KS [] = Panic.
Proof. exact password_to_master_empty. Qed.

Theorem C12_key_type_dispatch :
  forall (k : auth_key) (alg : Z) (key eid : bytes), (has_auth (ak_alg k) = false -> as_key_type k alg key eid = Ok k) /\ (has_auth (ak_alg k) = true -> (Z.land alg 192 = 0 -> key <> [] -> as_key_type k alg key eid = Ok {| ak_alg := ak_alg k; ak_key := localize_key (alg_H (ak_alg k)) (password_to_key (alg_H (ak_alg k)) key) eid |}) /\ (Z.land alg 192 = 0 -> key = [] -> as_key_type k alg key eid = Err InvalidKey) /\ (Z.land alg 192 = 64 -> len key = key_size (ak_alg k) -> as_key_type k alg key eid = Ok {| ak_alg := ak_alg k; ak_key := localize_key (alg_H (ak_alg k)) key eid |}) /\ (Z.land alg 192 = 128 -> len key = key_size (ak_alg k) -> as_key_type k alg key eid = Ok {| ak_alg := ak_alg k; ak_key := key |}) /\ (Z.land alg 192 = 64 \/ Z.land alg 192 = 128 -> len key <> key_size (ak_alg k) -> as_key_type k alg key eid = Err InvalidKey) /\ (Z.land alg 192 = 192 -> as_key_type k alg key eid = Err InvalidKey)).
Proof. exact as_key_type_spec. Qed.

Theorem C12_key_type_never_panics :
  forall (k : auth_key) (alg : Z) (key eid : bytes), ak_alg k = ANoAuth \/ len (ak_key k) = key_size (ak_alg k) -> as_key_type k alg key eid <> Panic.
Proof. exact as_key_type_no_panic. Qed.

Theorem C12_algorithm_code :
  forall code : Z, (Z.land code 63 = 0 -> auth_new code = Ok {| ak_alg := ANoAuth; ak_key := [] |}) /\ (Z.land code 63 = 1 -> auth_new code = Ok {| ak_alg := AMd5; ak_key := zero_bytes 16 |}) /\ (Z.land code 63 = 2 -> auth_new code = Ok {| ak_alg := ASha1; ak_key := zero_bytes 20 |}) /\ (Z.land code 63 <> 0 -> Z.land code 63 <> 1 -> Z.land code 63 <> 2 -> auth_new code = Err InvalidVersion).
Proof. exact auth_new_spec. Qed.

Theorem C12_get_master_key :
  forall (alg : Z) (pw : bytes), (forall e : err, auth_new alg = Err e -> get_master_key alg pw = PyDecodeError) /\ (forall k : auth_key, auth_new alg = Ok k -> (pw = [] -> get_master_key alg pw = PyValueError) /\ (pw <> [] -> has_auth (ak_alg k) = true -> get_master_key alg pw = PyOk (password_to_key (alg_H (ak_alg k)) pw)) /\ (pw <> [] -> has_auth (ak_alg k) = false -> get_master_key alg pw = PyOk [])) /\ get_master_key alg pw <> PyPanic.
Proof. exact get_master_key_spec. Qed.

Theorem C12_get_localized_key :
  forall (alg : Z) (master eid : bytes), (forall e : err, auth_new alg = Err e -> get_localized_key alg master eid = PyDecodeError) /\ (forall k : auth_key, auth_new alg = Ok k -> (len master <> key_size (ak_alg k) -> get_localized_key alg master eid = PyValueError) /\ (len master = key_size (ak_alg k) -> has_auth (ak_alg k) = true -> get_localized_key alg master eid = PyOk (localize_key (alg_H (ak_alg k)) master eid)) /\ (len master = key_size (ak_alg k) -> has_auth (ak_alg k) = false -> get_localized_key alg master eid = PyOk [])) /\ get_localized_key alg master eid <> PyPanic.
Proof. exact get_localized_key_spec. Qed.

Check C12_password_to_master :
  forall (S : Type) (init : S) (update : S -> bytes -> S) (final : S -> bytes) (KS : Z), (forall (s : S) (a b : bytes), update (update s a) b = update s (a ++ b)) -> (forall s : S, len (final s) = KS) -> 0 <= KS <= 64 -> forall pw : list Z, pw <> [] -> password_to_master S init update final KS pw = Ok (password_to_key (H S init update final) pw).
Check C12_md5_password_to_master :
  forall pw : list Z, pw <> [] -> md5_p2m pw = Ok (password_to_key MD5.md5 pw).
Check C12_sha1_password_to_master :
  forall pw : list Z, pw <> [] -> sha1_p2m pw = Ok (password_to_key SHA1.sha1 pw).
Check C12_localize :
  forall (S : Type) (init : S) (update : S -> bytes -> S) (final : S -> bytes) (KS : Z), (forall (s : S) (a b : bytes), update (update s a) b = update s (a ++ b)) -> (forall s : S, len (final s) = KS) -> 0 <= KS <= 64 -> forall key loc : bytes, localize S init update final KS key loc = Ok (localize_key (H S init update final) key loc).
Check C12_md5_localize :
  forall key loc : bytes, md5_localize key loc = Ok (localize_key MD5.md5 key loc).
Check C12_sha1_localize :
  forall key loc : bytes, sha1_localize key loc = Ok (localize_key SHA1.sha1 key loc).
Check C12_empty_password_must_be_refused_first :
  forall (S : Type) (init : S) (update : S -> bytes -> S) (final : S -> bytes) (KS : Z), password_to_master S init update final KS [] = Panic.
Check C12_key_type_dispatch :
  forall (k : auth_key) (alg : Z) (key eid : bytes), (has_auth (ak_alg k) = false -> as_key_type k alg key eid = Ok k) /\ (has_auth (ak_alg k) = true -> (Z.land alg 192 = 0 -> key <> [] -> as_key_type k alg key eid = Ok {| ak_alg := ak_alg k; ak_key := localize_key (alg_H (ak_alg k)) (password_to_key (alg_H (ak_alg k)) key) eid |}) /\ (Z.land alg 192 = 0 -> key = [] -> as_key_type k alg key eid = Err InvalidKey) /\ (Z.land alg 192 = 64 -> len key = key_size (ak_alg k) -> as_key_type k alg key eid = Ok {| ak_alg := ak_alg k; ak_key := localize_key (alg_H (ak_alg k)) key eid |}) /\ (Z.land alg 192 = 128 -> len key = key_size (ak_alg k) -> as_key_type k alg key eid = Ok {| ak_alg := ak_alg k; ak_key := key |}) /\ (Z.land alg 192 = 64 \/ Z.land alg 192 = 128 -> len key <> key_size (ak_alg k) -> as_key_type k alg key eid = Err InvalidKey) /\ (Z.land alg 192 = 192 -> as_key_type k alg key eid = Err InvalidKey)).
Check C12_key_type_never_panics :
  forall (k : auth_key) (alg : Z) (key eid : bytes), ak_alg k = ANoAuth \/ len (ak_key k) = key_size (ak_alg k) -> as_key_type k alg key eid <> Panic.
Check C12_algorithm_code :
  forall code : Z, (Z.land code 63 = 0 -> auth_new code = Ok {| ak_alg := ANoAuth; ak_key := [] |}) /\ (Z.land code 63 = 1 -> auth_new code = Ok {| ak_alg := AMd5; ak_key := zero_bytes 16 |}) /\ (Z.land code 63 = 2 -> auth_new code = Ok {| ak_alg := ASha1; ak_key := zero_bytes 20 |}) /\ (Z.land code 63 <> 0 -> Z.land code 63 <> 1 -> Z.land code 63 <> 2 -> auth_new code = Err InvalidVersion).
Check C12_get_master_key :
  forall (alg : Z) (pw : bytes), (forall e : err, auth_new alg = Err e -> get_master_key alg pw = PyDecodeError) /\ (forall k : auth_key, auth_new alg = Ok k -> (pw = [] -> get_master_key alg pw = PyValueError) /\ (pw <> [] -> has_auth (ak_alg k) = true -> get_master_key alg pw = PyOk (password_to_key (alg_H (ak_alg k)) pw)) /\ (pw <> [] -> has_auth (ak_alg k) = false -> get_master_key alg pw = PyOk [])) /\ get_master_key alg pw <> PyPanic.
Check C12_get_localized_key :
  forall (alg : Z) (master eid : bytes), (forall e : err, auth_new alg = Err e -> get_localized_key alg master eid = PyDecodeError) /\ (forall k : auth_key, auth_new alg = Ok k -> (len master <> key_size (ak_alg k) -> get_localized_key alg master eid = PyValueError) /\ (len master = key_size (ak_alg k) -> has_auth (ak_alg k) = true -> get_localized_key alg master eid = PyOk (localize_key (alg_H (ak_alg k)) master eid)) /\ (len master = key_size (ak_alg k) -> has_auth (ak_alg k) = false -> get_localized_key alg master eid = PyOk [])) /\ get_localized_key alg master eid <> PyPanic.
Print Assumptions C12_password_to_master.
Print Assumptions C12_md5_password_to_master.
Print Assumptions C12_sha1_password_to_master.
Print Assumptions C12_localize.
Print Assumptions C12_md5_localize.
Print Assumptions C12_sha1_localize.
Print Assumptions C12_empty_password_must_be_refused_first.
Print Assumptions C12_key_type_dispatch.
Print Assumptions C12_key_type_never_panics.
Print Assumptions C12_algorithm_code.
Print Assumptions C12_get_master_key.
Print Assumptions C12_get_localized_key.

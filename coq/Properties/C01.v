(* C01 - no datagram can crash the client: the receive path is total.
   Statements only.  [Panic] is the result the model produces exactly where the Rust code would panic (unchecked
   index, slice out of range, clone_from_slice length mismatch, division by zero, todo!()); the theorems say it is
   unreachable for every octet string [wfb i] handed to any decoder of the receive path.  Proofs in
   Proofs/HeaderProofs.v, DecodeProofs.v, MsgDecodeProofs.v (decoders) and Proofs/OpsProofs.v (conversions to
   Python values, receive loop).  Error values map to documented exception classes through Gen/ErrorMap.v,
   regenerated from src/error.rs on every run (C01_error_classes). *)
From GS Require Import Model.Base Model.Ber Model.Pdu Model.OidText Model.Exc Gen.ErrorMap
  Proofs.HeaderProofs Proofs.DecodeProofs Proofs.MsgDecodeProofs Proofs.OidTextProofs Proofs.ErrorMapProofs
  Model.Ops Model.Walk Proofs.OpsLemmas Proofs.OpsProofs Proofs.WalkAnyAgent.

Theorem C01_header_total :
  forall i : bytes, parse_header i <> Panic.
Proof. exact parse_header_no_panic. Qed.

Theorem C01_value_total :
  forall i : bytes, wfb i -> value_from_ber i <> Panic.
Proof. exact value_from_ber_no_panic. Qed.

Theorem C01_relative_oid_total :
  forall rel oid : bytes, wfb rel -> wfb oid -> try_normalize rel oid <> Panic.
Proof. exact try_normalize_no_panic. Qed.

Theorem C01_pdu_total :
  forall i : bytes, wfb i -> pdu_decode i <> Panic.
Proof. exact pdu_decode_no_panic. Qed.

Theorem C01_getresponse_total :
  forall i : bytes, wfb i -> getresponse_decode i <> Panic.
Proof. exact getresponse_decode_no_panic. Qed.

Theorem C01_v1_total :
  forall i : bytes, wfb i -> v1_decode i <> Panic.
Proof. exact v1_decode_no_panic. Qed.

Theorem C01_v2c_total :
  forall i : bytes, wfb i -> v2c_decode i <> Panic.
Proof. exact v2c_decode_no_panic. Qed.

Theorem C01_v3_total :
  forall i : bytes, wfb i -> v3_decode i <> Panic.
Proof. exact v3_decode_no_panic. Qed.

Theorem C01_usm_total :
  forall i : bytes, wfb i -> usm_decode i <> Panic.
Proof. exact usm_decode_no_panic. Qed.

Theorem C01_scoped_total :
  forall i : bytes, wfb i -> scoped_decode i <> Panic.
Proof. exact scoped_decode_no_panic. Qed.

Theorem C01_msgdata_total :
  forall i : bytes, wfb i -> msgdata_decode i <> Panic.
Proof. exact msgdata_decode_no_panic. Qed.

Theorem C01_varbind_loop_terminates :
  forall (fuel : nat) (v : bytes) (acc : list varbind), wfb v -> (length v <= fuel)%nat -> Forall (fun vb : varbind => wfb (vb_oid vb)) acc -> resp_vars fuel v acc <> Panic.
Proof. exact resp_vars_no_panic. Qed.

Theorem C01_oid_text_total :
  forall s : bytes, oid_of_text s <> Panic /\ (forall e : err, oid_of_text s = Err e -> e = InvalidData).
Proof. exact C08_refuse. Qed.

Check C01_header_total :
  forall i : bytes, parse_header i <> Panic.
Check C01_value_total :
  forall i : bytes, wfb i -> value_from_ber i <> Panic.
Check C01_relative_oid_total :
  forall rel oid : bytes, wfb rel -> wfb oid -> try_normalize rel oid <> Panic.
Check C01_pdu_total :
  forall i : bytes, wfb i -> pdu_decode i <> Panic.
Check C01_getresponse_total :
  forall i : bytes, wfb i -> getresponse_decode i <> Panic.
Check C01_v1_total :
  forall i : bytes, wfb i -> v1_decode i <> Panic.
Check C01_v2c_total :
  forall i : bytes, wfb i -> v2c_decode i <> Panic.
Check C01_v3_total :
  forall i : bytes, wfb i -> v3_decode i <> Panic.
Check C01_usm_total :
  forall i : bytes, wfb i -> usm_decode i <> Panic.
Check C01_scoped_total :
  forall i : bytes, wfb i -> scoped_decode i <> Panic.
Check C01_msgdata_total :
  forall i : bytes, wfb i -> msgdata_decode i <> Panic.
Check C01_varbind_loop_terminates :
  forall (fuel : nat) (v : bytes) (acc : list varbind), wfb v -> (length v <= fuel)%nat -> Forall (fun vb : varbind => wfb (vb_oid vb)) acc -> resp_vars fuel v acc <> Panic.
Check C01_oid_text_total :
  forall s : bytes, oid_of_text s <> Panic /\ (forall e : err, oid_of_text s = Err e -> e = InvalidData).
Print Assumptions C01_header_total.
Print Assumptions C01_value_total.
Print Assumptions C01_relative_oid_total.
Print Assumptions C01_pdu_total.
Print Assumptions C01_getresponse_total.
Print Assumptions C01_v1_total.
Print Assumptions C01_v2c_total.
Print Assumptions C01_v3_total.
Print Assumptions C01_usm_total.
Print Assumptions C01_scoped_total.
Print Assumptions C01_msgdata_total.
Print Assumptions C01_varbind_loop_terminates.
Print Assumptions C01_oid_text_total.


(* every SnmpError the receive path can produce is raised as a documented exception class *)
Theorem C01_error_classes :
  forall e : err, In (err_to_exc e)
    [EDecode; EEncode; EAuth; ENoSuchInstance; EValue; ETimeout; EBlockingIO; EOSError; ENotImplemented] /\
  (In e [Incomplete; UnexpectedTag; InvalidTagFormat; UnknownPdu; InvalidPdu; InvalidData; UnsupportedTag; TrailingData;
         InvalidVersion; UnknownSecurityModel] -> err_to_exc e = EDecode).
Proof. exact error_classes. Qed.
Check C01_error_classes :
  forall e : err, In (err_to_exc e)
    [EDecode; EEncode; EAuth; ENoSuchInstance; EValue; ETimeout; EBlockingIO; EOSError; ENotImplemented] /\
  (In e [Incomplete; UnexpectedTag; InvalidTagFormat; UnknownPdu; InvalidPdu; InvalidData; UnsupportedTag; TrailingData;
         InvalidVersion; UnknownSecurityModel] -> err_to_exc e = EDecode).
Print Assumptions C01_error_classes.

(* conversions to Python values, the community receive loop and the walk iterators never surface a panic *)
Theorem C01_get_no_crash :
  forall p : pdu, get_to_python p <> Crash.
Proof. exact get_to_python_no_crash. Qed.

Theorem C01_getmany_no_crash :
  forall p : pdu, getmany_to_python p <> Crash.
Proof. exact getmany_to_python_no_crash. Qed.

Theorem C01_getnext_no_crash :
  forall (p : pdu) (it : getiter), snd (getnext_to_python p it) <> Crash.
Proof. exact getnext_to_python_no_crash. Qed.

Theorem C01_getbulk_no_crash :
  forall (p : pdu) (it : getiter), snd (getbulk_to_python p it) <> Crash.
Proof. exact getbulk_to_python_no_crash. Qed.

Theorem C01_recv_loop_no_crash :
  forall (ver : Z) (comm : bytes) (rid : Z) (ds : list bytes), (forall d : bytes, In d ds -> cmsg_decode ver d <> Panic) -> c_recv_loop ver comm rid ds <> Crashed.
Proof. exact c_recv_loop_no_crash. Qed.

Theorem C01_walk_no_crash :
  forall (fuel : nat) (a : agent) (it0 : getiter) (base : bytes), fresh_iter it0 base -> ended (walk_next fuel a 0 it0 [] []) <> CrashedW /\ ended (walk_bulk fuel a 0 it0 [] []) <> CrashedW.
Proof. exact walk_no_crash. Qed.

Check C01_get_no_crash :
  forall p : pdu, get_to_python p <> Crash.
Check C01_getmany_no_crash :
  forall p : pdu, getmany_to_python p <> Crash.
Check C01_getnext_no_crash :
  forall (p : pdu) (it : getiter), snd (getnext_to_python p it) <> Crash.
Check C01_getbulk_no_crash :
  forall (p : pdu) (it : getiter), snd (getbulk_to_python p it) <> Crash.
Check C01_recv_loop_no_crash :
  forall (ver : Z) (comm : bytes) (rid : Z) (ds : list bytes), (forall d : bytes, In d ds -> cmsg_decode ver d <> Panic) -> c_recv_loop ver comm rid ds <> Crashed.
Check C01_walk_no_crash :
  forall (fuel : nat) (a : agent) (it0 : getiter) (base : bytes), fresh_iter it0 base -> ended (walk_next fuel a 0 it0 [] []) <> CrashedW /\ ended (walk_bulk fuel a 0 it0 [] []) <> CrashedW.
Print Assumptions C01_get_no_crash.
Print Assumptions C01_getmany_no_crash.
Print Assumptions C01_getnext_no_crash.
Print Assumptions C01_getbulk_no_crash.
Print Assumptions C01_recv_loop_no_crash.
Print Assumptions C01_walk_no_crash.

(* --- the Python layer (Model/PyLayer.v) adds no exception of its own beyond TimeoutError and the end-of-iteration signals:
   the blocking client never lets BlockingIOError through and its iterators never end with StopAsyncIteration; whatever else a
   call raises was raised by the socket method (whose classes C01_error_classes bounds). *)
From GS Require Import Model.Base Model.Exc Model.Walk Model.PyLayer Proofs.PyLayerProofs.
Theorem C01_sync_client_exceptions :
  forall (cfg : pycfg) (fuel : nat) (a : api) (script : list tok), pc_mode cfg = Sync -> r_end (run_api cfg fuel a script) <> PRaise EBlockingIO /\ match a with | ApiGet _ | ApiGetMany _ => True | _ => r_end (run_api cfg fuel a script) <> PRaise EStopAsyncIteration end.
Proof. exact sync_api_exceptions. Qed.

Theorem C01_async_recv_no_blockingio :
  forall (m : meth) (a : arg) (script : list tok), snd (fst (a_recv m a script)) <> PRaise EBlockingIO.
Proof. exact a_recv_no_blocking. Qed.

Theorem C01_recv_exceptions_closed :
  forall (m : meth) (a : arg) (script : list tok) (e : exc), snd (fst (a_recv m a script)) = PRaise e -> added_exc e \/ In (TRaise e) script.
Proof. exact a_recv_closed. Qed.

Theorem C01_sync_exceptions_closed :
  forall (pol iter : bool) (m : meth) (a : arg) (script : list tok) (e : exc), snd (fst (sync_call pol iter m a script)) = PRaise e -> added_exc e \/ In (TRaise e) script.
Proof. exact sync_call_closed. Qed.

Check C01_sync_client_exceptions :
  forall (cfg : pycfg) (fuel : nat) (a : api) (script : list tok), pc_mode cfg = Sync -> r_end (run_api cfg fuel a script) <> PRaise EBlockingIO /\ match a with | ApiGet _ | ApiGetMany _ => True | _ => r_end (run_api cfg fuel a script) <> PRaise EStopAsyncIteration end.
Check C01_async_recv_no_blockingio :
  forall (m : meth) (a : arg) (script : list tok), snd (fst (a_recv m a script)) <> PRaise EBlockingIO.
Check C01_recv_exceptions_closed :
  forall (m : meth) (a : arg) (script : list tok) (e : exc), snd (fst (a_recv m a script)) = PRaise e -> added_exc e \/ In (TRaise e) script.
Check C01_sync_exceptions_closed :
  forall (pol iter : bool) (m : meth) (a : arg) (script : list tok) (e : exc), snd (fst (sync_call pol iter m a script)) = PRaise e -> added_exc e \/ In (TRaise e) script.
Print Assumptions C01_sync_client_exceptions.
Print Assumptions C01_async_recv_no_blockingio.
Print Assumptions C01_recv_exceptions_closed.
Print Assumptions C01_sync_exceptions_closed.

(* --- and for a whole API call of either client (get, get_many, getnext, getbulk, fetch; any script of socket results):
   what it raises is TimeoutError, an end-of-iteration signal, or an exception a socket method raised during that call *)
Theorem C01_python_api_exceptions_closed :
  forall (cfg : pycfg) (fuel : nat) (a : api) (script : list tok) (e : exc), r_end (run_api cfg fuel a script) = PRaise e -> added_exc e \/ In (TRaise e) script.
Proof. exact api_exceptions_closed. Qed.

Check C01_python_api_exceptions_closed :
  forall (cfg : pycfg) (fuel : nat) (a : api) (script : list tok) (e : exc), r_end (run_api cfg fuel a script) = PRaise e -> added_exc e \/ In (TRaise e) script.
Print Assumptions C01_python_api_exceptions_closed.

(* C09 - every outgoing authenticated message carries a correct HMAC-96.
   Statements only; proofs in Proofs/AuthProofs.v (the hand-written ipad/opad code of src/auth/digest.rs is RFC 2104
   HMAC, truncated to 96 bits and stored at the bookmark) and Proofs/AuthMsgProofs.v (the emitted datagram is the
   reference encoding of the message with, in place of the twelve zero octets of msgAuthenticationParameters, the MAC of
   that zero-field message under the session's localized key; auth flag set; without a key: empty field, flag clear).
   [hmac96] is defined in Spec/Rfc3414.v; the digests are the executable Gallina MD5 / SHA-1, whose streaming law is
   proved in Proofs/HashStream.v.  [enc_v3_of m D]: Spec/X690.v reference message for the record m with msgData D. *)
From GS Require Import Model.Base Gen.Constants Model.Ber Model.Pdu Model.Buffer Model.Auth Model.Priv Model.V3 Spec.X690 Spec.Rfc3414
  Proofs.EncodeProofs Proofs.HashStream Proofs.AuthProofs Proofs.AuthMsgProofs.
From GS Require Model.Crypto.MD5 Model.Crypto.SHA1.

Theorem C09_sign_is_hmac :
  forall (S : Type) (init : S) (update : S -> bytes -> S) (final : S -> bytes) (KS : Z), (forall (s : S) (a b : bytes), update (update s a) b = update s (a ++ b)) -> (forall s : S, len (final s) = KS) -> 0 <= KS <= 64 -> forall (key data : bytes) (offset : Z), 12 <= KS -> len key = KS -> 0 <= offset -> offset + 12 <= len data -> sign S init update final KS 12 key data offset = Ok (takez offset data ++ hmac96 (H S init update final) key data ++ dropz (offset + 12) data).
Proof. exact sign_is_hmac. Qed.

Theorem C09_md5_sign_is_hmac :
  forall (key data : bytes) (offset : Z), len key = 16 -> 0 <= offset -> offset + 12 <= len data -> alg_sign {| ak_alg := AMd5; ak_key := key |} data offset = Ok (takez offset data ++ hmac96 MD5.md5 key data ++ dropz (offset + 12) data).
Proof. exact md5_sign_is_hmac. Qed.

Theorem C09_sha1_sign_is_hmac :
  forall (key data : bytes) (offset : Z), len key = 20 -> 0 <= offset -> offset + 12 <= len data -> alg_sign {| ak_alg := ASha1; ak_key := key |} data offset = Ok (takez offset data ++ hmac96 SHA1.sha1 key data ++ dropz (offset + 12) data).
Proof. exact sha1_sign_is_hmac. Qed.

Theorem C09_sign_changes_only_the_field :
  forall (S : Type) (init : S) (update : S -> bytes -> S) (final : S -> bytes) (KS : Z), (forall (s : S) (a b : bytes), update (update s a) b = update s (a ++ b)) -> (forall s : S, len (final s) = KS) -> 0 <= KS <= 64 -> forall (key data : bytes) (offset : Z) (r : bytes), 12 <= KS -> len key = KS -> 0 <= offset -> offset + 12 <= len data -> sign S init update final KS 12 key data offset = Ok r -> takez offset r = takez offset data /\ dropz (offset + 12) r = dropz (offset + 12) data /\ takez 12 (dropz offset r) = hmac96 (H S init update final) key data.
Proof. exact sign_frame. Qed.

Theorem C09_noauth_sign :
  forall (k data : bytes) (off : Z), alg_sign {| ak_alg := ANoAuth; ak_key := k |} data off = Ok data.
Proof. exact alg_sign_noauth. Qed.

Theorem C09_message_mac :
  forall (s : v3sock) (p : pdu) (mid : Z) (pp : bytes) (d : msgdata) (D dg : bytes), has_auth (ak_alg (auth s)) = true -> len (ak_key (auth s)) = key_size (ak_alg (auth s)) -> IntEncProofs.in_range (engine_boots s) -> IntEncProofs.in_range (engine_time s) -> IntEncProofs.in_range mid -> msgdata_spec d D -> v3_finish s (v3_message s p mid pp d) = Ok dg -> let m := v3_message s p mid pp d in let E := enc_v3_of m D in let mac := hmac96 (alg_H (ak_alg (auth s))) (ak_key (auth s)) E in let post := enc_octets pp ++ D in (exists pre : list Z, E = pre ++ zero_bytes 12 ++ post /\ dg = pre ++ mac ++ post) /\ len dg = len E /\ len mac = 12 /\ testbit (flags_octet m) FLAG_AUTH = true.
Proof. exact v3_finish_auth. Qed.

Theorem C09_message_mac_md5 :
  forall (s : v3sock) (p : pdu) (mid : Z) (pp : bytes) (d : msgdata) (D dg : bytes), ak_alg (auth s) = AMd5 -> len (ak_key (auth s)) = 16 -> IntEncProofs.in_range (engine_boots s) -> IntEncProofs.in_range (engine_time s) -> IntEncProofs.in_range mid -> msgdata_spec d D -> v3_finish s (v3_message s p mid pp d) = Ok dg -> let m := v3_message s p mid pp d in let E := enc_v3_of m D in let mac := hmac96 MD5.md5 (ak_key (auth s)) E in let post := enc_octets pp ++ D in (exists pre : list Z, E = pre ++ zero_bytes 12 ++ post /\ dg = pre ++ mac ++ post) /\ len dg = len E /\ len mac = 12 /\ testbit (flags_octet m) FLAG_AUTH = true.
Proof. exact v3_finish_md5. Qed.

Theorem C09_message_mac_sha1 :
  forall (s : v3sock) (p : pdu) (mid : Z) (pp : bytes) (d : msgdata) (D dg : bytes), ak_alg (auth s) = ASha1 -> len (ak_key (auth s)) = 20 -> IntEncProofs.in_range (engine_boots s) -> IntEncProofs.in_range (engine_time s) -> IntEncProofs.in_range mid -> msgdata_spec d D -> v3_finish s (v3_message s p mid pp d) = Ok dg -> let m := v3_message s p mid pp d in let E := enc_v3_of m D in let mac := hmac96 SHA1.sha1 (ak_key (auth s)) E in let post := enc_octets pp ++ D in (exists pre : list Z, E = pre ++ zero_bytes 12 ++ post /\ dg = pre ++ mac ++ post) /\ len dg = len E /\ len mac = 12 /\ testbit (flags_octet m) FLAG_AUTH = true.
Proof. exact v3_finish_sha1. Qed.

Theorem C09_message_noauth :
  forall (s : v3sock) (p : pdu) (mid : Z) (pp : bytes) (d : msgdata) (D dg : bytes), has_auth (ak_alg (auth s)) = false -> IntEncProofs.in_range (engine_boots s) -> IntEncProofs.in_range (engine_time s) -> IntEncProofs.in_range mid -> msgdata_spec d D -> v3_finish s (v3_message s p mid pp d) = Ok dg -> let m := v3_message s p mid pp d in dg = enc_v3_of m D /\ u_auth_params (m_usm m) = [] /\ testbit (flags_octet m) FLAG_AUTH = false.
Proof. exact v3_finish_noauth. Qed.

Theorem C09_push_pdu_auth :
  forall (s : v3sock) (p : pdu) (rnd : Z) (dg : bytes), has_auth (ak_alg (auth s)) = true -> len (ak_key (auth s)) = key_size (ak_alg (auth s)) -> IntEncProofs.in_range (engine_boots s) -> IntEncProofs.in_range (engine_time s) -> (forall r : req, req_of_pdu p = Some r -> req_ok r) -> snd (v3_push_pdu s p rnd) = Ok dg -> exists (pp : bytes) (d : msgdata) (D : bytes), msgdata_spec d D /\ (let m := v3_message s p (next_id rnd) pp d in let E := enc_v3_of m D in let mac := hmac96 (alg_H (ak_alg (auth s))) (ak_key (auth s)) E in let post := enc_octets pp ++ D in (exists pre : list Z, E = pre ++ zero_bytes 12 ++ post /\ dg = pre ++ mac ++ post) /\ len dg = len E /\ len mac = 12 /\ testbit (flags_octet m) FLAG_AUTH = true).
Proof. exact v3_push_pdu_auth. Qed.

Theorem C09_push_pdu_noauth :
  forall (s : v3sock) (p : pdu) (rnd : Z) (dg : bytes), has_auth (ak_alg (auth s)) = false -> IntEncProofs.in_range (engine_boots s) -> IntEncProofs.in_range (engine_time s) -> (forall r : req, req_of_pdu p = Some r -> req_ok r) -> snd (v3_push_pdu s p rnd) = Ok dg -> exists (pp : bytes) (d : msgdata) (D : bytes), msgdata_spec d D /\ (let m := v3_message s p (next_id rnd) pp d in dg = enc_v3_of m D /\ u_auth_params (m_usm m) = [] /\ testbit (flags_octet m) FLAG_AUTH = false).
Proof. exact v3_push_pdu_noauth. Qed.

Theorem C09_bookmark_is_field_offset :
  forall (b : buffer) (m : v3msg) (D : bytes) (bf : buffer), blen b = 0 -> v3_ok m -> msgdata_spec (m_data m) D -> u_auth_params (m_usm m) <> [] -> len (u_auth_params (m_usm m)) < 128 -> push_v3 b m = Ok bf -> exists pre : list Z, data bf = pre ++ u_auth_params (m_usm m) ++ enc_octets (u_privacy_params (m_usm m)) ++ D /\ data bf = enc_v3_of m D /\ get_bookmark bf = len pre.
Proof. exact push_v3_bookmark. Qed.

Check C09_sign_is_hmac :
  forall (S : Type) (init : S) (update : S -> bytes -> S) (final : S -> bytes) (KS : Z), (forall (s : S) (a b : bytes), update (update s a) b = update s (a ++ b)) -> (forall s : S, len (final s) = KS) -> 0 <= KS <= 64 -> forall (key data : bytes) (offset : Z), 12 <= KS -> len key = KS -> 0 <= offset -> offset + 12 <= len data -> sign S init update final KS 12 key data offset = Ok (takez offset data ++ hmac96 (H S init update final) key data ++ dropz (offset + 12) data).
Check C09_md5_sign_is_hmac :
  forall (key data : bytes) (offset : Z), len key = 16 -> 0 <= offset -> offset + 12 <= len data -> alg_sign {| ak_alg := AMd5; ak_key := key |} data offset = Ok (takez offset data ++ hmac96 MD5.md5 key data ++ dropz (offset + 12) data).
Check C09_sha1_sign_is_hmac :
  forall (key data : bytes) (offset : Z), len key = 20 -> 0 <= offset -> offset + 12 <= len data -> alg_sign {| ak_alg := ASha1; ak_key := key |} data offset = Ok (takez offset data ++ hmac96 SHA1.sha1 key data ++ dropz (offset + 12) data).
Check C09_sign_changes_only_the_field :
  forall (S : Type) (init : S) (update : S -> bytes -> S) (final : S -> bytes) (KS : Z), (forall (s : S) (a b : bytes), update (update s a) b = update s (a ++ b)) -> (forall s : S, len (final s) = KS) -> 0 <= KS <= 64 -> forall (key data : bytes) (offset : Z) (r : bytes), 12 <= KS -> len key = KS -> 0 <= offset -> offset + 12 <= len data -> sign S init update final KS 12 key data offset = Ok r -> takez offset r = takez offset data /\ dropz (offset + 12) r = dropz (offset + 12) data /\ takez 12 (dropz offset r) = hmac96 (H S init update final) key data.
Check C09_noauth_sign :
  forall (k data : bytes) (off : Z), alg_sign {| ak_alg := ANoAuth; ak_key := k |} data off = Ok data.
Check C09_message_mac :
  forall (s : v3sock) (p : pdu) (mid : Z) (pp : bytes) (d : msgdata) (D dg : bytes), has_auth (ak_alg (auth s)) = true -> len (ak_key (auth s)) = key_size (ak_alg (auth s)) -> IntEncProofs.in_range (engine_boots s) -> IntEncProofs.in_range (engine_time s) -> IntEncProofs.in_range mid -> msgdata_spec d D -> v3_finish s (v3_message s p mid pp d) = Ok dg -> let m := v3_message s p mid pp d in let E := enc_v3_of m D in let mac := hmac96 (alg_H (ak_alg (auth s))) (ak_key (auth s)) E in let post := enc_octets pp ++ D in (exists pre : list Z, E = pre ++ zero_bytes 12 ++ post /\ dg = pre ++ mac ++ post) /\ len dg = len E /\ len mac = 12 /\ testbit (flags_octet m) FLAG_AUTH = true.
Check C09_message_mac_md5 :
  forall (s : v3sock) (p : pdu) (mid : Z) (pp : bytes) (d : msgdata) (D dg : bytes), ak_alg (auth s) = AMd5 -> len (ak_key (auth s)) = 16 -> IntEncProofs.in_range (engine_boots s) -> IntEncProofs.in_range (engine_time s) -> IntEncProofs.in_range mid -> msgdata_spec d D -> v3_finish s (v3_message s p mid pp d) = Ok dg -> let m := v3_message s p mid pp d in let E := enc_v3_of m D in let mac := hmac96 MD5.md5 (ak_key (auth s)) E in let post := enc_octets pp ++ D in (exists pre : list Z, E = pre ++ zero_bytes 12 ++ post /\ dg = pre ++ mac ++ post) /\ len dg = len E /\ len mac = 12 /\ testbit (flags_octet m) FLAG_AUTH = true.
Check C09_message_mac_sha1 :
  forall (s : v3sock) (p : pdu) (mid : Z) (pp : bytes) (d : msgdata) (D dg : bytes), ak_alg (auth s) = ASha1 -> len (ak_key (auth s)) = 20 -> IntEncProofs.in_range (engine_boots s) -> IntEncProofs.in_range (engine_time s) -> IntEncProofs.in_range mid -> msgdata_spec d D -> v3_finish s (v3_message s p mid pp d) = Ok dg -> let m := v3_message s p mid pp d in let E := enc_v3_of m D in let mac := hmac96 SHA1.sha1 (ak_key (auth s)) E in let post := enc_octets pp ++ D in (exists pre : list Z, E = pre ++ zero_bytes 12 ++ post /\ dg = pre ++ mac ++ post) /\ len dg = len E /\ len mac = 12 /\ testbit (flags_octet m) FLAG_AUTH = true.
Check C09_message_noauth :
  forall (s : v3sock) (p : pdu) (mid : Z) (pp : bytes) (d : msgdata) (D dg : bytes), has_auth (ak_alg (auth s)) = false -> IntEncProofs.in_range (engine_boots s) -> IntEncProofs.in_range (engine_time s) -> IntEncProofs.in_range mid -> msgdata_spec d D -> v3_finish s (v3_message s p mid pp d) = Ok dg -> let m := v3_message s p mid pp d in dg = enc_v3_of m D /\ u_auth_params (m_usm m) = [] /\ testbit (flags_octet m) FLAG_AUTH = false.
Check C09_push_pdu_auth :
  forall (s : v3sock) (p : pdu) (rnd : Z) (dg : bytes), has_auth (ak_alg (auth s)) = true -> len (ak_key (auth s)) = key_size (ak_alg (auth s)) -> IntEncProofs.in_range (engine_boots s) -> IntEncProofs.in_range (engine_time s) -> (forall r : req, req_of_pdu p = Some r -> req_ok r) -> snd (v3_push_pdu s p rnd) = Ok dg -> exists (pp : bytes) (d : msgdata) (D : bytes), msgdata_spec d D /\ (let m := v3_message s p (next_id rnd) pp d in let E := enc_v3_of m D in let mac := hmac96 (alg_H (ak_alg (auth s))) (ak_key (auth s)) E in let post := enc_octets pp ++ D in (exists pre : list Z, E = pre ++ zero_bytes 12 ++ post /\ dg = pre ++ mac ++ post) /\ len dg = len E /\ len mac = 12 /\ testbit (flags_octet m) FLAG_AUTH = true).
Check C09_push_pdu_noauth :
  forall (s : v3sock) (p : pdu) (rnd : Z) (dg : bytes), has_auth (ak_alg (auth s)) = false -> IntEncProofs.in_range (engine_boots s) -> IntEncProofs.in_range (engine_time s) -> (forall r : req, req_of_pdu p = Some r -> req_ok r) -> snd (v3_push_pdu s p rnd) = Ok dg -> exists (pp : bytes) (d : msgdata) (D : bytes), msgdata_spec d D /\ (let m := v3_message s p (next_id rnd) pp d in dg = enc_v3_of m D /\ u_auth_params (m_usm m) = [] /\ testbit (flags_octet m) FLAG_AUTH = false).
Check C09_bookmark_is_field_offset :
  forall (b : buffer) (m : v3msg) (D : bytes) (bf : buffer), blen b = 0 -> v3_ok m -> msgdata_spec (m_data m) D -> u_auth_params (m_usm m) <> [] -> len (u_auth_params (m_usm m)) < 128 -> push_v3 b m = Ok bf -> exists pre : list Z, data bf = pre ++ u_auth_params (m_usm m) ++ enc_octets (u_privacy_params (m_usm m)) ++ D /\ data bf = enc_v3_of m D /\ get_bookmark bf = len pre.
Print Assumptions C09_sign_is_hmac.
Print Assumptions C09_md5_sign_is_hmac.
Print Assumptions C09_sha1_sign_is_hmac.
Print Assumptions C09_sign_changes_only_the_field.
Print Assumptions C09_noauth_sign.
Print Assumptions C09_message_mac.
Print Assumptions C09_message_mac_md5.
Print Assumptions C09_message_mac_sha1.
Print Assumptions C09_message_noauth.
Print Assumptions C09_push_pdu_auth.
Print Assumptions C09_push_pdu_noauth.
Print Assumptions C09_bookmark_is_field_offset.

(* C18 - a request never outlives its timeout  (PARTIAL: logical clock).
   Statements only; proofs in Proofs/TimingProofs.v over Model/Timing.v.  The model has a logical clock: what it
   cannot exhibit is scheduler latency, kernel timer granularity and GIL hand-over (measured by ./check C18 with a
   slack).  Both clients now have one deadline per call (C18_sync_deadline, C18_async_deadline, C18_delivers,
   C18_with_strays).  [rearming_wait] is the receive loop of the pinned commit, which re-armed SO_RCVTIMEO for every
   skipped datagram: C18_pinned_refuted shows why that violated the property (k strays kept the call waiting (k+1)
   timeouts); it was repaired by a fix: commit recorded in /verif/known_findings.json. *)
From GS Require Import Model.Base Model.Timing Proofs.TimingProofs.
From Coq Require Import Sorted.

Theorem C18_sync_deadline :
  forall (T t0 : Z) (arr : list arrival), 0 <= T -> fst (sync_wait T t0 arr) <= t0 + T.
Proof. exact sync_deadline. Qed.

Theorem C18_async_deadline :
  forall (T t0 : Z) (arr : list arrival), 0 <= T -> fst (async_wait T t0 arr) <= t0 + T.
Proof. exact async_deadline. Qed.

Theorem C18_delivers :
  forall (pre : list (Z * bool)) (T t0 t : Z) (post : list (Z * bool)), Forall (fun a : Z * bool => snd a = false) pre -> Forall (fun a : Z * bool => t0 <= fst a <= t) pre -> t0 <= t <= t0 + T -> StronglySorted (fun a b : Z * bool => fst a <= fst b) (pre ++ [(t, true)]) -> sync_wait T t0 (pre ++ (t, true) :: post) = (t, true) /\ async_wait T t0 (pre ++ (t, true) :: post) = (t, true).
Proof. exact sync_delivers. Qed.

Theorem C18_with_strays :
  forall (k : nat) (T t0 gap : Z), 0 <= gap -> 0 <= T -> fst (sync_wait T t0 (strays k t0 gap)) <= t0 + T /\ fst (async_wait T t0 (strays k t0 gap)) <= t0 + T.
Proof. exact deadline_with_strays. Qed.

Theorem C18_pinned_refuted :
  forall (T t0 : Z) (k : nat), 0 < T -> exists arr : list (Z * bool), Forall (fun a : Z * bool => snd a = false) arr /\ fst (rearming_wait T t0 arr) = t0 + Z.of_nat k * T + T.
Proof. exact rearming_deadline_refuted. Qed.

Theorem C18_pinned_without_strays :
  forall (arr : list (Z * bool)) (T t0 : Z), 0 <= T -> Forall (fun a : Z * bool => snd a = true) arr -> fst (rearming_wait T t0 arr) <= t0 + T.
Proof. exact rearming_deadline_without_strays. Qed.

Check C18_sync_deadline :
  forall (T t0 : Z) (arr : list arrival), 0 <= T -> fst (sync_wait T t0 arr) <= t0 + T.
Check C18_async_deadline :
  forall (T t0 : Z) (arr : list arrival), 0 <= T -> fst (async_wait T t0 arr) <= t0 + T.
Check C18_delivers :
  forall (pre : list (Z * bool)) (T t0 t : Z) (post : list (Z * bool)), Forall (fun a : Z * bool => snd a = false) pre -> Forall (fun a : Z * bool => t0 <= fst a <= t) pre -> t0 <= t <= t0 + T -> StronglySorted (fun a b : Z * bool => fst a <= fst b) (pre ++ [(t, true)]) -> sync_wait T t0 (pre ++ (t, true) :: post) = (t, true) /\ async_wait T t0 (pre ++ (t, true) :: post) = (t, true).
Check C18_with_strays :
  forall (k : nat) (T t0 gap : Z), 0 <= gap -> 0 <= T -> fst (sync_wait T t0 (strays k t0 gap)) <= t0 + T /\ fst (async_wait T t0 (strays k t0 gap)) <= t0 + T.
Check C18_pinned_refuted :
  forall (T t0 : Z) (k : nat), 0 < T -> exists arr : list (Z * bool), Forall (fun a : Z * bool => snd a = false) arr /\ fst (rearming_wait T t0 arr) = t0 + Z.of_nat k * T + T.
Check C18_pinned_without_strays :
  forall (arr : list (Z * bool)) (T t0 : Z), 0 <= T -> Forall (fun a : Z * bool => snd a = true) arr -> fst (rearming_wait T t0 arr) <= t0 + T.
Print Assumptions C18_sync_deadline.
Print Assumptions C18_async_deadline.
Print Assumptions C18_delivers.
Print Assumptions C18_with_strays.
Print Assumptions C18_pinned_refuted.
Print Assumptions C18_pinned_without_strays.

(* C18 - a request never outlives its timeout  (PARTIAL: logical clock; KNOWN FINDING for the sync client).
   Statements only; proofs in Proofs/TimingProofs.v over Model/Timing.v.  The model has a logical clock: what it
   cannot exhibit is scheduler latency, kernel timer granularity and GIL hand-over (measured by ./check C18 with a
   slack).  Async client: one deadline (C18_async_deadline, C18_async_delivers).  Sync client: SO_RCVTIMEO is
   re-armed by every skipped datagram, so the full statement is FALSE (C18_sync_refuted: k strays keep the call
   waiting (k+1) timeouts); it holds when no stray datagram arrives (C18_sync_without_strays).  The finding is listed
   in /verif/known_findings.json. *)
From GS Require Import Model.Base Model.Timing Proofs.TimingProofs.
From Coq Require Import Sorted.

Theorem C18_async_deadline :
  forall (T t0 : Z) (arr : list arrival), 0 <= T -> fst (async_wait (t0 + T) t0 arr) <= t0 + T.
Proof. exact async_deadline. Qed.

Theorem C18_async_delivers :
  forall (pre : list (Z * bool)) (D now t : Z) (post : list (Z * bool)), Forall (fun a : Z * bool => snd a = false) pre -> Forall (fun a : Z * bool => now <= fst a <= t) pre -> now <= t <= D -> StronglySorted (fun a b : Z * bool => fst a <= fst b) (pre ++ [(t, true)]) -> async_wait D now (pre ++ (t, true) :: post) = (t, true).
Proof. exact async_delivers. Qed.

Theorem C18_async_with_strays :
  forall (k : nat) (T t0 gap : Z), 0 <= gap -> 0 <= T -> fst (async_wait (t0 + T) t0 (strays k t0 gap)) <= t0 + T.
Proof. exact async_with_strays. Qed.

Theorem C18_sync_refuted :
  forall (T t0 : Z) (k : nat), 0 < T -> exists arr : list (Z * bool), Forall (fun a : Z * bool => snd a = false) arr /\ fst (sync_wait T t0 arr) = t0 + Z.of_nat k * T + T.
Proof. exact sync_deadline_refuted. Qed.

Theorem C18_sync_without_strays :
  forall (arr : list (Z * bool)) (T t0 : Z), 0 <= T -> Forall (fun a : Z * bool => snd a = true) arr -> fst (sync_wait T t0 arr) <= t0 + T.
Proof. exact sync_deadline_without_strays. Qed.

Theorem C18_sync_bound :
  forall (arr : list arrival) (T now : Z), 0 <= T -> fst (sync_wait T now arr) <= now + T * (Z.of_nat (length arr) + 1).
Proof. exact sync_wait_bound. Qed.

Check C18_async_deadline :
  forall (T t0 : Z) (arr : list arrival), 0 <= T -> fst (async_wait (t0 + T) t0 arr) <= t0 + T.
Check C18_async_delivers :
  forall (pre : list (Z * bool)) (D now t : Z) (post : list (Z * bool)), Forall (fun a : Z * bool => snd a = false) pre -> Forall (fun a : Z * bool => now <= fst a <= t) pre -> now <= t <= D -> StronglySorted (fun a b : Z * bool => fst a <= fst b) (pre ++ [(t, true)]) -> async_wait D now (pre ++ (t, true) :: post) = (t, true).
Check C18_async_with_strays :
  forall (k : nat) (T t0 gap : Z), 0 <= gap -> 0 <= T -> fst (async_wait (t0 + T) t0 (strays k t0 gap)) <= t0 + T.
Check C18_sync_refuted :
  forall (T t0 : Z) (k : nat), 0 < T -> exists arr : list (Z * bool), Forall (fun a : Z * bool => snd a = false) arr /\ fst (sync_wait T t0 arr) = t0 + Z.of_nat k * T + T.
Check C18_sync_without_strays :
  forall (arr : list (Z * bool)) (T t0 : Z), 0 <= T -> Forall (fun a : Z * bool => snd a = true) arr -> fst (sync_wait T t0 arr) <= t0 + T.
Check C18_sync_bound :
  forall (arr : list arrival) (T now : Z), 0 <= T -> fst (sync_wait T now arr) <= now + T * (Z.of_nat (length arr) + 1).
Print Assumptions C18_async_deadline.
Print Assumptions C18_async_delivers.
Print Assumptions C18_async_with_strays.
Print Assumptions C18_sync_refuted.
Print Assumptions C18_sync_without_strays.
Print Assumptions C18_sync_bound.

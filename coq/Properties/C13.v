(* C13 - engine discovery and time sync follow the agent.
   Statements only; proofs in Proofs/V3StateProofs.v over Model/V3.v (socket/v3.rs) and Model/Session.v
   (SnmpSession.__init__ / refresh of both clients, user.py).  [v3_run s evs]: the socket after any history of
   sends, receives and request-id updates. *)
From GS Require Import Model.Base Gen.Constants Model.Ber Model.Pdu Model.Buffer Model.Exc Gen.ErrorMap Model.Ops Model.Auth Model.Priv Model.V3
  Model.Emit Model.Session Spec.X690 Proofs.EncodeProofs Proofs.EmitProofs Proofs.V3StateProofs.

Theorem C13_adopt_once :
  forall (s : v3sock) (m : v3msg) (s' : v3sock) (o : option pdu), v3_unwrap s m = (s', o) -> (engine_id s <> [] -> engine_id s' = engine_id s) /\ (engine_id s = [] -> o = None -> engine_id s' = []) /\ (engine_id s = [] -> o <> None -> engine_id s' = u_engine_id (m_usm m)).
Proof. exact engine_id_adopt_once. Qed.

Theorem C13_engine_id_stable :
  forall (evs : list v3_event) (s : v3sock), engine_id s <> [] -> engine_id (v3_run s evs) = engine_id s.
Proof. exact engine_id_stable. Qed.

Theorem C13_identity_stable :
  forall (evs : list v3_event) (s : v3sock), same_identity s (v3_run s evs).
Proof. exact identity_stable. Qed.

Theorem C13_time_follows :
  forall (evs : list v3_event) (s : v3sock), (engine_boots (v3_run s evs), engine_time (v3_run s evs)) = last_accepted s evs (engine_boots s, engine_time s).
Proof. exact time_follows. Qed.

Theorem C13_time_of_last_accepted :
  forall (pre : list v3_event) (m : v3msg) (post : list v3_event) (s : v3sock), accepted (v3_run s pre) m = true -> none_accepted (v3_run s (pre ++ [EvRecv m])) post -> engine_boots (v3_run s (pre ++ EvRecv m :: post)) = u_engine_boots (m_usm m) /\ engine_time (v3_run s (pre ++ EvRecv m :: post)) = u_engine_time (m_usm m).
Proof. exact time_of_last_accepted. Qed.

Theorem C13_stamp :
  forall (s : v3sock) (p : pdu) (rnd : Z) (s' : v3sock) (dg : bytes), v3_push_pdu s p rnd = (s', Ok dg) -> exists (pp : bytes) (d : msgdata), let m := v3_message s p (next_id rnd) pp d in v3_finish s m = Ok dg /\ m_msg_id m = next_id rnd /\ m_usm m = {| u_engine_id := engine_id s; u_engine_boots := engine_boots s; u_engine_time := engine_time s; u_user_name := user_name s; u_auth_params := placeholder (ak_alg (auth s)); u_privacy_params := pp |} /\ m_flag_auth m = has_auth (ak_alg (auth s)) /\ m_flag_priv m = has_priv (pk_alg (privk s)) /\ m_flag_report m = is_probe p /\ m_data m = d /\ (if has_priv (pk_alg (privk s)) then exists (k' : priv_key) (ct : bytes), priv_encrypt (privk s) {| s_engine_id := engine_id s; s_pdu := p |} (engine_boots s) (engine_time s) = (k', Ok (ct, pp)) /\ d = Encrypted ct /\ s' = with_priv_msgid s k' (next_id rnd) else pp = [] /\ d = Plaintext {| s_engine_id := engine_id s; s_pdu := p |} /\ s' = with_priv_msgid s (privk s) (next_id rnd)).
Proof. exact stamp. Qed.

Theorem C13_stamp_decodes_back :
  forall (s : v3sock) (p : pdu) (rnd : Z) (s' : v3sock) (dg : bytes), has_auth (ak_alg (auth s)) = false -> has_priv (pk_alg (privk s)) = false -> IntEncProofs.in_range (engine_boots s) -> IntEncProofs.in_range (engine_time s) -> (forall r : req, req_of_pdu p = Some r -> req_ok r) -> v3_push_pdu s p rnd = (s', Ok dg) -> exists r : req, req_of_pdu p = Some r /\ dg = enc_v3_of (v3_message s p (next_id rnd) [] (Plaintext {| s_engine_id := engine_id s; s_pdu := p |})) (enc_scoped (engine_id s) r) /\ dg = enc_v3 (next_id rnd) V3_MAX_SIZE (if is_probe p then 4 else 0) (v3_plain_usm s) (enc_scoped (engine_id s) r) /\ v3_decode dg = Ok {| m_msg_id := next_id rnd; m_flag_auth := false; m_flag_priv := false; m_flag_report := is_probe p; m_usm := {| u_engine_id := engine_id s; u_engine_boots := engine_boots s; u_engine_time := engine_time s; u_user_name := user_name s; u_auth_params := []; u_privacy_params := [] |}; m_data := Plaintext {| s_engine_id := engine_id s; s_pdu := p |} |} /\ s' = with_priv_msgid s (privk s) (next_id rnd).
Proof. exact stamp_noauth. Qed.

Theorem C13_relocalize :
  forall (s : v3sock) (user : bytes) (aalg : Z) (akey : bytes) (palg : Z) (pkey : bytes) (seed : Z) (s' : v3sock), v3_set_keys s user aalg akey palg pkey seed = Ok s' -> engine_id s' = engine_id s /\ engine_boots s' = engine_boots s /\ engine_time s' = engine_time s /\ user_name s' = user /\ msg_id s' = msg_id s /\ request_id s' = request_id s /\ install_keys aalg akey palg pkey (engine_id s) seed = Ok (auth s', privk s').
Proof. exact relocalize. Qed.

Theorem C13_session_new_discover :
  forall (u : user) (seed : Z), session_new [] u seed = Ok {| ps_sock := default_sock; ps_to_refresh := true; ps_deferred := Some u |}.
Proof. exact session_new_discover. Qed.

Theorem C13_session_new_given :
  forall (e : list Z) (u : user) (seed : Z) (ps : pysession), e <> [] -> session_new e u seed = Ok ps -> engine_id (ps_sock ps) = e /\ user_name (ps_sock ps) = usr_name u /\ engine_boots (ps_sock ps) = 0 /\ engine_time (ps_sock ps) = 0 /\ ps_deferred ps = None /\ ps_to_refresh ps = require_auth u /\ install_keys (user_auth_alg u) (user_auth_key u) (user_priv_alg u) (user_priv_key u) e seed = Ok (auth (ps_sock ps), privk (ps_sock ps)).
Proof. exact session_new_given. Qed.

Theorem C13_refresh_noop :
  forall (ps : pysession) (io1 io2 : probe_io) (seed : Z), ps_to_refresh ps = false -> py_refresh ps io1 io2 seed = {| rr_session := ps; rr_sent := []; rr_raised := None; rr_crashed := false |}.
Proof. exact refresh_noop. Qed.

Theorem C13_refresh_discovery :
  forall (ps : pysession) (io1 io2 : probe_io) (seed : Z) (u : user) (r : refresh_result), ps_to_refresh ps = true -> ps_deferred ps = Some u -> engine_id (ps_sock ps) = [] -> py_refresh ps io1 io2 seed = r -> rr_crashed r = false -> rr_raised r = None -> exists (d1 d2 : bytes) (m1 m2 : v3msg) (sA sB sC : v3sock) (a : auth_key) (k : priv_key), rr_sent r = [d1; d2] /\ probe_accepts (ps_sock ps) io1 d1 m1 sA /\ engine_id sA = u_engine_id (m_usm m1) /\ install_keys (user_auth_alg u) (user_auth_key u) (user_priv_alg u) (user_priv_key u) (u_engine_id (m_usm m1)) seed = Ok (a, k) /\ sB = {| engine_id := u_engine_id (m_usm m1); engine_boots := u_engine_boots (m_usm m1); engine_time := u_engine_time (m_usm m1); user_name := usr_name u; auth := a; privk := k; msg_id := next_id (io_rnd_msg io1); request_id := next_id (io_rnd_req io1) |} /\ probe_accepts sB io2 d2 m2 sC /\ rr_session r = {| ps_sock := sC; ps_to_refresh := require_auth u; ps_deferred := None |} /\ engine_id sC = match u_engine_id (m_usm m1) with | [] => u_engine_id (m_usm m2) | _ :: _ => u_engine_id (m_usm m1) end /\ user_name sC = usr_name u /\ auth sC = a /\ pk_alg (privk sC) = pk_alg k /\ pk_key (privk sC) = pk_key k /\ pk_pre_iv (privk sC) = pk_pre_iv k /\ engine_boots sC = u_engine_boots (m_usm m2) /\ engine_time sC = u_engine_time (m_usm m2).
Proof. exact refresh_discovery. Qed.

Theorem C13_refresh_timesync :
  forall (ps : pysession) (io1 io2 : probe_io) (seed : Z) (r : refresh_result), ps_to_refresh ps = true -> ps_deferred ps = None -> py_refresh ps io1 io2 seed = r -> rr_crashed r = false -> rr_raised r = None -> exists (d : bytes) (m : v3msg) (sC : v3sock), rr_sent r = [d] /\ probe_accepts (ps_sock ps) io2 d m sC /\ rr_session r = {| ps_sock := sC; ps_to_refresh := true; ps_deferred := None |} /\ engine_boots sC = u_engine_boots (m_usm m) /\ engine_time sC = u_engine_time (m_usm m) /\ (engine_id (ps_sock ps) <> [] -> engine_id sC = engine_id (ps_sock ps)).
Proof. exact refresh_timesync. Qed.

Check C13_adopt_once :
  forall (s : v3sock) (m : v3msg) (s' : v3sock) (o : option pdu), v3_unwrap s m = (s', o) -> (engine_id s <> [] -> engine_id s' = engine_id s) /\ (engine_id s = [] -> o = None -> engine_id s' = []) /\ (engine_id s = [] -> o <> None -> engine_id s' = u_engine_id (m_usm m)).
Check C13_engine_id_stable :
  forall (evs : list v3_event) (s : v3sock), engine_id s <> [] -> engine_id (v3_run s evs) = engine_id s.
Check C13_identity_stable :
  forall (evs : list v3_event) (s : v3sock), same_identity s (v3_run s evs).
Check C13_time_follows :
  forall (evs : list v3_event) (s : v3sock), (engine_boots (v3_run s evs), engine_time (v3_run s evs)) = last_accepted s evs (engine_boots s, engine_time s).
Check C13_time_of_last_accepted :
  forall (pre : list v3_event) (m : v3msg) (post : list v3_event) (s : v3sock), accepted (v3_run s pre) m = true -> none_accepted (v3_run s (pre ++ [EvRecv m])) post -> engine_boots (v3_run s (pre ++ EvRecv m :: post)) = u_engine_boots (m_usm m) /\ engine_time (v3_run s (pre ++ EvRecv m :: post)) = u_engine_time (m_usm m).
Check C13_stamp :
  forall (s : v3sock) (p : pdu) (rnd : Z) (s' : v3sock) (dg : bytes), v3_push_pdu s p rnd = (s', Ok dg) -> exists (pp : bytes) (d : msgdata), let m := v3_message s p (next_id rnd) pp d in v3_finish s m = Ok dg /\ m_msg_id m = next_id rnd /\ m_usm m = {| u_engine_id := engine_id s; u_engine_boots := engine_boots s; u_engine_time := engine_time s; u_user_name := user_name s; u_auth_params := placeholder (ak_alg (auth s)); u_privacy_params := pp |} /\ m_flag_auth m = has_auth (ak_alg (auth s)) /\ m_flag_priv m = has_priv (pk_alg (privk s)) /\ m_flag_report m = is_probe p /\ m_data m = d /\ (if has_priv (pk_alg (privk s)) then exists (k' : priv_key) (ct : bytes), priv_encrypt (privk s) {| s_engine_id := engine_id s; s_pdu := p |} (engine_boots s) (engine_time s) = (k', Ok (ct, pp)) /\ d = Encrypted ct /\ s' = with_priv_msgid s k' (next_id rnd) else pp = [] /\ d = Plaintext {| s_engine_id := engine_id s; s_pdu := p |} /\ s' = with_priv_msgid s (privk s) (next_id rnd)).
Check C13_stamp_decodes_back :
  forall (s : v3sock) (p : pdu) (rnd : Z) (s' : v3sock) (dg : bytes), has_auth (ak_alg (auth s)) = false -> has_priv (pk_alg (privk s)) = false -> IntEncProofs.in_range (engine_boots s) -> IntEncProofs.in_range (engine_time s) -> (forall r : req, req_of_pdu p = Some r -> req_ok r) -> v3_push_pdu s p rnd = (s', Ok dg) -> exists r : req, req_of_pdu p = Some r /\ dg = enc_v3_of (v3_message s p (next_id rnd) [] (Plaintext {| s_engine_id := engine_id s; s_pdu := p |})) (enc_scoped (engine_id s) r) /\ dg = enc_v3 (next_id rnd) V3_MAX_SIZE (if is_probe p then 4 else 0) (v3_plain_usm s) (enc_scoped (engine_id s) r) /\ v3_decode dg = Ok {| m_msg_id := next_id rnd; m_flag_auth := false; m_flag_priv := false; m_flag_report := is_probe p; m_usm := {| u_engine_id := engine_id s; u_engine_boots := engine_boots s; u_engine_time := engine_time s; u_user_name := user_name s; u_auth_params := []; u_privacy_params := [] |}; m_data := Plaintext {| s_engine_id := engine_id s; s_pdu := p |} |} /\ s' = with_priv_msgid s (privk s) (next_id rnd).
Check C13_relocalize :
  forall (s : v3sock) (user : bytes) (aalg : Z) (akey : bytes) (palg : Z) (pkey : bytes) (seed : Z) (s' : v3sock), v3_set_keys s user aalg akey palg pkey seed = Ok s' -> engine_id s' = engine_id s /\ engine_boots s' = engine_boots s /\ engine_time s' = engine_time s /\ user_name s' = user /\ msg_id s' = msg_id s /\ request_id s' = request_id s /\ install_keys aalg akey palg pkey (engine_id s) seed = Ok (auth s', privk s').
Check C13_session_new_discover :
  forall (u : user) (seed : Z), session_new [] u seed = Ok {| ps_sock := default_sock; ps_to_refresh := true; ps_deferred := Some u |}.
Check C13_session_new_given :
  forall (e : list Z) (u : user) (seed : Z) (ps : pysession), e <> [] -> session_new e u seed = Ok ps -> engine_id (ps_sock ps) = e /\ user_name (ps_sock ps) = usr_name u /\ engine_boots (ps_sock ps) = 0 /\ engine_time (ps_sock ps) = 0 /\ ps_deferred ps = None /\ ps_to_refresh ps = require_auth u /\ install_keys (user_auth_alg u) (user_auth_key u) (user_priv_alg u) (user_priv_key u) e seed = Ok (auth (ps_sock ps), privk (ps_sock ps)).
Check C13_refresh_noop :
  forall (ps : pysession) (io1 io2 : probe_io) (seed : Z), ps_to_refresh ps = false -> py_refresh ps io1 io2 seed = {| rr_session := ps; rr_sent := []; rr_raised := None; rr_crashed := false |}.
Check C13_refresh_discovery :
  forall (ps : pysession) (io1 io2 : probe_io) (seed : Z) (u : user) (r : refresh_result), ps_to_refresh ps = true -> ps_deferred ps = Some u -> engine_id (ps_sock ps) = [] -> py_refresh ps io1 io2 seed = r -> rr_crashed r = false -> rr_raised r = None -> exists (d1 d2 : bytes) (m1 m2 : v3msg) (sA sB sC : v3sock) (a : auth_key) (k : priv_key), rr_sent r = [d1; d2] /\ probe_accepts (ps_sock ps) io1 d1 m1 sA /\ engine_id sA = u_engine_id (m_usm m1) /\ install_keys (user_auth_alg u) (user_auth_key u) (user_priv_alg u) (user_priv_key u) (u_engine_id (m_usm m1)) seed = Ok (a, k) /\ sB = {| engine_id := u_engine_id (m_usm m1); engine_boots := u_engine_boots (m_usm m1); engine_time := u_engine_time (m_usm m1); user_name := usr_name u; auth := a; privk := k; msg_id := next_id (io_rnd_msg io1); request_id := next_id (io_rnd_req io1) |} /\ probe_accepts sB io2 d2 m2 sC /\ rr_session r = {| ps_sock := sC; ps_to_refresh := require_auth u; ps_deferred := None |} /\ engine_id sC = match u_engine_id (m_usm m1) with | [] => u_engine_id (m_usm m2) | _ :: _ => u_engine_id (m_usm m1) end /\ user_name sC = usr_name u /\ auth sC = a /\ pk_alg (privk sC) = pk_alg k /\ pk_key (privk sC) = pk_key k /\ pk_pre_iv (privk sC) = pk_pre_iv k /\ engine_boots sC = u_engine_boots (m_usm m2) /\ engine_time sC = u_engine_time (m_usm m2).
Check C13_refresh_timesync :
  forall (ps : pysession) (io1 io2 : probe_io) (seed : Z) (r : refresh_result), ps_to_refresh ps = true -> ps_deferred ps = None -> py_refresh ps io1 io2 seed = r -> rr_crashed r = false -> rr_raised r = None -> exists (d : bytes) (m : v3msg) (sC : v3sock), rr_sent r = [d] /\ probe_accepts (ps_sock ps) io2 d m sC /\ rr_session r = {| ps_sock := sC; ps_to_refresh := true; ps_deferred := None |} /\ engine_boots sC = u_engine_boots (m_usm m) /\ engine_time sC = u_engine_time (m_usm m) /\ (engine_id (ps_sock ps) <> [] -> engine_id sC = engine_id (ps_sock ps)).
Print Assumptions C13_adopt_once.
Print Assumptions C13_engine_id_stable.
Print Assumptions C13_identity_stable.
Print Assumptions C13_time_follows.
Print Assumptions C13_time_of_last_accepted.
Print Assumptions C13_stamp.
Print Assumptions C13_stamp_decodes_back.
Print Assumptions C13_relocalize.
Print Assumptions C13_session_new_discover.
Print Assumptions C13_session_new_given.
Print Assumptions C13_refresh_noop.
Print Assumptions C13_refresh_discovery.
Print Assumptions C13_refresh_timesync.

(* the deferred user's keys are refused by the socket after the engine id was learned: the session stays to be refreshed *)
Theorem C13_refresh_refused_keys :
  forall (ps : pysession) (io1 io2 : probe_io) (seed : Z) (u : user) (s : v3sock) (d : bytes) (e : err), ps_to_refresh ps = true -> ps_deferred ps = Some u -> sock_refresh (ps_sock ps) io1 = StepOk s d -> v3_set_keys_st s (usr_name u) (user_auth_alg u) (user_auth_key u) (user_priv_alg u) (user_priv_key u) seed = (with_user s (usr_name u), Err e) -> py_refresh ps io1 io2 seed = {| rr_session := {| ps_sock := with_user s (usr_name u); ps_to_refresh := true; ps_deferred := Some u |}; rr_sent := [d]; rr_raised := Some (err_to_exc e); rr_crashed := false |} /\ auth (with_user s (usr_name u)) = auth s /\ privk (with_user s (usr_name u)) = privk s /\ engine_id (with_user s (usr_name u)) = engine_id s.
Proof. exact refresh_discovery_refused_keys. Qed.
Check C13_refresh_refused_keys :
  forall (ps : pysession) (io1 io2 : probe_io) (seed : Z) (u : user) (s : v3sock) (d : bytes) (e : err), ps_to_refresh ps = true -> ps_deferred ps = Some u -> sock_refresh (ps_sock ps) io1 = StepOk s d -> v3_set_keys_st s (usr_name u) (user_auth_alg u) (user_auth_key u) (user_priv_alg u) (user_priv_key u) seed = (with_user s (usr_name u), Err e) -> py_refresh ps io1 io2 seed = {| rr_session := {| ps_sock := with_user s (usr_name u); ps_to_refresh := true; ps_deferred := Some u |}; rr_sent := [d]; rr_raised := Some (err_to_exc e); rr_crashed := false |} /\ auth (with_user s (usr_name u)) = auth s /\ privk (with_user s (usr_name u)) = privk s /\ engine_id (with_user s (usr_name u)) = engine_id s.
Print Assumptions C13_refresh_refused_keys.

(* C04 - only the reply to the outstanding request is ever delivered (community sessions; the v3 socket is covered
   by the acceptance theorems of C10).  Statements only; proofs in Proofs/OpsProofs.v over Model/Ops.v
   (c_unwrap = unwrap_pdu of socket/v1.rs, v2c.rs; c_recv_loop = _recv_inner of snmpsocket.rs run on the list of
   datagrams that arrive before the timeout, in arrival order - any loss, duplication, delay or reordering is some
   such list).  [skippable d]: d decodes as the session's version but fails the community / request-id test. *)
From GS Require Import Model.Base Gen.Constants Model.Ber Model.Pdu Model.Exc Gen.ErrorMap Model.Ops
  Proofs.OpsLemmas Proofs.OpsProofs.

Theorem C04_unwrap :
  forall (comm : bytes) (rid : Z) (m : cmsg) (p : pdu), c_unwrap comm rid m = Some p -> p = cm_pdu m /\ cm_community m = comm /\ (pdu_request_id p = Some rid \/ (exists raw : bytes, p = PReport raw)).
Proof. exact c_unwrap_some. Qed.

Theorem C04_delivered :
  forall (ver : Z) (comm : bytes) (rid : Z) (ds : list bytes) (p : pdu) (rest : list bytes), c_recv_loop ver comm rid ds = Delivered p rest -> exists (pre : list bytes) (d : bytes), ds = pre ++ d :: rest /\ Forall (skippable ver comm rid) pre /\ acceptable ver comm rid d p.
Proof. exact c_recv_loop_delivered. Qed.

Theorem C04_skip_continues :
  forall (ver : Z) (comm : bytes) (rid : Z) (pre ds : list bytes), Forall (skippable ver comm rid) pre -> c_recv_loop ver comm rid (pre ++ ds) = c_recv_loop ver comm rid ds.
Proof. exact c_recv_loop_skips. Qed.

Theorem C04_later_reply_delivered :
  forall (ver : Z) (comm : bytes) (rid : Z) (pre : list bytes) (d : bytes) (p : pdu) (rest : list bytes), Forall (skippable ver comm rid) pre -> acceptable ver comm rid d p -> c_recv_loop ver comm rid (pre ++ d :: rest) = Delivered p rest.
Proof. exact c_recv_loop_later_reply. Qed.

Theorem C04_decode_error_ends_call :
  forall (ver : Z) (comm : bytes) (rid : Z) (ds : list bytes) (e : exc) (rest : list bytes), c_recv_loop ver comm rid ds = Failed e rest -> exists (pre : list bytes) (d : bytes) (er : err), ds = pre ++ d :: rest /\ Forall (skippable ver comm rid) pre /\ cmsg_decode ver d = Err er /\ e = err_to_exc er /\ e = EDecode.
Proof. exact c_recv_loop_failed. Qed.

Theorem C04_timeout :
  forall (ver : Z) (comm : bytes) (rid : Z) (ds : list bytes), c_recv_loop ver comm rid ds = TimedOut <-> Forall (skippable ver comm rid) ds.
Proof. exact c_recv_loop_timeout. Qed.

Theorem C04_never_wrong_request :
  forall (ver : Z) (comm : bytes) (rid : Z) (ds : list bytes) (r : getresponse) (rest : list bytes), c_recv_loop ver comm rid ds = Delivered (PGetResponse r) rest -> gr_request_id r = rid.
Proof. exact Proofs.OpsProofs.C04_never_wrong_request. Qed.

Theorem C04_never_wrong_community :
  forall (ver : Z) (comm : bytes) (rid : Z) (ds : list bytes) (p : pdu) (rest : list bytes), c_recv_loop ver comm rid ds = Delivered p rest -> exists (pre : list bytes) (d : bytes) (m : cmsg), ds = pre ++ d :: rest /\ cmsg_decode ver d = Ok m /\ cm_community m = comm /\ cm_pdu m = p.
Proof. exact Proofs.OpsProofs.C04_never_wrong_community. Qed.

Check C04_unwrap :
  forall (comm : bytes) (rid : Z) (m : cmsg) (p : pdu), c_unwrap comm rid m = Some p -> p = cm_pdu m /\ cm_community m = comm /\ (pdu_request_id p = Some rid \/ (exists raw : bytes, p = PReport raw)).
Check C04_delivered :
  forall (ver : Z) (comm : bytes) (rid : Z) (ds : list bytes) (p : pdu) (rest : list bytes), c_recv_loop ver comm rid ds = Delivered p rest -> exists (pre : list bytes) (d : bytes), ds = pre ++ d :: rest /\ Forall (skippable ver comm rid) pre /\ acceptable ver comm rid d p.
Check C04_skip_continues :
  forall (ver : Z) (comm : bytes) (rid : Z) (pre ds : list bytes), Forall (skippable ver comm rid) pre -> c_recv_loop ver comm rid (pre ++ ds) = c_recv_loop ver comm rid ds.
Check C04_later_reply_delivered :
  forall (ver : Z) (comm : bytes) (rid : Z) (pre : list bytes) (d : bytes) (p : pdu) (rest : list bytes), Forall (skippable ver comm rid) pre -> acceptable ver comm rid d p -> c_recv_loop ver comm rid (pre ++ d :: rest) = Delivered p rest.
Check C04_decode_error_ends_call :
  forall (ver : Z) (comm : bytes) (rid : Z) (ds : list bytes) (e : exc) (rest : list bytes), c_recv_loop ver comm rid ds = Failed e rest -> exists (pre : list bytes) (d : bytes) (er : err), ds = pre ++ d :: rest /\ Forall (skippable ver comm rid) pre /\ cmsg_decode ver d = Err er /\ e = err_to_exc er /\ e = EDecode.
Check C04_timeout :
  forall (ver : Z) (comm : bytes) (rid : Z) (ds : list bytes), c_recv_loop ver comm rid ds = TimedOut <-> Forall (skippable ver comm rid) ds.
Check C04_never_wrong_request :
  forall (ver : Z) (comm : bytes) (rid : Z) (ds : list bytes) (r : getresponse) (rest : list bytes), c_recv_loop ver comm rid ds = Delivered (PGetResponse r) rest -> gr_request_id r = rid.
Check C04_never_wrong_community :
  forall (ver : Z) (comm : bytes) (rid : Z) (ds : list bytes) (p : pdu) (rest : list bytes), c_recv_loop ver comm rid ds = Delivered p rest -> exists (pre : list bytes) (d : bytes) (m : cmsg), ds = pre ++ d :: rest /\ cmsg_decode ver d = Ok m /\ cm_community m = comm /\ cm_pdu m = p.
Print Assumptions C04_unwrap.
Print Assumptions C04_delivered.
Print Assumptions C04_skip_continues.
Print Assumptions C04_later_reply_delivered.
Print Assumptions C04_decode_error_ends_call.
Print Assumptions C04_timeout.
Print Assumptions C04_never_wrong_request.
Print Assumptions C04_never_wrong_community.

(* C07 - get / get_many results and SNMP exceptions map as documented.
   Statements only; proofs in Proofs/OpsProofs.v over Model/Ops.v (model of src/snmp/op/get.rs, getmany.rs and
   IntoPyObject for SnmpValue) and the generated Gen/ErrorMap.v (src/error.rs, regenerated on every run). *)
From GS Require Import Model.Base Gen.Constants Model.Ber Model.Pdu Model.OidText Model.Exc Gen.ErrorMap Model.Ops
  Proofs.OpsLemmas Proofs.OpsProofs.

Theorem C07_get :
  forall p : pdu, match p with | PGetResponse r => match gr_vars r with | [] => get_to_python p = Return PvNone | [vb] => match vb_value vb with | VBool b => get_to_python p = Return (PvBool b) | VNull => get_to_python p = Return PvNone | VOid o => match text_of_oid o with | Ok t => get_to_python p = Return (PvStr t) | Err _ => get_to_python p = Raise EDecode | Panic => False end | VReal x => get_to_python p = Return (PvFloat x) | VIpAddress a b c d => get_to_python p = Return (PvStr (ip_text a b c d)) | VOctetString b | VObjectDescriptor b | VOpaque b => get_to_python p = Return (PvBytes b) | VInt z | VCounter32 z | VGauge32 z | VTimeTicks z | VCounter64 z | VUInteger32 z => get_to_python p = Return (PvInt z) | _ => get_to_python p = Raise ENoSuchInstance /\ is_snmp_error ENoSuchInstance end | vb :: _ :: _ => get_to_python p = Raise (err_to_exc InvalidPdu) /\ get_to_python p = Raise EDecode /\ is_snmp_error EDecode end | PReport _ => get_to_python p = Raise EAuth /\ is_snmp_error EAuth | _ => get_to_python p = Raise EDecode /\ is_snmp_error EDecode end.
Proof. exact get_decision_table. Qed.

Theorem C07_get_raises_only_snmp_errors :
  forall (p : pdu) (e : exc), get_to_python p = Raise e -> is_snmp_error e.
Proof. exact get_raises_only_snmp_errors. Qed.

Theorem C07_get_two_or_more :
  forall (r : getresponse) (vb1 vb2 : varbind) (rest : list varbind), gr_vars r = vb1 :: vb2 :: rest -> get_to_python (PGetResponse r) = Raise (err_to_exc InvalidPdu) /\ get_to_python (PGetResponse r) = Raise EDecode.
Proof. exact get_many_varbinds. Qed.

Theorem C07_get_report :
  forall raw : bytes, get_to_python (PReport raw) = Raise EAuth.
Proof. exact get_report. Qed.

Theorem C07_value_conversion :
  forall v : value, is_data_value v = true -> match v with | VBool b => value_to_py v = Ok (PvBool b) | VOid o => (forall t : bytes, text_of_oid o = Ok t -> value_to_py v = Ok (PvStr t)) /\ (o = [] -> value_to_py v = Err InvalidData) | VReal r => value_to_py v = Ok (PvFloat r) | VIpAddress a b c d => value_to_py v = Ok (PvStr (ip_text a b c d)) | VOctetString b | VObjectDescriptor b | VOpaque b => value_to_py v = Ok (PvBytes b) | VInt z | VCounter32 z | VGauge32 z | VTimeTicks z | VCounter64 z | VUInteger32 z => value_to_py v = Ok (PvInt z) | _ => False end.
Proof. exact value_to_py_table. Qed.

Theorem C07_getmany :
  forall (r : getresponse) (l : list (bytes * pv)), Forall2 converts_to (data_vars (gr_vars r)) l -> exists d : list (bytes * pv), getmany_to_python (PGetResponse r) = Return d /\ NoDup (map fst d) /\ (forall k : bytes, dict_lookup d k = last_binding l k) /\ (forall k : bytes, dict_lookup d k = fold_bindings l k).
Proof. exact getmany_spec. Qed.

Theorem C07_getmany_ignores_non_data :
  forall r r' : getresponse, data_vars (gr_vars r) = data_vars (gr_vars r') -> getmany_to_python (PGetResponse r) = getmany_to_python (PGetResponse r').
Proof. exact getmany_ignores_non_data. Qed.

Theorem C07_getmany_report :
  forall raw : bytes, getmany_to_python (PReport raw) = Raise EAuth.
Proof. exact getmany_report. Qed.

Theorem C07_error_family :
  is_snmp_error (err_to_exc InvalidPdu) /\ is_snmp_error (err_to_exc NoSuchInstance) /\ is_snmp_error (err_to_exc AuthenticationFailed).
Proof. exact error_map_family. Qed.

Check C07_get :
  forall p : pdu, match p with | PGetResponse r => match gr_vars r with | [] => get_to_python p = Return PvNone | [vb] => match vb_value vb with | VBool b => get_to_python p = Return (PvBool b) | VNull => get_to_python p = Return PvNone | VOid o => match text_of_oid o with | Ok t => get_to_python p = Return (PvStr t) | Err _ => get_to_python p = Raise EDecode | Panic => False end | VReal x => get_to_python p = Return (PvFloat x) | VIpAddress a b c d => get_to_python p = Return (PvStr (ip_text a b c d)) | VOctetString b | VObjectDescriptor b | VOpaque b => get_to_python p = Return (PvBytes b) | VInt z | VCounter32 z | VGauge32 z | VTimeTicks z | VCounter64 z | VUInteger32 z => get_to_python p = Return (PvInt z) | _ => get_to_python p = Raise ENoSuchInstance /\ is_snmp_error ENoSuchInstance end | vb :: _ :: _ => get_to_python p = Raise (err_to_exc InvalidPdu) /\ get_to_python p = Raise EDecode /\ is_snmp_error EDecode end | PReport _ => get_to_python p = Raise EAuth /\ is_snmp_error EAuth | _ => get_to_python p = Raise EDecode /\ is_snmp_error EDecode end.
Check C07_get_raises_only_snmp_errors :
  forall (p : pdu) (e : exc), get_to_python p = Raise e -> is_snmp_error e.
Check C07_get_two_or_more :
  forall (r : getresponse) (vb1 vb2 : varbind) (rest : list varbind), gr_vars r = vb1 :: vb2 :: rest -> get_to_python (PGetResponse r) = Raise (err_to_exc InvalidPdu) /\ get_to_python (PGetResponse r) = Raise EDecode.
Check C07_get_report :
  forall raw : bytes, get_to_python (PReport raw) = Raise EAuth.
Check C07_value_conversion :
  forall v : value, is_data_value v = true -> match v with | VBool b => value_to_py v = Ok (PvBool b) | VOid o => (forall t : bytes, text_of_oid o = Ok t -> value_to_py v = Ok (PvStr t)) /\ (o = [] -> value_to_py v = Err InvalidData) | VReal r => value_to_py v = Ok (PvFloat r) | VIpAddress a b c d => value_to_py v = Ok (PvStr (ip_text a b c d)) | VOctetString b | VObjectDescriptor b | VOpaque b => value_to_py v = Ok (PvBytes b) | VInt z | VCounter32 z | VGauge32 z | VTimeTicks z | VCounter64 z | VUInteger32 z => value_to_py v = Ok (PvInt z) | _ => False end.
Check C07_getmany :
  forall (r : getresponse) (l : list (bytes * pv)), Forall2 converts_to (data_vars (gr_vars r)) l -> exists d : list (bytes * pv), getmany_to_python (PGetResponse r) = Return d /\ NoDup (map fst d) /\ (forall k : bytes, dict_lookup d k = last_binding l k) /\ (forall k : bytes, dict_lookup d k = fold_bindings l k).
Check C07_getmany_ignores_non_data :
  forall r r' : getresponse, data_vars (gr_vars r) = data_vars (gr_vars r') -> getmany_to_python (PGetResponse r) = getmany_to_python (PGetResponse r').
Check C07_getmany_report :
  forall raw : bytes, getmany_to_python (PReport raw) = Raise EAuth.
Check C07_error_family :
  is_snmp_error (err_to_exc InvalidPdu) /\ is_snmp_error (err_to_exc NoSuchInstance) /\ is_snmp_error (err_to_exc AuthenticationFailed).
Print Assumptions C07_get.
Print Assumptions C07_get_raises_only_snmp_errors.
Print Assumptions C07_get_two_or_more.
Print Assumptions C07_get_report.
Print Assumptions C07_value_conversion.
Print Assumptions C07_getmany.
Print Assumptions C07_getmany_ignores_non_data.
Print Assumptions C07_getmany_report.
Print Assumptions C07_error_family.

(* --- the Python layer (Model/PyLayer.v) hands get / get_many's result or exception through unchanged (BlockingIOError
   becomes TimeoutError in the blocking client; in the asyncio client "nothing yet" is retried and the timer gives TimeoutError) *)
From GS Require Import Model.Base Model.Exc Model.Walk Model.PyLayer Proofs.PyLayerProofs.
Theorem C07_python_sync_passthrough :
  forall (cfg : pycfg) (fuel : nat) (a : api) (t : tok) (r : list tok), pc_mode cfg = Sync -> match a with | ApiGet _ | ApiGetMany _ => True | _ => False end -> r_end (run_api cfg fuel a (t :: r)) = remap_sync false t /\ r_rest (run_api cfg fuel a (t :: r)) = r.
Proof. exact sync_single_passthrough. Qed.

Theorem C07_python_async_passthrough :
  forall (cfg : pycfg) (fuel : nat) (a : api) (s0 : sval) (t : tok) (r : list tok), pc_mode cfg = Async -> match a with | ApiGet _ | ApiGetMany _ => True | _ => False end -> t <> TRaise EBlockingIO -> r_end (run_api cfg fuel a (TRet s0 :: t :: r)) = recv_out t /\ r_rest (run_api cfg fuel a (TRet s0 :: t :: r)) = r.
Proof. exact async_single_passthrough. Qed.

Check C07_python_sync_passthrough :
  forall (cfg : pycfg) (fuel : nat) (a : api) (t : tok) (r : list tok), pc_mode cfg = Sync -> match a with | ApiGet _ | ApiGetMany _ => True | _ => False end -> r_end (run_api cfg fuel a (t :: r)) = remap_sync false t /\ r_rest (run_api cfg fuel a (t :: r)) = r.
Check C07_python_async_passthrough :
  forall (cfg : pycfg) (fuel : nat) (a : api) (s0 : sval) (t : tok) (r : list tok), pc_mode cfg = Async -> match a with | ApiGet _ | ApiGetMany _ => True | _ => False end -> t <> TRaise EBlockingIO -> r_end (run_api cfg fuel a (TRet s0 :: t :: r)) = recv_out t /\ r_rest (run_api cfg fuel a (TRet s0 :: t :: r)) = r.
Print Assumptions C07_python_sync_passthrough.
Print Assumptions C07_python_async_passthrough.

(* C17 - oversized requests fail cleanly; buffer code stays in bounds.
   Statements only; proofs in Proofs/BufferProofs.v and Proofs/EncodeProofs.v over Model/Buffer.v (model of
   src/buf/buffer.rs and every push_ber; tied to the code by the `buf`, `emit*` correspondences of ./check C17
   and by the API-level sweep across 4080 octets).  The buffer is modelled by its occupied region; cells that
   [skip] exposes without writing are the POISON value, so "only written octets are exposed" is [wfb]. *)
From GS Require Import Model.Base Gen.Constants Model.Pdu Model.Buffer Spec.X690 Proofs.BufferProofs Proofs.EncodeProofs.

(* every sequence of push / push_u8 / push_tag_len / push_tagged / skip / reset / set_bookmark keeps the write
   position inside the array: no read or write outside the buffer is possible *)
Theorem C17_in_bounds : forall ops,
  Inv (fold_left bstep ops empty_buffer) /\ 0 <= pos (fold_left bstep ops empty_buffer) <= BUF_MAX_SIZE.
Proof. exact buffer_inv_all. Qed.

(* correct short / 0x81 / 0x82 length forms *)
Theorem C17_lengths : forall b tag v, Inv b -> 0 <= v < 65536 -> 0 <= tag ->
  push_tag_len b tag v = emits b (tag :: enc_len v) (bookmark b).
Proof. exact push_tag_len_emits. Qed.

(* a community request that does not fit gives exactly OutOfBuffer, one that fits is produced complete *)
Theorem C17_oob_iff_community : forall ver m r, 0 <= ver < 128 -> req_of_pdu (cm_pdu m) = Some r -> req_ok r ->
  (push_cmsg ver empty_buffer m = Err OutOfBuffer <-> BUF_MAX_SIZE < len (enc_cmsg ver (cm_community m) r)) /\
  (len (enc_cmsg ver (cm_community m) r) <= BUF_MAX_SIZE ->
   push_cmsg ver empty_buffer m = Ok {| data := enc_cmsg ver (cm_community m) r; bookmark := 0 |}).
Proof. exact push_cmsg_out_of_buffer. Qed.

Theorem C17_oob_iff_v3 : forall m D, v3_ok m -> msgdata_spec (m_data m) D ->
  (push_v3 empty_buffer m = Err OutOfBuffer <-> BUF_MAX_SIZE < len (enc_v3_of m D)) /\
  (len (enc_v3_of m D) <= BUF_MAX_SIZE ->
   push_v3 empty_buffer m = Ok {| data := enc_v3_of m D; bookmark := v3_bookmark empty_buffer m D |}).
Proof. exact push_v3_out_of_buffer. Qed.

(* only written octets are exposed: pushes keep the data well formed, skip is the one operation that
   exposes unwritten cells (at most the free space), reset exposes nothing *)
Theorem C17_push_written : forall b c b', push b c = Ok b' -> wfb c -> wfb (data b) -> wfb (data b').
Proof. exact push_wfb. Qed.
Theorem C17_push_tagged_written : forall b tag d b', push_tagged b tag d = Ok b' ->
  0 <= tag < 256 -> wfb d -> wfb (data b) -> wfb (data b').
Proof. exact push_tagged_wfb. Qed.
Theorem C17_skip_contract : forall b n, Inv b ->
  exists k, Z.of_nat k <= pos b /\ Z.of_nat k = Z.max 0 (Z.min n (pos b)) /\ data (skip b n) = poison k ++ data b.
Proof. exact skip_poison. Qed.
Theorem C17_reset : forall b, data (reset b) = [] /\ blen (reset b) = 0 /\ pos (reset b) = BUF_MAX_SIZE /\
  bookmark (reset b) = bookmark b.
Proof. exact reset_clears. Qed.

Check C17_in_bounds : forall ops,
  Inv (fold_left bstep ops empty_buffer) /\ 0 <= pos (fold_left bstep ops empty_buffer) <= BUF_MAX_SIZE.
Check C17_lengths : forall b tag v, Inv b -> 0 <= v < 65536 -> 0 <= tag ->
  push_tag_len b tag v = emits b (tag :: enc_len v) (bookmark b).
Check C17_oob_iff_community : forall ver m r, 0 <= ver < 128 -> req_of_pdu (cm_pdu m) = Some r -> req_ok r ->
  (push_cmsg ver empty_buffer m = Err OutOfBuffer <-> BUF_MAX_SIZE < len (enc_cmsg ver (cm_community m) r)) /\
  (len (enc_cmsg ver (cm_community m) r) <= BUF_MAX_SIZE ->
   push_cmsg ver empty_buffer m = Ok {| data := enc_cmsg ver (cm_community m) r; bookmark := 0 |}).
Check C17_oob_iff_v3 : forall m D, v3_ok m -> msgdata_spec (m_data m) D ->
  (push_v3 empty_buffer m = Err OutOfBuffer <-> BUF_MAX_SIZE < len (enc_v3_of m D)) /\
  (len (enc_v3_of m D) <= BUF_MAX_SIZE ->
   push_v3 empty_buffer m = Ok {| data := enc_v3_of m D; bookmark := v3_bookmark empty_buffer m D |}).
Check C17_push_written : forall b c b', push b c = Ok b' -> wfb c -> wfb (data b) -> wfb (data b').
Check C17_push_tagged_written : forall b tag d b', push_tagged b tag d = Ok b' ->
  0 <= tag < 256 -> wfb d -> wfb (data b) -> wfb (data b').
Check C17_skip_contract : forall b n, Inv b ->
  exists k, Z.of_nat k <= pos b /\ Z.of_nat k = Z.max 0 (Z.min n (pos b)) /\ data (skip b n) = poison k ++ data b.
Check C17_reset : forall b, data (reset b) = [] /\ blen (reset b) = 0 /\ pos (reset b) = BUF_MAX_SIZE /\
  bookmark (reset b) = bookmark b.
Print Assumptions C17_in_bounds.
Print Assumptions C17_lengths.
Print Assumptions C17_oob_iff_community.
Print Assumptions C17_oob_iff_v3.
Print Assumptions C17_push_written.
Print Assumptions C17_push_tagged_written.
Print Assumptions C17_skip_contract.
Print Assumptions C17_reset.

(* Extraction of the codec / operations model for the correspondence checks (ExtrOcamlBasic only). *)
From Coq Require Import Extraction ExtrOcamlBasic ZArith List.
From GS Require Import Model.Base Gen.Constants Model.Ber Model.Pdu Model.Buffer Model.OidText Model.Exc
  Gen.ErrorMap Model.Ops Model.Walk Model.PyLayer.
Extraction Language OCaml.
Extraction "../ocaml/codec_model.ml"
  parse_header value_from_ber
  int_from_ber null_from_ber oid_from_ber octetstring_from_ber reloid_from_ber sequence_from_ber bool_from_ber
  real_from_ber ip_from_ber counter32_from_ber gauge32_from_ber timeticks_from_ber uinteger32_from_ber
  counter64_from_ber opaque_from_ber objectdescriptor_from_ber option_from_ber
  try_normalize pdu_decode v1_decode v2c_decode v3_decode usm_decode scoped_decode
  oid_of_text text_of_oid is_after starts_with ip_text dec dec_signed
  empty_buffer push_u8 push push_tag_len push_tagged set_bookmark get_bookmark skip reset pos blen
  push_int push_oid push_pdu push_cmsg push_v3 push_usm push_scoped
  get_to_python getmany_to_python getiter_new getnext_to_python getbulk_to_python err_to_exc
  c_unwrap c_recv_loop
  getnext_walk getbulk_walk fetch_walk effective_max_rep
  run_api run_prog
  Z.add Z.mul Z.sub Z.opp Z.div_eucl Z.of_nat Z.compare Z.to_nat.

"""Privacy histories on one key object (shared by C11 and C17): interleaved encrypts, failed decrypts and decrypts of
genuine agent ciphertexts, run on the extracted Model.Priv and on PrivKey::{encrypt,decrypt} (codec harness, debug and
release).  Oracle: every ciphertext the library produced is decrypted with the extracted reference cipher under the RFC
IV derived from the transmitted salt and must be the scoped PDU of the independent encoder followed by less than one
block of ZERO octets (octets the request never wrote would show up there)."""
import os
import sys

from lib import gen, vf

sys.path.insert(0, os.path.join(vf.VERIF, "harness", "py"))
import ber  # noqa: E402


def scoped_of(ctx, spec_kind, rid, oids, nr=0, mr=0):
    vbs = [ber.varbind(ber.tlv(6, o), b"\x05\x00") for o in oids]
    tag = {"get": 0xA0, "getnext": 0xA1, "bulk": 0xA5}[spec_kind]
    return ber.scoped_pdu(ctx, b"", ber.pdu(tag, rid, nr, mr, vbs))


def run(c, cd, v3exe, rng, n_hist, keyprefix=""):
    """-> (number of histories, number of model/impl disagreements, ciphertexts judged)"""
    dis = 0
    hist, metas = [], []
    for _ in range(n_hist):
        alg = rng.choice([1, 2])
        key = gen.rbytes(rng, 16, False)
        ops, meta = [], []
        for _k in range(rng.randint(1, 7)):
            t = rng.randint(0, 3)
            if t <= 1:
                ctx = gen.rbytes(rng, rng.choice([0, 5, 12, 32]), False)
                kind = rng.choice(["get", "getnext", "bulk"])
                # (one OID at most: the op fields of the harness command are comma separated) - size varies with the OID length
                oids = [ber.oid_content(gen.rarcs(rng, 6) + [rng.randrange(2 ** 32) for _y in range(rng.choice([0, 0, 3, 30, 200, 800]))])
                        for _x in range(rng.choice([0, 1, 1, 1]))]
                rid = rng.randrange(2 ** 31)
                boots, tm = rng.choice([0, 1, 2 ** 31 - 1, rng.randrange(2 ** 32)]), rng.choice([0, 255, 2 ** 31 - 1, rng.randrange(2 ** 32)])
                oh = ",".join(o.hex() for o in oids) or "-"
                if kind == "bulk":
                    spec = "bulk:%d:0:%d:%s" % (rid, 10, oh)
                    plain = scoped_of(ctx, kind, rid, oids, 0, 10)
                else:
                    spec = "%s:%d:%s" % (kind, rid, oh)
                    plain = scoped_of(ctx, kind, rid, oids)
                ops.append("e,%s,%s,%d,%d" % (gen.hx(ctx), spec, boots, tm))
                meta.append(("e", plain, boots, tm))
            elif t == 2:    # a decrypt of garbage in between (failed receive)
                ops.append("d,%s,%d,%d,%s" % (gen.hx(gen.rbytes(rng, rng.choice([8, 8, 7, 0]), False)), rng.randrange(2 ** 31), rng.randrange(2 ** 31),
                                              gen.hx(gen.rbytes(rng, rng.choice([8, 16, 24, 40, 13]), False))))
                meta.append(("dg",))
            else:           # placeholder: decrypt of a genuine ciphertext is appended after the first pass
                ops.append(None)
                meta.append(("dx",))
        hist.append((alg, key, ops))
        metas.append(meta)
    # first pass on the implementation to learn the random salt and to obtain ciphertexts for the genuine-decrypt slots
    lines1 = ["priv %d %s %s" % (alg, key.hex(), "|".join(o for o in ops if o is not None)) for alg, key, ops in hist]
    r1 = vf.run_lines(cd.rel, lines1)
    lines_m, lines_i, exps = [], [], []
    for (alg, key, ops), meta, o1 in zip(hist, metas, r1):
        outs = o1[3:].split(" | ") if o1.startswith("OK ") else []
        enc = [x for x in outs if x.startswith("E ")]
        if not enc:
            continue
        pp0 = enc[0].split(" ")[2]
        seed = int(pp0[8:], 16) if alg == 1 else int(pp0, 16)
        # agent-side encryption of a response under the same key, to be decrypted by the library in the dx slots
        full = []
        for o, mt in zip(ops, meta):
            if o is not None:
                full.append(o)
            else:
                resp = ber.scoped_pdu(b"\x80\x00\x01", b"", ber.pdu(0xA2, 99, 0, 0, [ber.varbind(ber.enc_oid([1, 3, 6, 1]), ber.enc_value("int", 5))]))
                salt = gen.rbytes(rng, 8, False)
                # the agent's clock over its whole legal range, ends included (snmpEngineBoots latches at 2^31-1)
                boots, tm = (rng.choice([0, 1, 2 ** 31 - 2, 2 ** 31 - 1, rng.randrange(2 ** 31)]) for _q in range(2))
                if alg == 1:
                    iv = bytes(a ^ b for a, b in zip(salt, key[8:16]))
                    pt = resp + bytes((-len(resp)) % 8)
                    q = "cipher des enc %s %s %s" % (key[:8].hex(), iv.hex(), pt.hex())
                else:
                    iv = boots.to_bytes(4, "big") + tm.to_bytes(4, "big") + salt
                    q = "cipher aes enc %s %s %s" % (key.hex(), iv.hex(), resp.hex())
                ct = vf.run_lines(v3exe, [q], shards=1)[0][3:]
                full.append("d,%s,%d,%d,%s" % (salt.hex(), boots, tm, ct))
        lines_i.append("priv %d %s %s" % (alg, key.hex(), "|".join(full)))
        lines_m.append("priv %d %s %d %s" % (alg, key.hex(), seed, "|".join(full)))
        exps.append((alg, key, meta, seed))
    mo = vf.run_lines(v3exe, lines_m, shards=16)
    ro = vf.run_lines(cd.rel, lines_i)
    do = vf.run_lines(cd.dbg, lines_i)
    # the implementation's salt is random per run: compare the model with each run after substituting its own first salt
    checks = []
    for (alg, key, meta, seed), lm, li, ml, rl, dl in zip(exps, lines_m, lines_i, mo, ro, do):
        c.count(li[:300], nontrivial=li.count("|") >= 1)
        for prof, o in (("release", rl), ("debug", dl)):
            if not o.startswith("OK "):
                c.violation("privacy history fails (%s build): %s" % (prof, o[:80]), {"cmd": li, "observed": o}, key=keyprefix + "priv-history-fails")
                continue
            outs = o[3:].split(" | ")
            enc = [x for x in outs if x.startswith("E ")]
            pp0 = enc[0].split(" ")[2]
            seed_o = int(pp0[8:], 16) if alg == 1 else int(pp0, 16)
            if seed_o == seed:
                if o != ml:
                    dis += 1
                    if dis <= 3:
                        c.log("model/impl(%s) disagree on privacy history `%s`:\n   model %s\n   impl  %s" % (prof, li[:100], ml[:200], o[:200]))
                    if not any(b.startswith("correspondence") for b in c.broken):
                        c.broken = list(c.broken) + ["correspondence `%s`: model `%s` impl(%s) `%s`" % (lm[:200], ml[:120], prof, o[:120])]
            # oracle: each ciphertext decrypts (reference cipher, RFC IV from the transmitted salt) to scoped PDU + < 1 block of zeros
            ei = 0
            block = 8 if alg == 1 else 16
            for mt, x in zip(meta, outs):
                if mt[0] == "e":
                    if not x.startswith("E "):
                        # too large for the private buffer is legitimate
                        if len(mt[1]) + block > vf.constant("BUF_MAX_SIZE", 4080) and x == "ERR OutOfBuffer":
                            continue
                        c.violation("encrypt failed: %s" % x, {"cmd": li, "profile": prof}, key=keyprefix + "encrypt-failed")
                        continue
                    _, ct, pp = x.split(" ")
                    pp = bytes.fromhex(pp)
                    if len(pp) != 8:
                        c.violation("msgPrivacyParameters is %d octets" % len(pp), {"cmd": li, "profile": prof}, key=keyprefix + "salt-length")
                    if alg == 1:
                        iv = bytes(a ^ b for a, b in zip(pp, key[8:16]))
                        q = "cipher des dec %s %s %s" % (key[:8].hex(), iv.hex(), ct)
                    else:
                        iv = (mt[2] % 2 ** 32).to_bytes(4, "big") + (mt[3] % 2 ** 32).to_bytes(4, "big") + pp
                        q = "cipher aes dec %s %s %s" % (key.hex(), iv.hex(), ct)
                    checks.append((q, mt[1], block, li, prof, ei))
                    ei += 1
                elif mt[0] == "dx":
                    if not x.startswith("D plain(800001,resp(99,0,0;2b0601=int:5))"):
                        c.violation("a response encrypted per RFC 3414/3826 by the agent is not decrypted to its content: %s" % x[:80],
                                    {"cmd": li, "profile": prof, "observed": x}, key=keyprefix + "decrypt-genuine")
    outs = vf.run_lines(v3exe, [q for q, *_ in checks], shards=16)
    for (q, plain, block, li, prof, ei), o in zip(checks, outs):
        pt = bytes.fromhex(o[3:]) if o.startswith("OK ") and o[3:] != "-" else b""
        pad = pt[len(plain):]
        if pt[:len(plain)] != plain or len(pad) >= block or any(pad) or len(pt) < len(plain):
            how = "longer than the scoped PDU by %d octets" % len(pad) if pt[:len(plain)] == plain else "different from the scoped PDU"
            c.violation("message %d of a privacy history decrypts to something %s (%s build)" % (ei, how, prof),
                        {"cmd": li, "profile": prof, "decrypted": pt.hex()[:400], "scoped_pdu": plain.hex()[:400]},
                        key=keyprefix + "ciphertext:" + ("extra-octets" if pt[:len(plain)] == plain else "wrong-plaintext"))
    c.sample({"history": lines_i[0][:200], "out": ro[0][:200]})

    return len(lines_i), dis, len(checks)

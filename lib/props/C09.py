"""C09 - every outgoing authenticated message carries a correct HMAC-96.

Proof: Properties/C09.v (the hand-written ipad/opad code is RFC 2104 HMAC truncated to 96 bits; the bookmark is the
offset of msgAuthenticationParameters in the final message; the emitted datagram is the reference message with the
MAC of the zeroed message in place; without a key the field is empty and the flag clear).
Correspondence: Model.Auth sign (Gallina MD5/SHA-1) against DigestAuth::sign (codec harness) and whole datagrams
of real sessions (C03 also does this).  Oracle: Python hmac over the datagram with the field zeroed, under the key
derived independently by RFC 3414 A.2 and localized to the engine id carried by the message."""
import hmac
import os
import sys

from lib import codec, gen, vf

sys.path.insert(0, os.path.join(vf.VERIF, "harness", "py"))
import ber  # noqa: E402
import scen  # noqa: E402


def main(argv):
    c = vf.Check("C09", argv)
    thorough = c.tier == "thorough"
    c.prove()
    cd = codec.Codec(c)
    ok3, log3, v3exe = vf.ocaml_build("v3", "v3_model", "v3_driver")
    if not (cd.ok and ok3):
        c.errors.append("build failed " + log3[-800:])
        return c.finish("n/a")
    rng = c.rng
    dis = 0
    # ---- sign() itself on arbitrary messages and offsets
    lines = []
    for _ in range(3000 if thorough else 500):
        alg = rng.choice([1, 2])
        key = gen.rbytes(rng, 16 if alg == 1 else 20, False)
        n = rng.choice([12, 13, 40, 64, 65, 127, 128, 300, 1500, 4080])
        msg = gen.rbytes(rng, n, False)
        off = rng.choice([0, n - 12, rng.randint(0, n - 12)])
        lines.append("sign %d %s %s %d" % (alg, key.hex(), msg.hex(), off))
    mo = vf.run_lines(v3exe, lines, shards=16)
    ro = vf.run_lines(cd.rel, lines)
    do = vf.run_lines(cd.dbg, lines)
    for ln, ml, rl, dl in zip(lines, mo, ro, do):
        _, alg, key, msg, off = ln.split(" ")
        c.count(ln[:300], True)
        off = int(off)
        m = bytes.fromhex(msg)
        want = m[:off] + hmac.new(bytes.fromhex(key), m, "md5" if alg == "1" else "sha1").digest()[:12] + m[off + 12:]
        for prof, o in (("release", rl), ("debug", dl)):
            if ml != o:
                dis += 1
                if dis <= 3:
                    c.log("model/impl(%s) disagree on sign: %s" % (prof, ln[:80]))
                if not any(b.startswith("correspondence") for b in c.broken):
                    c.broken = list(c.broken) + ["correspondence `%s`: model `%s` impl(%s) `%s`" % (ln[:160], ml[:80], prof, o[:80])]
            if o != "OK " + want.hex():
                c.violation("DigestAuth::sign does not produce HMAC-%s-96 at offset %d of a %d-octet message (%s build)" % ("MD5" if alg == "1" else "SHA", off, len(m), prof),
                            {"cmd": ln, "expected": want.hex(), "observed": o, "profile": prof}, key="sign:" + alg)
    c.sample({"cmd": lines[0][:120], "out": ro[0][:120]})
    codec.crosscheck_v3(c, lines, mo)
    # ---- whole datagrams of real sessions: sizes swept so that every header takes short / 0x81 / 0x82 form
    scs = []
    for auth in (None, "md5", "sha1"):
        for priv in ((None, "des", "aes") if auth else (None,)):
            for kt in ((0, 1, 2) if auth else (0,)):
                ks = {"md5": 16, "sha1": 20}.get(auth, 16)
                eng = (b"\x80\x00\x1f\x88" + gen.rbytes(rng, rng.choice([1, 8, 28]), False)).hex()
                if rng.random() < 0.35:
                    # identity values that look like the structures around them: the zero placeholder of the auth field
                    # (04 0c 00*12), an empty OCTET STRING, a SEQUENCE header, the digest-sized run of zeros
                    eng = (b"\x80\x00\x1f\x88" + rng.choice([b"\x04\x0c" + bytes(12), b"\x04\x0c" + bytes(12) + b"\x04\x08" + bytes(8),
                                                              bytes(12), b"\x04\x00\x30\x0e\x04\x0c" + bytes(12), b"\x30\x82\x00\x10\x04\x0c" + bytes(10)])).hex()
                pkt = rng.choice([0, 1, 2])              # privacy key type independent of the auth key type
                given = rng.random() < 0.5               # engine id given (constructor installs the keys) or discovered (set_keys does)
                v3 = {"user": rng.choice(["u" * rng.choice([1, 8, 32]), "\x04\x0c" + "\x00" * 12, "\x00" * 12, "\x04\x0c" + "\x00" * 12 + "\x04\x00"]), "auth": [auth, kt, gen.rbytes(rng, ks if kt else 9, False).hex()] if auth else None,
                      "priv": [priv, pkt, gen.rbytes(rng, ks if pkt else 9, False).hex()] if priv else None, "engine_id": eng if given else None, "agent_engine_id": eng,
                      "boots": rng.choice([0, 127, 128, 2 ** 31 - 1]), "time": rng.choice([0, 255, 65536, 2 ** 31 - 1]),
                      "engine_id_empty": (not given) and rng.random() < 0.5}
                steps = [{"op": "enter", "default_reply": {"pdu_tag": 0xA8, "mac": "absent", "encrypt": "no", "flags": 0}}]
                for noids in ([1, 2, 4, 6, 9, 12, 20, 60, 150] if thorough else [1, 4, 6, 9, 20, 150]):
                    oids = [ber.oid_text([1, 3, 6, 1, 2, 1, 2, 2, 1, 10, i]) for i in range(noids)]
                    steps.append({"op": "get_many", "args": [oids], "replies": [[{"vbs": ""}]]})
                # a Report naming ANOTHER engine (right user and message id) arrives instead of a reply: the call fails or times
                # out, and whatever the session sends afterwards still carries a MAC under the key localized to the engine
                # id that message names
                steps.append({"op": "get", "args": ["1.3.6.1.2.1.1.1.0"], "replies": [[{"pdu_tag": 0xA8, "engine": "80001f8880" + "ee" * 6, "mac": "absent", "encrypt": "no", "flags": 0}]]})
                steps.append({"op": "get_many", "args": [["1.3.6.1.2.1.1.1.0", "1.3.6.1.2.1.1.2.0"]], "replies": [[{"vbs": ""}]]})
                steps.append({"op": "getnext", "args": ["1.3.6.1.2.1"], "replies": [[{"vbs": ber.varbind(ber.enc_oid([1, 3, 6, 1, 2, 1, 1]), ber.enc_value("int", 1)).hex()}],
                                                                                      [{"vbs": ber.varbind(ber.enc_oid([1, 3, 7]), ber.enc_value("int", 1)).hex()}]], "cap": 5})
                steps.append({"op": "getbulk", "args": ["1.3.6.1.2.1", 25], "replies": [[{"vbs": ber.varbind(ber.enc_oid([1, 3, 7]), ber.enc_value("int", 1)).hex()}]], "cap": 5})
                scs.append({"version": "v3", "mode": rng.choice(["sync", "async"]), "timeout": 0.3, "v3": v3, "steps": steps})
    res, log = vf.run_api_worker("C09", {"scenarios": scs, "model_exe": v3exe}, timeout=1200)
    n = 0
    sizes = set()
    if res is None:
        c.errors.append("API worker failed: " + log[-1500:])
    else:
        for sc, rec in zip(scs, res["records"]):
            if "driver_error" in rec:
                c.errors.append("API driver error: " + rec["driver_error"])
                continue
            v3 = sc["v3"]
            keys = scen.V3Keys(v3, bytes.fromhex(v3["agent_engine_id"]))
            for st, out in zip(sc["steps"], rec["steps"]):
                for xi, (raw_hex, q) in enumerate(zip(out["emitted"], out["requests"])):
                    raw = bytes.fromhex(raw_hex)
                    n += 1
                    sizes.add(len(raw))
                    c.count(raw_hex[:300], len(raw) > 127)
                    label = "%s/%s session, %s, %d-octet message" % (v3["auth"] and v3["auth"][0], v3["priv"] and v3["priv"][0], st["op"], len(raw))
                    if "error" in q:
                        c.violation(label + ": not a well-formed message: " + q["error"], {"datagram": raw_hex}, key="malformed")
                        continue
                    # engine-id discovery: until the engine id is known the session holds no key (default user)
                    keyless = v3["auth"] is None or (not v3["engine_id"] and st["op"] == "enter" and xi == 0 and q.get("engine_id") == "")
                    if keyless:
                        if q["auth"] != "" or q["flags"] & 1:
                            c.violation(label + ": session without a key sent auth parameters %s / flags %d" % (q["auth"], q["flags"]),
                                        {"datagram": raw_hex, "scenario": dict(sc, steps=[st])}, key="noauth-field")
                        continue
                    if not q["flags"] & 1:
                        c.violation(label + ": auth flag is clear", {"datagram": raw_hex, "scenario": dict(sc, steps=[st])}, key="auth-flag-clear")
                    if len(q["auth"]) != 24:
                        c.violation(label + ": msgAuthenticationParameters is %d octets" % (len(q["auth"]) // 2), {"datagram": raw_hex}, key="auth-length")
                        continue
                    off = q["auth_offset"]
                    z = raw[:off] + bytes(12) + raw[off + 12:]
                    k = scen.V3Keys(v3, bytes.fromhex(q["engine_id"])).auth_key if q["engine_id"] else keys.auth_key
                    want = hmac.new(k, z, v3["auth"][0]).digest()[:12].hex()
                    if q["auth"] != want:
                        c.violation(label + ": MAC %s, HMAC-96 over the zeroed message under the localized key is %s" % (q["auth"], want),
                                    {"datagram": raw_hex, "scenario": dict(sc, steps=[st])}, key="mac-wrong")
    c.sample({"datagram_sizes": sorted(sizes)[:40]})
    # ---- sessions that learn their engine id (None / b"", first probe lost and retried, passwords shared between the digests):
    # every request after entry is flagged authenticated and signed under the key localized to the engine id it carries
    from lib import v3sessions
    v3sessions.run(c, v3exe, "C09", {"auth-flag", "mac", "user", "engine-id"})
    return c.finish(
        rule="%d sign() calls on arbitrary messages of 12..4080 octets at arbitrary offsets (MD5, SHA-1; debug+release) and %d datagrams of "
             "%d real sessions ({none, MD5, SHA-1} x {none, DES, AES} x key types; engine ids 5..32 octets, user names 1..32, boots/time widths 1..4 "
             "octets, 1..150 OIDs so that every header takes short / 0x81 / 0x82 length form); non-trivial = message longer than 127 octets"
             % (len(lines), n, len(scs)),
        extra={"disagreements": dis, "datagrams": n})


def api_main(g, job):
    return scen.api_main_generic(g, job)

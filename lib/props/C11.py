"""C11 - encrypted payloads are exactly the scoped PDU under RFC 3414 / RFC 3826.

Proof: Properties/C11.v (CBC/CFB inverse laws over the Gallina DES / AES, DES decrypt∘encrypt = id proved, the
message-level statement: an independent RFC decryption of msgData with the IV derived from the transmitted salt
gives the scoped PDU followed by less than one block of zero padding; decrypt of anything the agent encrypts that
way is exact; no dependence on history).  Correspondence: Model.Priv against PrivKey::{encrypt,decrypt} on
histories of interleaved sends, receives and failed decrypts (codec harness, debug+release), and real sessions.
Oracle: decrypt every ciphertext with the extracted reference cipher under the independently derived key/IV and
compare with the scoped PDU produced by the independent encoder of harness/py/ber.py."""
import os
import sys

from lib import codec, gen, privhist, vf

sys.path.insert(0, os.path.join(vf.VERIF, "harness", "py"))
import ber  # noqa: E402


def scoped_of(ctx, spec_kind, rid, oids, nr=0, mr=0):
    vbs = [ber.varbind(ber.tlv(6, o), b"\x05\x00") for o in oids]
    tag = {"get": 0xA0, "getnext": 0xA1, "bulk": 0xA5}[spec_kind]
    return ber.scoped_pdu(ctx, b"", ber.pdu(tag, rid, nr, mr, vbs))


def main(argv):
    c = vf.Check("C11", argv)
    thorough = c.tier == "thorough"
    c.prove()
    cd = codec.Codec(c)
    ok3, log3, v3exe = vf.ocaml_build("v3", "v3_model", "v3_driver")
    if not (cd.ok and ok3):
        c.errors.append("build failed " + log3[-800:])
        return c.finish("n/a")
    rng = c.rng
    dis = 0
    n_hist, d, n_ct = privhist.run(c, cd, v3exe, rng, 1500 if thorough else 300)
    dis += d

    # ---- API level: real sessions, every pair of (auth key type, privacy key type), engine id given and discovered:
    # each request must decrypt under the key localized by RFC 3414 A.2 (hashlib) and the encrypted reply must be read
    scs = []
    for priv, auth in (("des", "md5"), ("aes", "sha1"), ("des", "sha1"), ("aes", "md5")):
        ks = 16 if auth == "md5" else 20
        for akt in (0, 1, 2):
            for pkt in (0, 1, 2):
                for given in (True, False):
                    if not thorough and (akt, pkt, given) not in ((0, 0, False), (0, 1, False), (0, 2, False), (1, 0, False), (2, 1, False), (1, 2, True), (2, 0, True), (0, 2, True)):
                        continue
                    eng = (b"\x80\x00\x1f\x88" + gen.rbytes(rng, rng.choice([4, 9, 28]), False)).hex()
                    v3 = {"user": "cuser", "auth": [auth, akt, gen.rbytes(rng, ks if akt else 10, False).hex()],
                          "priv": [priv, pkt, gen.rbytes(rng, ks if pkt else 11, False).hex()], "engine_id": eng if given else None,
                          "agent_engine_id": eng, "boots": rng.choice([0, 2 ** 31 - 1, rng.randrange(2 ** 31)]), "time": rng.choice([0, 2 ** 31 - 1, rng.randrange(2 ** 31)])}
                    vb = ber.varbind(ber.enc_oid([1, 3, 6, 1, 2, 1, 1, 5, 0]), ber.enc_value("os", b"secret-reply"))
                    steps = [{"op": "enter", "default_reply": {"pdu_tag": 0xA8, "mac": "absent", "encrypt": "no", "flags": 0}},
                             {"op": "get", "args": ["1.3.6.1.2.1.1.5.0"], "replies": [[{"vbs": vb.hex()}]]},
                             {"op": "get_many", "args": [["1.3.6.1.2.1.1.5.0", "1.3.6.1.2.1.1.6.0"]], "replies": [[{"vbs": vb.hex()}]]}]
                    scs.append({"version": "v3", "mode": rng.choice(["sync", "async"]), "timeout": 0.3, "v3": v3, "steps": steps})
    res, log = vf.run_api_worker("C11", {"scenarios": scs, "model_exe": v3exe}, timeout=900)
    n_api = 0
    if res is None:
        c.errors.append("API worker failed: " + log[-1500:])
    else:
        for sc, rec in zip(scs, res["records"]):
            if "driver_error" in rec:
                c.errors.append("API driver error: " + rec["driver_error"])
                continue
            v3 = sc["v3"]
            label = "%s+%s session, auth key type %d, privacy key type %d, engine id %s" % (v3["auth"][0], v3["priv"][0], v3["auth"][1], v3["priv"][1],
                                                                                         "given" if v3["engine_id"] else "discovered")
            n_api += 1
            c.count(label + v3["agent_engine_id"], True)
            if rec.get("create_error") or rec["steps"][0]["kind"] != "RET":
                c.violation(label + ": session / refresh failed: %s" % (rec.get("create_error") or rec["steps"][0].get("exc")),
                            {"scenario": sc, "outcome": rec["steps"][0] if rec["steps"] else None}, key="api-session-failed")
                continue
            for st, out in zip(sc["steps"][1:], rec["steps"][1:]):
                for q in out["requests"]:
                    if q.get("decrypt_error") or not q.get("pdu"):
                        c.violation(label + ": msgData of %s does not decrypt to a scoped PDU under the RFC 3414/3826 key and IV (%s)" % (st["op"], q.get("decrypt_error")),
                                    {"scenario": dict(sc, steps=[st]), "request": q}, key="api-request-undecryptable")
                    elif any(bytes.fromhex(q.get("padding", ""))) or len(q.get("padding", "")) // 2 >= (8 if v3["priv"][0] == "des" else 16):
                        c.violation(label + ": padding after the scoped PDU is %s" % q.get("padding"), {"scenario": dict(sc, steps=[st]), "request": q}, key="api-padding")
                if out["kind"] != "RET":
                    c.violation(label + ": the agent's encrypted reply to %s was not read: %s" % (st["op"], out.get("exc")),
                                {"scenario": dict(sc, steps=[st]), "outcome": out}, key="api-reply-undecryptable")
    # ---- a key change that is REFUSED leaves the session as it was: SnmpV3ClientSocket driven directly; set_keys with an accepted
    # auth key and a refused privacy key (empty password, wrong size) raises, and the requests after it still decrypt under
    # the key installed before, with the salt counter going on
    hist = []
    for auth, priv in (("md5", "des"), ("md5", "aes"), ("sha1", "des"), ("sha1", "aes")):
        ks = 16 if auth == "md5" else 20
        for bad in ([0, ""], [1, gen.rbytes(rng, ks - 3, False).hex()], [2, gen.rbytes(rng, ks + 1, False).hex()]):
            eng = (b"\x80\x00\x1f\x88" + gen.rbytes(rng, 8, False)).hex()
            hist.append({"user": "cuser", "auth": [auth, 1, gen.rbytes(rng, ks, False).hex()], "priv": [priv, 1, gen.rbytes(rng, ks, False).hex()],
                         "engine_id": eng, "agent_engine_id": eng, "bad_priv": bad})
    resh, logh = vf.run_api_worker("C11", {"socket_histories": hist, "model_exe": v3exe})
    if resh is None:
        c.errors.append("API worker failed: " + logh[-1500:])
    else:
        for h, rec in zip(hist, resh["histories"]):
            c.count(("refused-set-keys", h["auth"][0], h["priv"][0], h["bad_priv"][0]), True)
            label = "%s+%s socket, set_keys with a refused privacy key (type %d, %d octets)" % (h["auth"][0], h["priv"][0], h["bad_priv"][0], len(h["bad_priv"][1]) // 2)
            if rec.get("error"):
                c.errors.append("socket history failed: " + rec["error"])
                continue
            if rec["set_keys"] != "ValueError":
                c.violation(label + ": not refused with ValueError (%s)" % rec["set_keys"], {"history": h, "record": rec}, key="refused-set-keys:accepted")
            salts = []
            for k, q in enumerate(rec["requests"]):
                if q.get("error") or q.get("decrypt_error") or not q.get("pdu") or not q.get("flags", 0) & 2:
                    c.violation(label + ": request %d (%s the refusal) does not decrypt to a scoped PDU under the key installed before: %s"
                                % (k, "before" if k == 0 else "after", q.get("error") or q.get("decrypt_error") or "flags %s" % q.get("flags")),
                                {"history": h, "request": {kk: q.get(kk) for kk in ("flags", "priv", "decrypt_error", "error")}}, key="refused-set-keys:key-changed")
                    break
                if any(bytes.fromhex(q.get("padding", ""))) or len(q.get("padding", "")) // 2 >= (8 if h["priv"][0] == "des" else 16):
                    c.violation(label + ": request %d padding %s" % (k, q.get("padding")), {"history": h}, key="refused-set-keys:padding")
                salts.append(int(q["priv"][8:] if h["priv"][0] == "des" else q["priv"], 16))
            # the model's socket (Model.V3: v3_push_pdu, v3_set_keys_st) replayed on the same history, octet for octet
            if len(salts) == 3:
                from lib import v3replay
                scen = v3replay.scen
                k = scen.V3Keys(h, bytes.fromhex(h["engine_id"]))
                a, p, b = h["auth"], h["priv"], h["bad_priv"]
                ac, pc = v3replay.ALGC[a[0]], v3replay.PRIVC[p[0]]
                q0 = rec["requests"][0]
                sess = "/".join([h["engine_id"], "0", "0", h["user"].encode().hex(), str(ac), k.auth_key.hex(), str(pc), k.priv_key.hex(),
                                 str(salts[0]), "0", "0"])
                ok_model = True
                for j, q in enumerate(rec["requests"]):
                    if j == 1:
                        r = vf.run_lines(v3exe, ["v3setkeys %s %s %d %s %d %s %d" % (sess, h["user"].encode().hex(), ac | (a[1] << 6), a[2], pc | (b[0] << 6), b[1] or "-", 0)])[0]
                        if not r.startswith("ERR InvalidKey "):
                            ok_model = False
                            c.broken = list(c.broken) + ["correspondence (refused set_keys): the model says `%s` to the key change the socket refused (%s)" % (r[:60], label)]
                            break
                        sess = r.split(" ")[-1]
                    rid = q["pdu"]["request_id"]
                    r = vf.run_lines(v3exe, ["v3emit %s get:%d:%s %d" % (v3replay.with_fields(sess, rid=rid), rid, "2b06010201010500", q["msg_id"])])[0]
                    f = r.split(" ")
                    if f[0] != "OK" or f[1] != q["raw"]:
                        ok_model = False
                        if not any(x.startswith("correspondence (refused set_keys)") for x in c.broken):
                            c.broken = list(c.broken) + ["correspondence (refused set_keys): request %d of the history: the model emits `%s`, the socket emitted `%s` (%s)"
                                                         % (j, r[:100], q["raw"][:100], label)]
                        break
                    sess = f[-1]
                c.coverage["refused_set_keys_histories_reproduced_by_model"] = c.coverage.get("refused_set_keys_histories_reproduced_by_model", 0) + (1 if ok_model else 0)
            if len(salts) == 3 and not (salts[1] == salts[0] + 1 and salts[2] == salts[1] + 1):
                c.violation(label + ": the salt counter does not go on across the refused key change: %s" % salts, {"history": h, "salts": salts}, key="refused-set-keys:salt")
    # ---- sessions that learn their engine id (None / b"", first probe lost and retried, key types mixed): every request after
    # entry is encrypted and decrypts, under the privacy key localized to the engine id it carries, to the scoped PDU + padding
    from lib import v3sessions
    v3sessions.run(c, v3exe, "C11", {"priv-flag", "decrypt", "padding", "engine-id"})
    return c.finish(
        rule="%d privacy histories (DES and AES-128): 1..7 interleaved encrypts of Get/GetNext/GetBulk scoped PDUs (OIDs of 2..800 arcs, context engine ids "
             "0..32 octets, boots/time up to 2^32-1), decrypts of garbage (wrong sizes, short salts) and decrypts of genuine agent-encrypted "
             "responses, on one key object each; %d ciphertexts decrypted by the reference cipher and compared with the independently encoded "
             "scoped PDU; non-trivial = history of >= 2 operations" % (n_hist, n_ct),
        extra={"disagreements": dis, "ciphertexts": n_ct, "api_sessions": n_api})


def api_main(g, job):
    import scen
    if "socket_histories" not in job:
        return scen.api_main_generic(g, job)
    import time
    import apilib
    model = apilib.ModelProc(job["model_exe"])
    out = []
    code = {"md5": 1, "sha1": 2, "des": 1, "aes": 2}
    try:
        for h in job["socket_histories"]:
            rec = {"requests": []}
            agent = apilib.Agent(None)
            try:
                eng = bytes.fromhex(h["engine_id"])
                keys = scen.V3Keys(h, eng)
                a, p, b = h["auth"], h["priv"], h["bad_priv"]
                sock = g.fast.SnmpV3ClientSocket("127.0.0.1:%d" % agent.port, eng, h["user"], code[a[0]] | (a[1] << 6), bytes.fromhex(a[2]),
                                                 code[p[0]] | (p[1] << 6), bytes.fromhex(p[2]), 0, 0, 0, 50_000_000)

                def one():
                    sock.send_get("1.3.6.1.2.1.1.5.0")
                    for _w in range(60):
                        d = agent.take()
                        if d:
                            return dict(scen.summarise(scen.parse_request(d[0], keys, model)), raw=d[0].hex())
                        time.sleep(0.005)
                    return {"error": "nothing was sent"}
                rec["requests"].append(one())
                try:
                    sock.set_keys(h["user"], code[a[0]] | (a[1] << 6), bytes.fromhex(a[2]), code[p[0]] | (b[0] << 6), bytes.fromhex(b[1]))
                    rec["set_keys"] = "accepted"
                except BaseException as e:  # noqa: BLE001
                    rec["set_keys"] = apilib.exc_class(e)
                rec["requests"].append(one())
                rec["requests"].append(one())
            except BaseException as e:  # noqa: BLE001
                rec["error"] = repr(e)
            finally:
                agent.close()
            out.append(rec)
    finally:
        model.close()
    return {"histories": out}

"""C11 - encrypted payloads are exactly the scoped PDU under RFC 3414 / RFC 3826.

Proof: Properties/C11.v (CBC/CFB inverse laws over the Gallina DES / AES, DES decrypt∘encrypt = id proved, the
message-level statement: an independent RFC decryption of msgData with the IV derived from the transmitted salt
gives the scoped PDU followed by less than one block of zero padding; decrypt of anything the agent encrypts that
way is exact; no dependence on history).  Correspondence: Model.Priv against PrivKey::{encrypt,decrypt} on
histories of interleaved sends, receives and failed decrypts (codec harness, debug+release), and real sessions.
Oracle: decrypt every ciphertext with the extracted reference cipher under the independently derived key/IV and
compare with the scoped PDU produced by the independent encoder of harness/py/ber.py."""
import os
import sys

from lib import codec, gen, privhist, vf

sys.path.insert(0, os.path.join(vf.VERIF, "harness", "py"))
import ber  # noqa: E402


def scoped_of(ctx, spec_kind, rid, oids, nr=0, mr=0):
    vbs = [ber.varbind(ber.tlv(6, o), b"\x05\x00") for o in oids]
    tag = {"get": 0xA0, "getnext": 0xA1, "bulk": 0xA5}[spec_kind]
    return ber.scoped_pdu(ctx, b"", ber.pdu(tag, rid, nr, mr, vbs))


def main(argv):
    c = vf.Check("C11", argv)
    thorough = c.tier == "thorough"
    c.prove()
    cd = codec.Codec(c)
    ok3, log3, v3exe = vf.ocaml_build("v3", "v3_model", "v3_driver")
    if not (cd.ok and ok3):
        c.errors.append("build failed " + log3[-800:])
        return c.finish("n/a")
    rng = c.rng
    dis = 0
    n_hist, d, n_ct = privhist.run(c, cd, v3exe, rng, 1500 if thorough else 300)
    dis += d

    # ---- API level: real sessions, every pair of (auth key type, privacy key type), engine id given and discovered:
    # each request must decrypt under the key localized by RFC 3414 A.2 (hashlib) and the encrypted reply must be read
    scs = []
    for priv, auth in (("des", "md5"), ("aes", "sha1"), ("des", "sha1"), ("aes", "md5")):
        ks = 16 if auth == "md5" else 20
        for akt in (0, 1, 2):
            for pkt in (0, 1, 2):
                for given in (True, False):
                    if not thorough and (akt, pkt, given) not in ((0, 0, False), (0, 1, False), (0, 2, False), (1, 0, False), (2, 1, False), (1, 2, True), (2, 0, True), (0, 2, True)):
                        continue
                    eng = (b"\x80\x00\x1f\x88" + gen.rbytes(rng, rng.choice([4, 9, 28]), False)).hex()
                    v3 = {"user": "cuser", "auth": [auth, akt, gen.rbytes(rng, ks if akt else 10, False).hex()],
                          "priv": [priv, pkt, gen.rbytes(rng, ks if pkt else 11, False).hex()], "engine_id": eng if given else None,
                          "agent_engine_id": eng, "boots": rng.choice([0, 2 ** 31 - 1, rng.randrange(2 ** 31)]), "time": rng.choice([0, 2 ** 31 - 1, rng.randrange(2 ** 31)])}
                    vb = ber.varbind(ber.enc_oid([1, 3, 6, 1, 2, 1, 1, 5, 0]), ber.enc_value("os", b"secret-reply"))
                    steps = [{"op": "enter", "default_reply": {"pdu_tag": 0xA8, "mac": "absent", "encrypt": "no", "flags": 0}},
                             {"op": "get", "args": ["1.3.6.1.2.1.1.5.0"], "replies": [[{"vbs": vb.hex()}]]},
                             {"op": "get_many", "args": [["1.3.6.1.2.1.1.5.0", "1.3.6.1.2.1.1.6.0"]], "replies": [[{"vbs": vb.hex()}]]}]
                    scs.append({"version": "v3", "mode": rng.choice(["sync", "async"]), "timeout": 0.3, "v3": v3, "steps": steps})
    res, log = vf.run_api_worker("C11", {"scenarios": scs, "model_exe": v3exe}, timeout=900)
    n_api = 0
    if res is None:
        c.errors.append("API worker failed: " + log[-1500:])
    else:
        for sc, rec in zip(scs, res["records"]):
            if "driver_error" in rec:
                c.errors.append("API driver error: " + rec["driver_error"])
                continue
            v3 = sc["v3"]
            label = "%s+%s session, auth key type %d, privacy key type %d, engine id %s" % (v3["auth"][0], v3["priv"][0], v3["auth"][1], v3["priv"][1],
                                                                                         "given" if v3["engine_id"] else "discovered")
            n_api += 1
            c.count(label + v3["agent_engine_id"], True)
            if rec.get("create_error") or rec["steps"][0]["kind"] != "RET":
                c.violation(label + ": session / refresh failed: %s" % (rec.get("create_error") or rec["steps"][0].get("exc")),
                            {"scenario": sc, "outcome": rec["steps"][0] if rec["steps"] else None}, key="api-session-failed")
                continue
            for st, out in zip(sc["steps"][1:], rec["steps"][1:]):
                for q in out["requests"]:
                    if q.get("decrypt_error") or not q.get("pdu"):
                        c.violation(label + ": msgData of %s does not decrypt to a scoped PDU under the RFC 3414/3826 key and IV (%s)" % (st["op"], q.get("decrypt_error")),
                                    {"scenario": dict(sc, steps=[st]), "request": q}, key="api-request-undecryptable")
                    elif any(bytes.fromhex(q.get("padding", ""))) or len(q.get("padding", "")) // 2 >= (8 if v3["priv"][0] == "des" else 16):
                        c.violation(label + ": padding after the scoped PDU is %s" % q.get("padding"), {"scenario": dict(sc, steps=[st]), "request": q}, key="api-padding")
                if out["kind"] != "RET":
                    c.violation(label + ": the agent's encrypted reply to %s was not read: %s" % (st["op"], out.get("exc")),
                                {"scenario": dict(sc, steps=[st]), "outcome": out}, key="api-reply-undecryptable")
    return c.finish(
        rule="%d privacy histories (DES and AES-128): 1..7 interleaved encrypts of Get/GetNext/GetBulk scoped PDUs (OIDs of 2..800 arcs, context engine ids "
             "0..32 octets, boots/time up to 2^32-1), decrypts of garbage (wrong sizes, short salts) and decrypts of genuine agent-encrypted "
             "responses, on one key object each; %d ciphertexts decrypted by the reference cipher and compared with the independently encoded "
             "scoped PDU; non-trivial = history of >= 2 operations" % (n_hist, n_ct),
        extra={"disagreements": dis, "ciphertexts": n_ct, "api_sessions": n_api})


def api_main(g, job):
    import scen
    return scen.api_main_generic(g, job)

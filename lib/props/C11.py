"""C11 - encrypted payloads are exactly the scoped PDU under RFC 3414 / RFC 3826.

Proof: Properties/C11.v (CBC/CFB inverse laws over the Gallina DES / AES, DES decrypt∘encrypt = id proved, the
message-level statement: an independent RFC decryption of msgData with the IV derived from the transmitted salt
gives the scoped PDU followed by less than one block of zero padding; decrypt of anything the agent encrypts that
way is exact; no dependence on history).  Correspondence: Model.Priv against PrivKey::{encrypt,decrypt} on
histories of interleaved sends, receives and failed decrypts (codec harness, debug+release), and real sessions.
Oracle: decrypt every ciphertext with the extracted reference cipher under the independently derived key/IV and
compare with the scoped PDU produced by the independent encoder of harness/py/ber.py."""
import os
import sys

from lib import codec, gen, vf

sys.path.insert(0, os.path.join(vf.VERIF, "harness", "py"))
import ber  # noqa: E402


def scoped_of(ctx, spec_kind, rid, oids, nr=0, mr=0):
    vbs = [ber.varbind(ber.tlv(6, o), b"\x05\x00") for o in oids]
    tag = {"get": 0xA0, "getnext": 0xA1, "bulk": 0xA5}[spec_kind]
    return ber.scoped_pdu(ctx, b"", ber.pdu(tag, rid, nr, mr, vbs))


def main(argv):
    c = vf.Check("C11", argv)
    thorough = c.tier == "thorough"
    c.prove()
    cd = codec.Codec(c)
    ok3, log3, v3exe = vf.ocaml_build("v3", "v3_model", "v3_driver")
    if not (cd.ok and ok3):
        c.errors.append("build failed " + log3[-800:])
        return c.finish("n/a")
    rng = c.rng
    dis = 0
    hist, metas = [], []
    for _ in range(1500 if thorough else 300):
        alg = rng.choice([1, 2])
        key = gen.rbytes(rng, 16, False)
        ops, meta = [], []
        for _k in range(rng.randint(1, 7)):
            t = rng.randint(0, 3)
            if t <= 1:
                ctx = gen.rbytes(rng, rng.choice([0, 5, 12, 32]), False)
                kind = rng.choice(["get", "getnext", "bulk"])
                # (one OID at most: the op fields of the harness command are comma separated) - size varies with the OID length
                oids = [ber.oid_content(gen.rarcs(rng, 6) + [rng.randrange(2 ** 32) for _y in range(rng.choice([0, 0, 3, 30, 200, 800]))])
                        for _x in range(rng.choice([0, 1, 1, 1]))]
                rid = rng.randrange(2 ** 31)
                boots, tm = rng.choice([0, 1, 2 ** 31 - 1, rng.randrange(2 ** 32)]), rng.choice([0, 255, rng.randrange(2 ** 32)])
                oh = ",".join(o.hex() for o in oids) or "-"
                if kind == "bulk":
                    spec = "bulk:%d:0:%d:%s" % (rid, 10, oh)
                    plain = scoped_of(ctx, kind, rid, oids, 0, 10)
                else:
                    spec = "%s:%d:%s" % (kind, rid, oh)
                    plain = scoped_of(ctx, kind, rid, oids)
                ops.append("e,%s,%s,%d,%d" % (gen.hx(ctx), spec, boots, tm))
                meta.append(("e", plain, boots, tm))
            elif t == 2:    # a decrypt of garbage in between (failed receive)
                ops.append("d,%s,%d,%d,%s" % (gen.hx(gen.rbytes(rng, rng.choice([8, 8, 7, 0]), False)), rng.randrange(2 ** 31), rng.randrange(2 ** 31),
                                              gen.hx(gen.rbytes(rng, rng.choice([8, 16, 24, 40, 13]), False))))
                meta.append(("dg",))
            else:           # placeholder: decrypt of a genuine ciphertext is appended after the first pass
                ops.append(None)
                meta.append(("dx",))
        hist.append((alg, key, ops))
        metas.append(meta)
    # first pass on the implementation to learn the random salt and to obtain ciphertexts for the genuine-decrypt slots
    lines1 = ["priv %d %s %s" % (alg, key.hex(), "|".join(o for o in ops if o is not None)) for alg, key, ops in hist]
    r1 = vf.run_lines(cd.rel, lines1)
    lines_m, lines_i, exps = [], [], []
    for (alg, key, ops), meta, o1 in zip(hist, metas, r1):
        outs = o1[3:].split(" | ") if o1.startswith("OK ") else []
        enc = [x for x in outs if x.startswith("E ")]
        if not enc:
            continue
        pp0 = enc[0].split(" ")[2]
        seed = int(pp0[8:], 16) if alg == 1 else int(pp0, 16)
        # agent-side encryption of a response under the same key, to be decrypted by the library in the dx slots
        full = []
        for o, mt in zip(ops, meta):
            if o is not None:
                full.append(o)
            else:
                resp = ber.scoped_pdu(b"\x80\x00\x01", b"", ber.pdu(0xA2, 99, 0, 0, [ber.varbind(ber.enc_oid([1, 3, 6, 1]), ber.enc_value("int", 5))]))
                salt = gen.rbytes(rng, 8, False)
                boots, tm = rng.randrange(2 ** 31), rng.randrange(2 ** 31)
                if alg == 1:
                    iv = bytes(a ^ b for a, b in zip(salt, key[8:16]))
                    pt = resp + bytes((-len(resp)) % 8)
                    q = "cipher des enc %s %s %s" % (key[:8].hex(), iv.hex(), pt.hex())
                else:
                    iv = boots.to_bytes(4, "big") + tm.to_bytes(4, "big") + salt
                    q = "cipher aes enc %s %s %s" % (key.hex(), iv.hex(), resp.hex())
                ct = vf.run_lines(v3exe, [q], shards=1)[0][3:]
                full.append("d,%s,%d,%d,%s" % (salt.hex(), boots, tm, ct))
        lines_i.append("priv %d %s %s" % (alg, key.hex(), "|".join(full)))
        lines_m.append("priv %d %s %d %s" % (alg, key.hex(), seed, "|".join(full)))
        exps.append((alg, key, meta, seed))
    mo = vf.run_lines(v3exe, lines_m, shards=16)
    ro = vf.run_lines(cd.rel, lines_i)
    do = vf.run_lines(cd.dbg, lines_i)
    # the implementation's salt is random per run: compare the model with each run after substituting its own first salt
    checks = []
    for (alg, key, meta, seed), lm, li, ml, rl, dl in zip(exps, lines_m, lines_i, mo, ro, do):
        c.count(li[:300], nontrivial=li.count("|") >= 1)
        for prof, o in (("release", rl), ("debug", dl)):
            if not o.startswith("OK "):
                c.violation("privacy history fails (%s build): %s" % (prof, o[:80]), {"cmd": li, "observed": o}, key="priv-history-fails")
                continue
            outs = o[3:].split(" | ")
            enc = [x for x in outs if x.startswith("E ")]
            pp0 = enc[0].split(" ")[2]
            seed_o = int(pp0[8:], 16) if alg == 1 else int(pp0, 16)
            if seed_o == seed:
                if o != ml:
                    dis += 1
                    if dis <= 3:
                        c.log("model/impl(%s) disagree on privacy history `%s`:\n   model %s\n   impl  %s" % (prof, li[:100], ml[:200], o[:200]))
                    if not any(b.startswith("correspondence") for b in c.broken):
                        c.broken = list(c.broken) + ["correspondence `%s`: model `%s` impl(%s) `%s`" % (lm[:200], ml[:120], prof, o[:120])]
            # oracle: each ciphertext decrypts (reference cipher, RFC IV from the transmitted salt) to scoped PDU + < 1 block of zeros
            ei = 0
            block = 8 if alg == 1 else 16
            for mt, x in zip(meta, outs):
                if mt[0] == "e":
                    if not x.startswith("E "):
                        # too large for the private buffer is legitimate
                        if len(mt[1]) + block > 4080 and x == "ERR OutOfBuffer":
                            continue
                        c.violation("encrypt failed: %s" % x, {"cmd": li, "profile": prof}, key="encrypt-failed")
                        continue
                    _, ct, pp = x.split(" ")
                    pp = bytes.fromhex(pp)
                    if len(pp) != 8:
                        c.violation("msgPrivacyParameters is %d octets" % len(pp), {"cmd": li, "profile": prof}, key="salt-length")
                    if alg == 1:
                        iv = bytes(a ^ b for a, b in zip(pp, key[8:16]))
                        q = "cipher des dec %s %s %s" % (key[:8].hex(), iv.hex(), ct)
                    else:
                        iv = (mt[2] % 2 ** 32).to_bytes(4, "big") + (mt[3] % 2 ** 32).to_bytes(4, "big") + pp
                        q = "cipher aes dec %s %s %s" % (key.hex(), iv.hex(), ct)
                    checks.append((q, mt[1], block, li, prof, ei))
                    ei += 1
                elif mt[0] == "dx":
                    if not x.startswith("D plain(800001,resp(99,0,0;2b0601=int:5))"):
                        c.violation("a response encrypted per RFC 3414/3826 by the agent is not decrypted to its content: %s" % x[:80],
                                    {"cmd": li, "profile": prof, "observed": x}, key="decrypt-genuine")
    outs = vf.run_lines(v3exe, [q for q, *_ in checks], shards=16)
    for (q, plain, block, li, prof, ei), o in zip(checks, outs):
        pt = bytes.fromhex(o[3:]) if o.startswith("OK ") and o[3:] != "-" else b""
        pad = pt[len(plain):]
        if pt[:len(plain)] != plain or len(pad) >= block or any(pad) or len(pt) < len(plain):
            how = "longer than the scoped PDU by %d octets" % len(pad) if pt[:len(plain)] == plain else "different from the scoped PDU"
            c.violation("message %d of a privacy history decrypts to something %s (%s build)" % (ei, how, prof),
                        {"cmd": li, "profile": prof, "decrypted": pt.hex()[:400], "scoped_pdu": plain.hex()[:400]},
                        key="ciphertext:" + ("extra-octets" if pt[:len(plain)] == plain else "wrong-plaintext"))
    c.sample({"history": lines_i[0][:200], "out": ro[0][:200]})

    # ---- API level: real sessions, every pair of (auth key type, privacy key type), engine id given and discovered:
    # each request must decrypt under the key localized by RFC 3414 A.2 (hashlib) and the encrypted reply must be read
    scs = []
    for priv, auth in (("des", "md5"), ("aes", "sha1"), ("des", "sha1"), ("aes", "md5")):
        ks = 16 if auth == "md5" else 20
        for akt in (0, 1, 2):
            for pkt in (0, 1, 2):
                for given in (True, False):
                    if not thorough and (akt, pkt, given) not in ((0, 0, False), (0, 1, False), (0, 2, False), (1, 0, False), (2, 1, False), (1, 2, True), (2, 0, True), (0, 2, True)):
                        continue
                    eng = (b"\x80\x00\x1f\x88" + gen.rbytes(rng, rng.choice([4, 9, 28]), False)).hex()
                    v3 = {"user": "cuser", "auth": [auth, akt, gen.rbytes(rng, ks if akt else 10, False).hex()],
                          "priv": [priv, pkt, gen.rbytes(rng, ks if pkt else 11, False).hex()], "engine_id": eng if given else None,
                          "agent_engine_id": eng, "boots": rng.randrange(2 ** 31), "time": rng.randrange(2 ** 31)}
                    vb = ber.varbind(ber.enc_oid([1, 3, 6, 1, 2, 1, 1, 5, 0]), ber.enc_value("os", b"secret-reply"))
                    steps = [{"op": "enter", "default_reply": {"pdu_tag": 0xA8, "mac": "absent", "encrypt": "no", "flags": 0}},
                             {"op": "get", "args": ["1.3.6.1.2.1.1.5.0"], "replies": [[{"vbs": vb.hex()}]]},
                             {"op": "get_many", "args": [["1.3.6.1.2.1.1.5.0", "1.3.6.1.2.1.1.6.0"]], "replies": [[{"vbs": vb.hex()}]]}]
                    scs.append({"version": "v3", "mode": rng.choice(["sync", "async"]), "timeout": 0.3, "v3": v3, "steps": steps})
    res, log = vf.run_api_worker("C11", {"scenarios": scs, "model_exe": v3exe}, timeout=900)
    n_api = 0
    if res is None:
        c.errors.append("API worker failed: " + log[-1500:])
    else:
        for sc, rec in zip(scs, res["records"]):
            if "driver_error" in rec:
                c.errors.append("API driver error: " + rec["driver_error"])
                continue
            v3 = sc["v3"]
            label = "%s+%s session, auth key type %d, privacy key type %d, engine id %s" % (v3["auth"][0], v3["priv"][0], v3["auth"][1], v3["priv"][1],
                                                                                         "given" if v3["engine_id"] else "discovered")
            n_api += 1
            c.count(label + v3["agent_engine_id"], True)
            if rec.get("create_error") or rec["steps"][0]["kind"] != "RET":
                c.violation(label + ": session / refresh failed: %s" % (rec.get("create_error") or rec["steps"][0].get("exc")),
                            {"scenario": sc, "outcome": rec["steps"][0] if rec["steps"] else None}, key="api-session-failed")
                continue
            for st, out in zip(sc["steps"][1:], rec["steps"][1:]):
                for q in out["requests"]:
                    if q.get("decrypt_error") or not q.get("pdu"):
                        c.violation(label + ": msgData of %s does not decrypt to a scoped PDU under the RFC 3414/3826 key and IV (%s)" % (st["op"], q.get("decrypt_error")),
                                    {"scenario": dict(sc, steps=[st]), "request": q}, key="api-request-undecryptable")
                    elif any(bytes.fromhex(q.get("padding", ""))) or len(q.get("padding", "")) // 2 >= (8 if v3["priv"][0] == "des" else 16):
                        c.violation(label + ": padding after the scoped PDU is %s" % q.get("padding"), {"scenario": dict(sc, steps=[st]), "request": q}, key="api-padding")
                if out["kind"] != "RET":
                    c.violation(label + ": the agent's encrypted reply to %s was not read: %s" % (st["op"], out.get("exc")),
                                {"scenario": dict(sc, steps=[st]), "outcome": out}, key="api-reply-undecryptable")
    return c.finish(
        rule="%d privacy histories (DES and AES-128): 1..7 interleaved encrypts of Get/GetNext/GetBulk scoped PDUs (OIDs of 2..800 arcs, context engine ids "
             "0..32 octets, boots/time up to 2^32-1), decrypts of garbage (wrong sizes, short salts) and decrypts of genuine agent-encrypted "
             "responses, on one key object each; %d ciphertexts decrypted by the reference cipher and compared with the independently encoded "
             "scoped PDU; non-trivial = history of >= 2 operations" % (len(lines_i), len(checks)),
        extra={"disagreements": dis, "ciphertexts": len(checks), "api_sessions": n_api})


def api_main(g, job):
    import scen
    return scen.api_main_generic(g, job)

"""C05 - a walk returns the whole subtree, in order, once - by GetNext or GetBulk.

Proof: Properties/C05.v (walk iterators against the RFC 3416 reference agent over every finite sorted MIB).
Correspondence / oracle: the real SnmpSession (getnext, getbulk with a max_repetitions x agent-cap grid, fetch;
v1, v2c, v3; sync and async) against an independent MIB-serving agent (harness/py/scen.py: mib_reply);
list(walk) must equal the entries strictly below the base, in order, each once."""
import os

from lib import codec, gen, pylayer, vf
import ber


def gen_mib(rng):
    """Sorted list of distinct OIDs under several subtrees, with multi-octet arcs and byte-prefix siblings."""
    n = rng.choice([0, 1, 3, 8, 20, 45])
    roots = [[1, 3, 6, 1, 2], [1, 3, 6, 1, 2, 1], [1, 3, 6, 1, 3], [1, 3, 6, 1, 2, 128], [1, 3, 6, 1, 2, 16384], [1, 3, 7], [1, 3, 6, 1, 2, 1, 1]]
    s = set()
    for _ in range(n):
        r = rng.choice(roots)
        tail = [rng.choice([0, 1, 2, 127, 128, 129, 255, 16383, 16384, 2 ** 32 - 1, rng.randrange(300)]) for _ in range(rng.randint(1, 4))]
        s.add(tuple(r + tail))
    ents = []
    for a in sorted(s):
        k, v = gen.rvalue(rng, ["int", "os", "c32", "ip", "oid", "c64", "tt", "bool"])
        ents.append((list(a), k, v))
    return ents


def subtree(ents, base):
    return [e for e in ents if len(e[0]) > len(base) and e[0][:len(base)] == base]


def default_max_rep(mode):
    return vf.default_max_repetitions(mode)


def main(argv):
    c = vf.Check("C05", argv)
    thorough = c.tier == "thorough"
    c.prove()
    rng = c.rng
    cfgs = [("v1", None), ("v2c", None), ("v3", {"user": "u0", "auth": None, "priv": None}),
            ("v3", {"user": "ud", "auth": ["md5", 2, "22" * 16], "priv": ["des", 2, "33" * 16]})]
    scs, exps = [], []
    n_mibs = 24 if thorough else 6
    for i in range(n_mibs):
        ents = gen_mib(rng)
        entries = [[a, gen.enc_rvalue(rng, k, v, legal_variants=False).hex()] for a, k, v in ents]
        bases = [[1, 3, 6, 1, 2], [1, 3, 6, 1, 2, 1], [1, 3, 6, 1, 2, 1, 1], [1, 3, 6, 1, 3], [1, 3, 7], [1, 3, 8], [1, 3, 6, 1, 2, 127], [1, 3, 6, 1, 2, 128],
                 [1, 3], [1, 3, 6, 1, 2, 16384]]
        if ents:
            bases.append(ents[rng.randrange(len(ents))][0])          # a leaf
            bases.append(ents[-1][0][:-1])                           # last subtree: the agent answers end-of-MIB
        for ver, v3 in cfgs:
            for mode in (("sync", "async") if (thorough or i % 2 == 0) else ("sync",)):
                sc = {"version": ver, "mode": mode, "timeout": 0.5, "steps": [],
                      "session_kw": rng.choice([{}, {}, {"max_repetitions": rng.choice([1, 5, 127, 128, 150, 255, 256, 65536, 2 ** 31 - 1])}])}
                if v3:
                    sc["v3"] = dict(v3, engine_id="80001f8880a1b2c3d4", agent_engine_id="80001f8880a1b2c3d4", boots=2, time=500)
                ex = []
                for base in (bases if thorough else rng.sample(bases, 5)):
                    mib = {"entries": entries, "cap": rng.choice([1, 2, 3, 5, 1000]), "pad": rng.choice([0, 0, 1, 3])}
                    kinds = ["getnext", "fetch"] if ver == "v1" else ["getnext", "getbulk", "getbulk", "fetch"]
                    for kind in kinds:
                        if kind == "getbulk":
                            mr = rng.choice([1, 2, 3, 7, 20, 50, 127, 128, 200, 255, 256, 1000, 32767, 32768, 65535, 65536, 65537, 131072, 2 ** 24, 2 ** 31 - 1])
                            args = [ber.oid_text(base), mr]
                        else:
                            args = [ber.oid_text(base)]
                        sc["steps"].append({"op": kind, "args": args, "mib": mib, "cap": 500})
                        ex.append((kind, base, ents, mib))
                scs.append(sc)
                exps.append(ex)
    ok3, log3, v3exe = vf.ocaml_build("v3", "v3_model", "v3_driver")
    okc, logc, cexe = vf.ocaml_build("codec", "codec_model", "codec_driver")
    if not (ok3 and okc):
        c.errors.append("building the extracted models failed: " + (log3 + logc)[-1500:])
        return c.finish("n/a")
    res, log = vf.run_api_worker("C05", {"scenarios": scs, "model_exe": v3exe}, timeout=1500)
    n = 0
    dis = 0
    emap = codec.errmap()
    # the same walks in Model.Walk (the functions the C05 theorems are about), fed with the replies the agent really gave
    mlines, mkeys = [], {}
    if res is not None:
        for si, (sc, rec) in enumerate(zip(scs, res["records"])):
            for ti, (st, out) in enumerate(zip(sc["steps"], rec.get("steps", []))):
                xs = out.get("exchanges", [])
                if not xs or any(not x.get("reply_spec") for x in xs):
                    continue
                pdus = [ber.pdu(0xA2, 1, x["reply_spec"].get("es", 0), x["reply_spec"].get("ei", 0), [bytes.fromhex(x["reply_spec"]["vbs"])]).hex() for x in xs]
                kind = {"getnext": "next", "getbulk": "bulk:%s" % (st["args"][1] if len(st["args"]) > 1 else "-"),
                        "fetch": "fetch:%s:1" % sc["version"]}[st["op"]]
                mkeys[(si, ti)] = len(mlines)
                mlines.append("pywalk %s %s %d 600 %s" % (kind, st["args"][0].encode().hex(), sc["session_kw"].get("max_repetitions", default_max_rep(sc["mode"])), " ".join(pdus)))
    mwalks = vf.run_lines(cexe, mlines) if mlines else []
    if res is None:
        c.errors.append("API worker failed: " + log[-1500:])
    else:
        for sc, ex, rec in zip(scs, exps, res["records"]):
            if "driver_error" in rec:
                c.errors.append("API driver error: " + rec["driver_error"])
                continue
            for ti, (st, (kind, base, ents, mib), out) in enumerate(zip(sc["steps"], ex, rec["steps"])):
                n += 1
                mk = mkeys.get((scs.index(sc), ti))
                if mk is not None and out["kind"] == "ITER":
                    mw = mwalks[mk]
                    i_req = [ber.oid_content(((q.get("pdu") or {}).get("oids") or [[0, 0]])[0]).hex() for q in out.get("requests", [])]
                    impl = "OK items=%s req=%s end=%s" % (";".join(out["items"]) or "-", ",".join(i_req) or "-", out["ending"])
                    if not codec.same(mw, impl, emap):
                        dis += 1
                        if dis <= 3:
                            c.log("Model.Walk and the %s/%s %s iterator differ:\n     model %s\n     impl  %s" % (sc["version"], sc["mode"], kind, mw[:300], impl[:300]))
                        if not any(b.startswith("correspondence") for b in c.broken):
                            c.broken = list(c.broken) + ["correspondence (Model.Walk vs %s/%s %s%s): model `%s` impl `%s`"
                                                         % (sc["version"], sc["mode"], kind, st["args"], mw[:160], impl[:160])]
                want = subtree(ents, base)
                c.count(("walk", sc["version"], sc["mode"], kind, tuple(base), len(ents), mib["cap"], mib["pad"], str(st["args"])), len(want) >= 2)
                if n <= 3:
                    c.sample({"version": sc["version"], "mode": sc["mode"], "op": kind, "args": st["args"], "mib_size": len(ents),
                              "agent_cap": mib["cap"], "expected_items": len(want), "got": len(out.get("items", [])), "ending": out.get("ending")})
                if out["kind"] != "ITER":
                    c.violation("%s/%s %s(%s) raised %s" % (sc["version"], sc["mode"], kind, st["args"], out.get("exc")),
                                {"scenario": dict(sc, steps=[st]), "outcome": out}, key="walk-raised")
                    continue
                wants = ["(str:%s,%s)" % (gen.hx(ber.oid_text(a).encode()), gen.expected_render(k, v)) for a, k, v in want]
                if out["items"] != wants or out["ending"] != "STOP":
                    # which way does it differ
                    got_oids = [x.split(",")[0] for x in out["items"]]
                    want_oids = [x.split(",")[0] for x in wants]
                    how = "ending %s" % out["ending"] if out["ending"] != "STOP" else \
                        ("missing entries" if len(got_oids) < len(want_oids) else "extra or repeated entries" if len(got_oids) > len(want_oids)
                         else "wrong order or OIDs" if got_oids != want_oids else "wrong values")
                    c.violation("%s/%s %s(%s) over a MIB of %d entries (agent cap %d, pad %d) does not return the subtree: %s (%d items, expected %d)"
                                % (sc["version"], sc["mode"], kind, st["args"], len(ents), mib["cap"], mib["pad"], how, len(out["items"]), len(wants)),
                                {"scenario": dict(sc, steps=[st]), "got": out["items"][:50], "expected": wants[:50], "ending": out["ending"]},
                                key="walk-subtree:" + how.split(" ")[0])
    # ---- the Python layer alone (single calls, iterators, several objects on one session) on scripted socket results,
    # against Model.PyLayer (lib/pylayer.py): what the socket hands over reaches the right caller, once, in order
    n_pl, d_pl = pylayer.run(c, cexe, c.rng, 1500 if thorough else 300, "C05")
    c.coverage["python_layer_cases"] = n_pl
    return c.finish(
        rule="%d walks: %d random MIBs (0..45 entries; multi-octet arcs 127/128/16383/16384/2^32-1; siblings sharing byte prefixes; entries "
             "before and after the subtree) x bases (subtree, leaf, absent, last subtree, whole tree) x {getnext, getbulk max_repetitions "
             "1..50 x agent cap 1..1000 x endOfMibView padding 0..3, fetch} x {v1, v2c, v3 noAuth, v3 MD5+DES} x {sync, async}; "
             "non-trivial = the subtree has at least 2 entries" % (n, n_mibs),
        extra={"walks": n, "traces_validated_against_impl": n, "walks_replayed_in_Model_Walk": len(mlines), "disagreements": dis})


def api_main(g, job):
    import scen
    return scen.api_main_generic(g, job)

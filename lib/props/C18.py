"""C18 - a request never outlives its timeout  (partial: logical clock).

Proof: Properties/C18.v over the logical-clock model Model/Timing.v.  Correspondence / oracle: wall-clock runs of
the real clients: timeout T, schedules of k stray (well-formed, non-matching) datagrams spaced 0.4 T apart,
optionally followed by the matching reply before or after the deadline; a call must return by T + slack, raise
TimeoutError when no matching reply arrived in time and deliver a reply that did.  Suspected violations are re-run
twice before they are reported (scheduling noise)."""
from lib import gen, vf
import ber

T = 0.25
SLACK = 0.2


def build(k, reply_at, ver, mode):
    """strays at 0.4T, 0.8T, ...; the matching reply (if any) at reply_at seconds after the request"""
    vb = ber.varbind(ber.enc_oid([1, 3, 6, 1, 2, 1, 1, 3, 0]), ber.enc_value("tt", 4242))
    reps = []
    for i in range(k):
        reps.append({"vbs": vb.hex(), "rid": 11 + i, "delay": round(0.4 * T * (i + 1), 3)})
    if reply_at is not None:
        reps.append({"vbs": vb.hex(), "delay": reply_at})
    sc = {"version": ver, "mode": mode, "timeout": T, "steps": [{"op": "get", "args": ["1.3.6.1.2.1.1.3.0"], "replies": [reps], "settle": 0.0}]}
    if ver == "v3":
        sc["v3"] = {"user": "u0", "auth": None, "priv": None, "engine_id": "80001f8880a1b2c3d4", "agent_engine_id": "80001f8880a1b2c3d4", "boots": 1, "time": 1}
        for r in reps:
            if "rid" in r:
                r["msgid"] = 5   # a stray with a foreign message id as well
    return sc


def build_history(ver, mode):
    """A reused session: (stray, then silence -> timeout), then a reply in the middle of the timeout, then silence."""
    vb = ber.varbind(ber.enc_oid([1, 3, 6, 1, 2, 1, 1, 3, 0]), ber.enc_value("tt", 4242))
    sc = build(0, None, ver, mode)
    stray = {"vbs": vb.hex(), "rid": 77, "delay": round(0.6 * T, 3)}
    if ver == "v3":
        stray["msgid"] = 5
    get = {"op": "get", "args": ["1.3.6.1.2.1.1.3.0"]}
    sc["steps"] = [dict(get, replies=[[{"vbs": vb.hex()}]]),                       # warm-up, delivered at once
                   dict(get, replies=[[stray]], settle=0.05),                      # stray at 0.6 T, then silence: TimeoutError at T
                   dict(get, replies=[[{"vbs": vb.hex(), "delay": round(0.5 * T, 3)}]]),   # reply at 0.5 T: must be delivered
                   dict(get, replies=[[]]),                                        # silence: TimeoutError at T, not earlier
                   dict(get, replies=[[stray, {"vbs": vb.hex(), "delay": round(0.8 * T, 3)}]])]  # stray then reply at 0.8 T: delivered
    return sc


def expected(k, reply_at):
    if reply_at is not None and reply_at <= T - 0.04:
        return "deliver"
    if reply_at is None or reply_at >= T + 0.04:
        return "timeout"
    return None


def main(argv):
    c = vf.Check("C18", argv)
    thorough = c.tier == "thorough"
    c.prove()
    cases = []
    for ver in ("v1", "v2c", "v3"):
        for mode in ("sync", "async"):
            for k in ((0, 1, 2, 3, 4) if thorough else (0, 2, 4)):
                for reply_at in (None, 0.1 * T, 0.8 * T + 0.4 * T * 0, T + 0.15):
                    if reply_at is not None and 0 < k and reply_at > 0.4 * T * k + 0.05 and reply_at < T:
                        pass
                    cases.append((ver, mode, k, reply_at))
    pending = list(cases)
    results = {}
    for attempt in range(3):
        if not pending:
            break
        scs = [build(k, ra, ver, mode) for ver, mode, k, ra in pending]
        res, log = vf.run_api_worker("C18", {"scenarios": scs, "parallel": 12}, timeout=900)
        if res is None:
            c.errors.append("API worker failed: " + log[-1500:])
            break
        again = []
        for case, rec in zip(pending, res["records"]):
            if "driver_error" in rec:
                c.errors.append("API driver error: " + rec["driver_error"])
                continue
            out = rec["steps"][0]
            results[case] = out
            ver, mode, k, ra = case
            late = out["wall"] > T + SLACK
            exp = expected(k, ra)
            got = "deliver" if out["kind"] == "RET" else ("timeout" if out.get("exc") == "TimeoutError" else out.get("exc"))
            if (late or (exp and got != exp)) and attempt < 2:
                again.append(case)
        pending = again
    # ---- histories on one session (the socket timeout must be the same for every call)
    hist = [(ver, mode) for ver in ("v1", "v2c", "v3") for mode in ("sync", "async")]
    want = ["deliver", "timeout", "deliver", "timeout", "deliver"]
    pending_h = list(hist)
    hres = {}
    for attempt in range(3):
        if not pending_h:
            break
        res, log = vf.run_api_worker("C18", {"scenarios": [build_history(v, m) for v, m in pending_h], "parallel": 6}, timeout=600)
        if res is None:
            c.errors.append("API worker failed: " + log[-1500:])
            break
        again = []
        for hm, rec in zip(pending_h, res["records"]):
            if "driver_error" in rec:
                c.errors.append("API driver error: " + rec["driver_error"])
                continue
            hres[hm] = rec
            for i, out in enumerate(rec["steps"]):
                got = "deliver" if out["kind"] == "RET" else ("timeout" if out.get("exc") == "TimeoutError" else out.get("exc"))
                if (got != want[i] or out["wall"] > T + SLACK or (want[i] == "timeout" and out["wall"] < 0.8 * T)) and attempt < 2:
                    again.append(hm)
                    break
        pending_h = again
    for (ver, mode), rec in hres.items():
        c.count(("history", ver, mode), True)
        walls = [o["wall"] for o in rec["steps"]]
        for i, out in enumerate(rec["steps"]):
            got = "deliver" if out["kind"] == "RET" else ("timeout" if out.get("exc") == "TimeoutError" else out.get("exc"))
            if got != want[i]:
                c.violation("%s/%s reused session, call %d of the history (timeout %.2fs): outcome %s after %.2fs, expected %s (walls %s)"
                            % (ver, mode, i, T, got, out["wall"], want[i], walls), {"scenario": build_history(ver, mode), "walls": walls, "call": i},
                            key="%s-history-outcome-%s-expected-%s" % (mode, got, want[i]))
                break
            if out["wall"] > T + SLACK:
                c.violation("%s/%s reused session, call %d returned after %.2fs (timeout %.2fs)" % (ver, mode, i, out["wall"], T),
                            {"scenario": build_history(ver, mode), "walls": walls}, key="%s-history-late" % mode)
                break
            if want[i] == "timeout" and out["wall"] < 0.8 * T:
                c.violation("%s/%s reused session, call %d gave up after %.2fs although the session timeout is %.2fs: a reply arriving in "
                            "between would have been lost" % (ver, mode, i, out["wall"], T), {"scenario": build_history(ver, mode), "walls": walls},
                            key="%s-timeout-too-early" % mode)
                break
    n = 0
    for case in cases:
        out = results.get(case)
        if out is None:
            continue
        ver, mode, k, ra = case
        n += 1
        c.count(case, nontrivial=k > 0)
        exp = expected(k, ra)
        got = "deliver" if out["kind"] == "RET" else ("timeout" if out.get("exc") == "TimeoutError" else out.get("exc"))
        if n <= 4 or (mode == "sync" and k == 4 and ra is None):
            c.sample({"version": ver, "client": mode, "strays": k, "reply_at_s": ra, "timeout_s": T, "returned_after_s": out["wall"], "outcome": got})
        if out["wall"] > T + SLACK:
            c.violation("%s/%s get with timeout %.2fs, %d stray datagrams %.2fs apart%s: returned after %.2fs (%s)"
                        % (ver, mode, T, k, 0.4 * T, "" if ra is None else ", matching reply at %.2fs" % ra, out["wall"], got),
                        {"scenario": build(k, ra, ver, mode), "wall_s": out["wall"], "outcome": got},
                        key="%s-timeout-extended-by-strays" % mode if k > 0 else "%s-timeout-late" % mode)
        elif exp and got != exp:
            # with strays the sync client's deadline moves, so a reply after T may still be delivered: same finding
            key = "%s-timeout-extended-by-strays" % mode if (mode == "sync" and k > 0 and exp == "timeout" and got == "deliver") else "%s-outcome-%s-expected-%s" % (mode, got, exp)
            c.violation("%s/%s get, %d strays, reply at %s: outcome %s, expected %s" % (ver, mode, k, ra, got, exp),
                        {"scenario": build(k, ra, ver, mode), "wall_s": out["wall"], "outcome": got}, key=key)
    # ---- very many wake-ups inside one call: 1500 non-matching datagrams arriving one by one (about 0.6 s) neither end the call
    # early nor change how it ends: the reply behind them is delivered, silence still ends in TimeoutError at the timeout
    T2 = 4.0
    vb = ber.varbind(ber.enc_oid([1, 3, 6, 1, 2, 1, 1, 3, 0]), ber.enc_value("tt", 4242))
    many = []
    for mode in ("sync", "async"):
        for tail in ("reply", "silence"):
            reps = [{"vbs": vb.hex(), "rid": "same+%d" % (1 + i % 7), "delay": -0.0003} for i in range(3000 if thorough else 1500)]
            if tail == "reply":
                reps.append({"vbs": vb.hex(), "delay": -0.02})
            many.append({"version": "v2c", "mode": mode, "timeout": T2, "watchdog": 30.0, "_tail": tail,
                         "steps": [{"op": "get", "args": ["1.3.6.1.2.1.1.3.0"], "replies": [reps]}]})
    resm, logm = vf.run_api_worker("C18", {"scenarios": [{k: v for k, v in sc.items() if not k.startswith("_")} for sc in many], "parallel": 2}, timeout=600)
    if resm is None:
        c.violation("the process running a session died or hung while one call skipped %d datagrams: %s" % (len(many[0]["steps"][0]["replies"][0]), logm.strip()[-200:]),
                    {"worker_log": logm[-1000:]}, key="many-wakeups-process")
    else:
        for sc, rec in zip(many, resm["records"]):
            if "driver_error" in rec:
                c.errors.append("API driver error: " + rec["driver_error"])
                continue
            out = rec["steps"][0]
            n += 1
            c.count(("many-wakeups", sc["mode"], sc["_tail"]), True)
            got = "deliver" if out["kind"] == "RET" else out.get("exc")
            nst = len(sc["steps"][0]["replies"][0])
            if sc["_tail"] == "reply" and got != "deliver":
                c.violation("v2c/%s get (timeout %.1fs): after %d non-matching datagrams arriving one by one the matching reply (well inside the timeout) was not "
                            "delivered: %s after %.2fs" % (sc["mode"], T2, nst - 1, got, out["wall"]), {"mode": sc["mode"], "strays": nst - 1, "outcome": got, "wall_s": out["wall"]},
                            key="%s-many-wakeups-reply-lost" % sc["mode"])
            elif sc["_tail"] == "silence" and (got != "TimeoutError" or out["wall"] > T2 + 0.5 or out["wall"] < 0.8 * T2):
                c.violation("v2c/%s get (timeout %.1fs): %d non-matching datagrams arriving one by one, then silence: %s after %.2fs (expected TimeoutError at the timeout)"
                            % (sc["mode"], T2, nst, got, out["wall"]), {"mode": sc["mode"], "strays": nst, "outcome": got, "wall_s": out["wall"]},
                            key="%s-many-wakeups-%s" % (sc["mode"], "early" if out["wall"] < 0.8 * T2 else "late" if got == "TimeoutError" else "exception"))
    c.assumptions += ["wall-clock measurement on a loaded 16-core sandbox: slack %.2fs, suspected violations re-run twice" % SLACK,
                      "the logical-clock model cannot exhibit scheduler latency, timer granularity or GIL hand-over (partial)"]
    return c.finish(
        rule="%d wall-clock schedules: timeout %.2fs, k in {0..4} stray well-formed non-matching datagrams %.2fs apart, matching reply absent / "
             "early / late, x {v1, v2c, v3} x {sync, async}, plus 6 five-call histories on a reused session (stray+timeout, mid-timeout reply, "
             "silence, stray+reply); bound T + %.2fs, no give-up before 0.8 T; non-trivial = at least one stray" % (n, T, 0.4 * T, SLACK),
        extra={"schedules": n, "traces_validated_against_impl": n})


def api_main(g, job):
    """Schedules are independent: run them in parallel threads (each has its own agent and session)."""
    import concurrent.futures
    import scen
    out = [None] * len(job["scenarios"])

    def one(i):
        try:
            return scen.run_scenario(g, job["scenarios"][i])
        except BaseException as e:  # noqa: BLE001
            return {"driver_error": repr(e)}
    with concurrent.futures.ThreadPoolExecutor(max_workers=job.get("parallel", 8)) as ex:
        for i, r in enumerate(ex.map(one, range(len(job["scenarios"])))):
            out[i] = r
    return {"records": out}

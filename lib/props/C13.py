"""C13 - engine discovery and time sync follow the agent.

Proof: Properties/C13.v (engine id adopted once and never changed, boots/time follow the most recent accepted
message, every request stamped with them, set_keys localises to the learned engine id, the refresh protocol of the
Python layer).  Correspondence / oracle: real sessions (sync and async) against a v3 agent with a generated
identity whose boots/time change between replies; every request after discovery must carry the agent's engine id
and its latest boots/time, verify under the key localized (hashlib, RFC 3414 A.2) to THAT engine id, and decrypt."""
import hashlib
import hmac
import os
import sys

from lib import gen, vf

sys.path.insert(0, os.path.join(vf.VERIF, "harness", "py"))
import ber  # noqa: E402
import scen  # noqa: E402


def main(argv):
    c = vf.Check("C13", argv)
    thorough = c.tier == "thorough"
    c.prove()
    ok3, log3, v3exe = vf.ocaml_build("v3", "v3_model", "v3_driver")
    if not ok3:
        c.errors.append("model build failed " + log3[-800:])
        return c.finish("n/a")
    rng = c.rng
    combos = []
    for auth in (None, "md5", "sha1"):
        for priv in (None, "des", "aes"):
            if priv and not auth:
                continue
            for kt in (0, 1, 2):
                if not auth and kt:
                    continue
                combos.append((auth, priv, kt))
    scs = []
    for auth, priv, kt in combos:
        for given in (False, True):
            for mode in (("sync", "async") if thorough or rng.random() < 0.5 else (rng.choice(["sync", "async"]),)):
                ks = {"md5": 16, "sha1": 20}.get(auth, 16)
                akey = (gen.rbytes(rng, rng.choice([8, 12, 30]), False) if kt == 0 else gen.rbytes(rng, rng.choice([ks, ks - 3, ks + 4]), False)).hex()
                pkt = rng.choice([0, 1, 2])        # the privacy key's type is independent of the auth key's
                pkey = (gen.rbytes(rng, rng.choice([8, 16]), False) if pkt == 0 else gen.rbytes(rng, rng.choice([ks, 16, ks + 2]), False)).hex()
                eng = (b"\x80\x00\x1f\x88" + gen.rbytes(rng, rng.choice([1, 5, 13, 28]), False)).hex()
                v3 = {"user": "user%d" % rng.randrange(100), "auth": [auth, kt, akey] if auth else None,
                      "priv": [priv, pkt, pkey] if priv else None, "engine_id": eng if given else None, "agent_engine_id": eng,
                      "boots": rng.randrange(2 ** 31), "time": rng.randrange(2 ** 31),
                      "engine_id_empty": (not given) and rng.random() < 0.5}      # "not known" said as b"" instead of None
                report = {"pdu_tag": 0xA8, "mac": "absent", "encrypt": "no", "flags": 0, "boots": v3["boots"], "time": v3["time"]}
                # during discovery a stray Report with a foreign message id, engine id and clock arrives first: it must leave no trace
                stray_report = dict(report, msgid="same+1", engine="80001f8880ee" + "%02x" % rng.randrange(256), boots=7, time=7)
                steps = [{"op": "enter", "replies": [[stray_report, report]], "default_reply": report}]
                if not given and rng.random() < 0.5:
                    # the first discovery probe is lost (the call times out); the retry must still install the user's keys
                    steps = [{"op": "enter", "replies": [[]], "_lost": True}] + steps
                stamps = []
                for k in range(6 if thorough else 4):
                    b, t = rng.choice([v3["boots"], v3["boots"] + 1, rng.randrange(2 ** 31)]), rng.choice([0, 1, 2 ** 31 - 1, rng.randrange(2 ** 31)])
                    stamps.append((b, t))
                    vb = ber.varbind(ber.enc_oid([1, 3, 6, 1, 2, 1, 1, 3, 0]), ber.enc_value("tt", k))
                    steps.append({"op": "get", "args": ["1.3.6.1.2.1.1.3.0"], "replies": [[{"vbs": vb.hex(), "boots": b, "time": t}]]})
                    if k == 1:
                        # a request answered only by a stray (right user and engine id, foreign request-id / message id, other clock):
                        # it times out, and the session's clock must still be the one of the last ACCEPTED message
                        svb = ber.varbind(ber.enc_oid([1, 3, 6, 1, 2, 1, 1, 3, 0]), ber.enc_value("tt", 999))
                        stray = {"vbs": svb.hex(), "boots": b + 3, "time": 424242}
                        how = rng.choice(["rid", "msgid", "engine-extended", "engine-prefix"])
                        if how in ("rid", "msgid"):
                            stray[how] = "same+1"
                        else:
                            # every id right, but the authoritative engine id is the session's one with an octet more / less:
                            # another engine (e.g. 'router1' / 'router10'), not this session's agent
                            stray["engine"] = eng + "30" if how == "engine-extended" else eng[:-2]
                        steps.append({"op": "get", "args": ["1.3.6.1.2.1.1.3.0"], "replies": [[stray]], "_stray": True})
                        stamps.append(None)
                scs.append({"version": "v3", "mode": mode, "timeout": 0.2, "v3": v3, "steps": steps, "_stamps": stamps, "_given": given})
    # ---- a user whose key the socket refuses (an empty password), engine id to be discovered: the probe is answered, set_keys
    # raises, and the session must be left able to try again (same model, Model.Session.py_refresh, Err branch)
    n_main = len(scs)
    for auth in ("md5", "sha1"):
        for priv in (None, "des", "aes"):
            for which in (("auth", "priv") if priv else ("auth",)):
                ks = {"md5": 16, "sha1": 20}[auth]
                eng = (b"\x80\x00\x1f\x88" + gen.rbytes(rng, rng.choice([1, 5, 13, 28]), False)).hex()
                a = [auth, 0, ""] if which == "auth" else [auth, rng.choice([0, 1, 2]), gen.rbytes(rng, ks, False).hex()]
                p = None if not priv else [priv, 0, ""] if which == "priv" else [priv, rng.choice([0, 1, 2]), gen.rbytes(rng, ks, False).hex()]
                v3 = {"user": "user%d" % rng.randrange(100), "auth": a, "priv": p, "engine_id": None, "agent_engine_id": eng,
                      "boots": rng.randrange(2 ** 31), "time": rng.randrange(2 ** 31), "engine_id_empty": rng.random() < 0.5}
                report = {"pdu_tag": 0xA8, "mac": "absent", "encrypt": "no", "flags": 0, "boots": v3["boots"], "time": v3["time"]}
                steps = [{"op": "enter", "replies": [[report]], "default_reply": report} for _ in range(3)]
                scs.append({"version": "v3", "mode": rng.choice(["sync", "async"]), "timeout": 0.2, "v3": v3, "steps": steps, "_stamps": [],
                            "_given": False, "_refused": which})
    res, log = vf.run_api_worker("C13", {"scenarios": [{k: v for k, v in sc.items() if not k.startswith("_")} for sc in scs], "model_exe": v3exe}, timeout=1200)
    stray_steps = sum(1 for sc in scs for st in sc["steps"] if st.get("_stray"))
    n = 0
    dis = 0
    if res is None:
        c.errors.append("API worker failed: " + log[-1500:])
    else:
        # the model's state machine replayed over every recorded history (ties Model/V3.v to socket/v3.rs)
        from lib import v3replay
        rp = v3replay.Replayer(v3exe)
        for sc, rec in zip(scs, res["records"]):
            if "driver_error" in rec or rec.get("create_error"):
                continue
            for d in v3replay.replay(rp, sc, rec):
                dis += 1
                if dis <= 4:
                    c.log("model/impl disagree: " + d[:400])
                if not any(b.startswith("correspondence") for b in c.broken):
                    c.broken = list(c.broken) + ["correspondence (v3 state machine replay): " + d[:400]]
        rp.close()
        for sc, rec in zip(scs, res["records"]):
            if "driver_error" in rec:
                c.errors.append("API driver error: " + rec["driver_error"])
                continue
            v3 = sc["v3"]
            n += 1
            label = "%s/%s/%s keytype %s, engine id %s, %s" % (v3["auth"] and v3["auth"][0], v3["priv"] and v3["priv"][0], sc["mode"],
                                                              v3["auth"] and v3["auth"][1], "given" if sc["_given"] else "discovered", v3["agent_engine_id"])
            c.count(label + str(v3["user"]), True)
            eng = bytes.fromhex(v3["agent_engine_id"])

            def bad(what, extra=None, key="x"):
                c.violation("%s: %s" % (label, what), {"scenario": {k: v for k, v in sc.items() if not k.startswith("_")}, "detail": extra}, key=key)
            if sc.get("_refused"):
                # every attempt: one probe answered, then the refusal; nothing is ever signed or encrypted with a made-up key,
                # and the engine id, once learned, is the agent's
                for k, out in enumerate(rec["steps"]):
                    if out["kind"] == "RET" or out.get("exc") != "ValueError":
                        bad("entry %d of a session whose %s key is an empty password gave %s, ValueError expected" % (k, sc["_refused"], out.get("exc") or "a result"),
                            out, key="refused-key-accepted")
                    for q in out["requests"]:
                        if "error" in q or q.get("flags", 0) & 3 or q.get("auth") or q.get("priv"):
                            bad("entry %d sent a message that is malformed, flagged or carries security parameters although no key was accepted" % k, q,
                                key="refused-key-used")
                        if q.get("engine_id") not in ("", v3["agent_engine_id"]):
                            bad("entry %d carries engine id %s" % (k, q.get("engine_id")), q, key="engine-id")
                continue
            keys = scen.V3Keys(v3, eng)
            if rec.get("create_error"):
                bad("session could not be created: %s" % rec["create_error"], key="create")
                continue
            if sc["steps"][0].get("_lost"):
                lost = rec["steps"].pop(0)
                sc = dict(sc, steps=sc["steps"][1:])
                if lost["kind"] == "RET":
                    bad("refresh returned although the discovery probe was never answered", lost, key="refresh-without-reply")
            enter = rec["steps"][0]
            if enter["kind"] != "RET":
                bad("refresh failed: %s" % enter.get("exc"), enter, key="refresh-failed")
                continue
            probes = enter["requests"]
            need_auth = v3["auth"] is not None
            want_probes = (2 if not sc["_given"] else (1 if need_auth else 0))
            if len(probes) != want_probes:
                bad("refresh sent %d probes, expected %d" % (len(probes), want_probes), probes, key="probe-count")
            if not sc["_given"] and probes:
                p0 = probes[0]
                if p0.get("engine_id") != "" or p0.get("user") != "" or p0.get("flags") != 4 or p0.get("auth") != "":
                    bad("the discovery probe is not an empty-engine-id, empty-user, noAuth reportable request", p0, key="probe-shape")
            # after refresh every request must be stamped with the agent's identity and latest clock
            expected_stamp = (v3["boots"], v3["time"]) if want_probes else (0, 0)
            for k, out in enumerate(rec["steps"][1:]):
                for q in out["requests"]:
                    if "error" in q:
                        bad("request %d is not well formed: %s" % (k, q["error"]), q, key="malformed")
                        continue
                    if q.get("engine_id") != v3["agent_engine_id"]:
                        bad("request %d carries engine id %s, the agent's is %s" % (k, q.get("engine_id"), v3["agent_engine_id"]), q, key="engine-id")
                    if (q.get("boots"), q.get("time")) != expected_stamp:
                        bad("request %d carries boots/time %s, the agent last said %s" % (k, (q.get("boots"), q.get("time")), expected_stamp), q, key="stamp")
                    if bytes.fromhex(q.get("user", "")) != v3["user"].encode():
                        bad("request %d carries user %s" % (k, q.get("user")), q, key="user")
                    raw = bytes.fromhex(out["emitted"][0]) if out["emitted"] else b""
                    if need_auth:
                        off = q.get("auth_offset")
                        if not (q.get("flags", 0) & 1) or off is None:
                            bad("request %d is not flagged authenticated" % k, q, key="auth-flag")
                        else:
                            z = raw[:off] + bytes(12) + raw[off + 12:]
                            if hmac.new(keys.auth_key, z, keys.auth[0]).digest()[:12].hex() != q.get("auth"):
                                bad("request %d does not verify under the user's key localized to the agent's engine id" % k, q, key="mac-localization")
                    if v3["priv"]:
                        if q.get("decrypt_error") or not q.get("pdu"):
                            bad("request %d does not decrypt under the privacy key localized to the agent's engine id: %s" % (k, q.get("decrypt_error")), q,
                                key="priv-localization")
                        elif q.get("ctx_engine_id") != v3["agent_engine_id"]:
                            bad("request %d has context engine id %s" % (k, q.get("ctx_engine_id")), q, key="ctx-engine-id")
                if sc["steps"][k + 1].get("_stray"):
                    if out["kind"] == "RET":
                        bad("a reply with a foreign request-id / message id / engine id was delivered: %s" % out.get("value"), out, key="stray-delivered")
                    # expected_stamp unchanged: a rejected datagram must not move the clock
                    continue
                idx = sum(1 for st in sc["steps"][1:k + 2] if not st.get("_stray")) - 1
                if out["kind"] == "RET" and out["value"] == "int:%d" % idx:
                    expected_stamp = [x for x in sc["_stamps"] if x is not None][idx]
                else:
                    bad("get %d returned %s" % (k, out.get("value") or out.get("exc")), out, key="get-failed")
            if n <= 2:
                c.sample({"config": label, "probes": len(probes), "requests_checked": len(rec["steps"]) - 1})
    return c.finish(
        rule="%d sessions: {noAuth, MD5, SHA-1} x {none, DES, AES} x {password, master, localized keys of aligned and unaligned sizes, auth and privacy key types chosen independently} x {engine id "
             "given, discovered} x {sync, async}, agent engine ids of 5..32 octets, boots/time 0..2^31-1 changing after every reply; each "
             "session: refresh then 4..6 requests, each checked for engine id, boots/time, user, MAC and decryptability; all distinct and non-trivial" % n,
        extra={"sessions": n, "traces_validated_against_impl": n, "disagreements": dis})


def api_main(g, job):
    return scen.api_main_generic(g, job)

"""C12 - USM keys are derived exactly as RFC 3414 A.2 prescribes.

Proof: Properties/C12.v (password_to_master = digest of the first 2^20 octets of the repeated password, by a pure
list identity plus the proved streaming law of the Gallina MD5/SHA-1; localize = H(Ku || engineID || Ku); the
dispatch on the two key-type bits; refusal of empty passwords, wrong sizes and unknown codes; never a panic).
Correspondence: the extracted model (Gallina MD5 / SHA-1) against get_master_key / get_localized_key of the real
module, AuthKey::password_to_master / localize / as_key_type (codec harness), and the keys a real session actually
uses (its first authenticated request verifies under the independently derived key).
Oracle: hashlib implementation of RFC 3414 A.2 (harness/py/scen.py)."""
import hashlib
import os
import sys

from lib import codec, gen, vf

sys.path.insert(0, os.path.join(vf.VERIF, "harness", "py"))
import scen  # noqa: E402

ALGN = {1: "md5", 2: "sha1"}
KS = {1: 16, 2: 20}


def main(argv):
    c = vf.Check("C12", argv)
    thorough = c.tier == "thorough"
    c.prove()
    cd = codec.Codec(c)
    ok3, log3, v3exe = vf.ocaml_build("v3", "v3_model", "v3_driver")
    if not (cd.ok and ok3):
        c.errors.append("build failed " + log3[-800:])
        return c.finish("n/a")
    rng = c.rng
    dis = 0
    model_cache = {}

    def model_run(lines):
        return [model_cache[l] for l in lines]

    def model_prefetch(lines):
        todo = [l for l in dict.fromkeys(lines) if l not in model_cache]
        # the 1 MiB expansions dominate: one batch over all cores, longest first
        todo.sort(key=lambda l: -len(l) if l.startswith(("p2m", "pymaster")) or (l.startswith("keytype") and int(l.split(" ")[2]) & 0xC0 == 0) else 0)
        out = vf.run_lines(v3exe, todo, shards=min(16, max(1, len(todo))))
        model_cache.update(zip(todo, out))
    # ---- password -> master key
    lens = [1, 64, 4096] + ([2, 3, 7, 8, 10, 1000, 2 ** 20 - 1, 2 ** 20, 2 ** 20 + 1, 65536, 333, 524288, 524289] if thorough else [2 ** 20 + 1])
    pws = [b"maplesyrup"] + [gen.rbytes(rng, n, False) for n in lens]
    lines = ["p2m %d %s" % (alg, pw.hex()) for pw in pws for alg in (1, 2)]
    lines += ["p2m 1 -", "p2m 2 -"]          # the raw function divides by the password length (callers must refuse first)
    lines_p2m = lines
    lines_keys, calls, sess, short_pw = build_key_cases(rng, thorough)
    py_lines = [("pymaster %d %s" % (a[1], a[2] or "-")) if a[0] == "master" else ("pylocalized %d %s %s" % (a[1], a[2] or "-", a[3] or "-")) for a in calls]
    model_prefetch(lines_p2m + lines_keys + py_lines)
    mo = model_run(lines)
    ro = vf.run_lines(cd.rel, lines, shards=4)
    for ln, ml, rl in zip(lines, mo, ro):
        _, alg, pwh = ln.split(" ")
        pw = b"" if pwh == "-" else bytes.fromhex(pwh)
        c.count(("p2m", alg, len(pw), pwh[:40]), nontrivial=len(pw) > 0 and 2 ** 20 % len(pw) != 0)
        if ml != rl:
            dis += 1
            c.log("model/impl disagree on p2m alg %s password of %d octets: model %s impl %s" % (alg, len(pw), ml, rl))
            if not any(b.startswith("correspondence") for b in c.broken):
                c.broken = list(c.broken) + ["correspondence p2m alg=%s len=%d: model `%s` impl `%s`" % (alg, len(pw), ml, rl)]
        if pw:
            want = "OK " + scen.rfc_password_to_master(ALGN[int(alg)], pw).hex()
            if rl != want:
                c.violation("password_to_master(%s, %d-octet password) = %s, RFC 3414 A.2.%s gives %s" % (ALGN[int(alg)], len(pw), rl[:50], alg, want[3:50]),
                            {"cmd": ln[:200], "expected": want, "observed": rl}, key="p2m:" + ALGN[int(alg)])
    c.sample({"cmd": lines[0], "out": ro[0]})
    # RFC 3414 A.3 test vectors, checked on the implementation and on the model
    rfc = {"p2m 1 " + b"maplesyrup".hex(): "OK 9faf3283884e92834ebc9847d8edd963", "p2m 2 " + b"maplesyrup".hex(): "OK 9fb5cc0381497b3793528939ff788d5d79145211"}
    for ln, ml, rl in zip(lines, mo, ro):
        if ln in rfc and (ml != rfc[ln] or rl != rfc[ln]):
            c.violation("RFC 3414 A.3 vector fails: %s -> model %s impl %s" % (ln, ml, rl), {"cmd": ln, "expected": rfc[ln]}, key="rfc-vector")
    # ---- localisation, key-type dispatch, malformed material (fast)
    lines = lines_keys
    mo = model_run(lines)
    ro = vf.run_lines(cd.rel, lines)
    do = vf.run_lines(cd.dbg, lines)
    for ln, ml, rl, dl in zip(lines, mo, ro, do):
        p = ln.split(" ")
        c.count(ln[:200], True)
        for prof, o in (("release", rl), ("debug", dl)):
            if not codec.same(ml, o, cd.emap):
                dis += 1
                if dis <= 5:
                    c.log("model/impl(%s) disagree on `%s`: model %s impl %s" % (prof, ln[:100], ml, o))
                if not any(b.startswith("correspondence") for b in c.broken):
                    c.broken = list(c.broken) + ["correspondence `%s`: model `%s` impl(%s) `%s`" % (ln[:200], ml, prof, o)]
            if o == "PANIC":
                c.violation("key material makes the library panic (%s build): %s" % (prof, ln[:100]), {"cmd": ln, "profile": prof}, key="key-panic:" + p[0])
        if p[0] == "localize":
            alg = int(p[1])
            want = "OK " + scen.rfc_localize(ALGN[alg], bytes.fromhex(p[2]), b"" if p[3] == "-" else bytes.fromhex(p[3])).hex()
            if rl != want:
                c.violation("localize(%s) = %s, RFC 3414 A.2 gives %s" % (ALGN[alg], rl[:50], want[3:50]), {"cmd": ln, "expected": want, "observed": rl},
                            key="localize:" + ALGN[alg])
        if p[0] == "keytype" and int(p[1]) in (1, 2):
            alg, code = int(p[1]), int(p[2])
            key = b"" if p[3] == "-" else bytes.fromhex(p[3])
            eng = b"" if p[4] == "-" else bytes.fromhex(p[4])
            kt = code & 0xC0
            if kt == 0 and key:
                want = "OK " + scen.rfc_localize(ALGN[alg], scen.rfc_password_to_master(ALGN[alg], key), eng).hex()
            elif kt == 64 and len(key) == KS[alg]:
                want = "OK " + scen.rfc_localize(ALGN[alg], key, eng).hex()
            elif kt == 128 and len(key) == KS[alg]:
                want = "OK " + key.hex()
            else:
                want = "ERR InvalidKey"
            if rl != want:
                c.violation("as_key_type(%s, type bits %#x, %d-octet key) = %s, expected %s" % (ALGN[alg], kt, len(key), rl[:50], want[:50]),
                            {"cmd": ln, "expected": want, "observed": rl}, key="keytype:%#x" % kt)
    # ---- the functions exposed to Python and the keys a session really uses
    res, log = vf.run_api_worker("C12", {"calls": calls, "sessions": sess})
    if res is None:
        c.errors.append("API worker failed: " + log[-1500:])
    else:
        ml = model_run(py_lines)
        for a, out, m in zip(calls, res["calls"], ml):
            c.count(("api",) + tuple(a), True)
            if out != m:
                dis += 1
                c.log("model/impl disagree on %s: model %s impl %s" % (a, m, out))
                if not any(b.startswith("correspondence") for b in c.broken):
                    c.broken = list(c.broken) + ["correspondence %s: model `%s` impl `%s`" % (a, m, out)]
            if out.startswith("PANIC") or "Panic" in out:
                c.violation("%s%s surfaced a Rust panic" % (a[0], tuple(a[1:])), {"call": a, "observed": out}, key="api-key-panic")
            if a[0] == "master" and a[1] in (1, 2) and a[2]:
                want = "RET bytes:" + scen.rfc_password_to_master(ALGN[a[1]], bytes.fromhex(a[2])).hex()
                if out != want:
                    c.violation("get_master_key gives %s, RFC gives %s" % (out[:60], want[:60]), {"call": a}, key="api-master")
            if a[0] == "master" and a[1] in (1, 2) and not a[2] and not out.startswith("EXC "):
                c.violation("get_master_key with an empty password did not raise: %s" % out, {"call": a}, key="api-empty-password")
            if a[0] == "localized" and a[1] in (1, 2):
                key, eng = bytes.fromhex(a[2]), bytes.fromhex(a[3])
                if len(key) == KS[a[1]]:
                    want = "RET bytes:" + scen.rfc_localize(ALGN[a[1]], key, eng).hex()
                    if out != want:
                        c.violation("get_localized_key gives %s, RFC gives %s" % (out[:60], want[:60]), {"call": a}, key="api-localized")
                elif not out.startswith("EXC "):
                    c.violation("get_localized_key accepted a %d-octet master key: %s" % (len(key), out[:60]), {"call": a}, key="api-localized-size")
        for s, out in zip(sess, res["sessions"]):
            c.count(("session", s["alg"], s["kt"], s["key"][:20], s["engine"]), True)
            if out.get("panic"):
                c.violation("creating a session with a %s %s key of %d octets surfaced a panic" % (s["alg"], ["password", "master", "localized"][s["kt"]], len(s["key"]) // 2),
                            {"session": s, "outcome": out}, key="session-key-panic")
            elif out.get("mac_ok") is False:
                c.violation("a session configured with a %s %s key signs with a different key than RFC 3414 A.2 derives" % (s["alg"], ["password", "master", "localized"][s["kt"]]),
                            {"session": s, "outcome": out}, key="session-key")
    c.assumptions += ["the Gallina MD5 / SHA-1 are validated on the RFC 1321 / FIPS 180 vectors inside Coq (Model/Crypto/HashVectors.v) and here against the md-5 / sha1 crates"]
    return c.finish(
        rule="password -> master key for passwords of length %s octets x {MD5, SHA-1} (each a 1 MiB digest in the extracted Gallina hash) incl. the "
             "RFC 3414 A.3 vectors; localisation for engine ids of 0..32 octets; as_key_type for every key length 0..64 x {master, localized}, all four "
             "type-bit patterns, unknown algorithm codes; get_master_key / get_localized_key through Python; sessions with password / master / "
             "localized keys of aligned and unaligned sizes whose first request is verified under the independently derived key; "
             "non-trivial = password length not dividing 2^20" % lens,
        extra={"disagreements": dis})


def build_key_cases(rng, thorough):
    """Everything that does not depend on outputs, so that all model hashing can run in one parallel batch."""
    lines = []
    for _ in range(3000 if thorough else 600):
        alg = rng.choice([1, 2])
        eng = gen.rbytes(rng, rng.randint(0, 32), False)
        key = gen.rbytes(rng, KS[alg], False)
        lines.append("localize %d %s %s" % (alg, key.hex(), gen.hx(eng)))
    for alg in (1, 2):
        for n in range(0, 65):
            for kt in (64, 128):
                lines.append("keytype %d %d %s %s" % (alg, alg | kt, gen.hx(gen.rbytes(rng, n, False)), gen.hx(gen.rbytes(rng, rng.randint(0, 12), False))))
        for kt in (0, 64, 128, 192):
            lines.append("keytype %d %d %s 0102" % (alg, alg | kt, gen.hx(gen.rbytes(rng, KS[alg], False))))
        lines.append("keytype %d %d - 0102" % (alg, alg))
    for code in [0, 3, 4, 63, 65, 66, 67, 129, 130, 131, 255]:
        lines.append("keytype %d %d %s 01" % (code, code, "00" * 16))
    short_pw = [gen.rbytes(rng, rng.choice([1, 5, 64, 1024, 4096]), False) for _ in range(6 if thorough else 1)]
    for pw in short_pw:
        for alg in (1, 2):
            lines.append("keytype %d %d %s %s" % (alg, alg, pw.hex(), gen.hx(gen.rbytes(rng, rng.randint(5, 32), False))))

    calls = []
    for alg in (0, 1, 2, 3, 64, 200):
        for pw in ([b"", b"a", b"maplesyrup", gen.rbytes(rng, 100, False)] if thorough else [b"", b"a", b"maplesyrup"]):
            calls.append(["master", alg, pw.hex()])
        for n in (0, 15, 16, 17, 20, 21):
            calls.append(["localized", alg, gen.rbytes(rng, n, False).hex(), gen.rbytes(rng, rng.randint(0, 32), False).hex()])
    sess = []
    for alg, aalg in (("md5", 1), ("sha1", 2)):
        for kt in (0, 1, 2):
            for n in ([1, 8, KS[aalg] - 1, KS[aalg], KS[aalg] + 5] if kt else [1, 8, 33]):
                sess.append({"alg": alg, "kt": kt, "key": gen.rbytes(rng, n, False).hex(), "engine": gen.rbytes(rng, rng.randint(5, 32), False).hex()})

    return lines, calls, sess, short_pw


def api_main(g, job):
    import apilib
    import ber
    import hmac as _hmac
    out_calls = []
    for a in job["calls"]:
        if a[0] == "master":
            r = apilib.call(g.fast.get_master_key, a[1], bytes.fromhex(a[2]))
        else:
            r = apilib.call(g.fast.get_localized_key, a[1], bytes.fromhex(a[2]), bytes.fromhex(a[3]))
        out_calls.append("RET " + apilib.render_pyvalue(r[1]) if r[0] == "RET" else ("PANIC" if r[1].startswith("PANIC") else "EXC " + r[1]))
    out_sess = []
    for s in job["sessions"]:
        rec = {}
        agent = apilib.Agent(None)
        try:
            U = g.user
            cls = U.Md5Key if s["alg"] == "md5" else U.Sha1Key
            key = cls(bytes.fromhex(s["key"]), key_type=U.KeyType(s["kt"]))
            user = U.User("kuser", auth_key=key)
            sess = g.sync.SnmpSession(addr="127.0.0.1", port=agent.port, user=user, engine_id=bytes.fromhex(s["engine"]), timeout=0.05)
            r = apilib.call(sess.get, "1.3.6.1")
            rec["outcome"] = r[1] if r[0] == "EXC" else "RET"
            rec["panic"] = r[0] == "EXC" and r[1].startswith("PANIC")
            d = agent.take()
            if d:
                m = ber.s_message(d[0])
                off = m["auth_offset"]
                z = d[0][:off] + bytes(12) + d[0][off + 12:]
                k = bytes.fromhex(s["key"])
                ks = 16 if s["alg"] == "md5" else 20
                if s["kt"] in (1, 2):
                    k = scen.pad_key(k, ks)
                lk = scen.localized_key(s["alg"], s["kt"], k, bytes.fromhex(s["engine"]))
                rec["mac_ok"] = _hmac.new(lk, z, s["alg"]).digest()[:12] == m["auth"]
        except BaseException as e:  # noqa: BLE001
            rec["outcome"] = apilib.exc_class(e)
            rec["panic"] = apilib.exc_class(e).startswith("PANIC")
        finally:
            agent.close()
        out_sess.append(rec)
    return {"calls": out_calls, "sessions": out_sess}

"""C12 - USM keys are derived exactly as RFC 3414 A.2 prescribes.

Proof: Properties/C12.v (password_to_master = digest of the first 2^20 octets of the repeated password, by a pure
list identity plus the proved streaming law of the Gallina MD5/SHA-1; localize = H(Ku || engineID || Ku); the
dispatch on the two key-type bits; refusal of empty passwords, wrong sizes and unknown codes; never a panic).
Correspondence: the extracted model (Gallina MD5 / SHA-1) against get_master_key / get_localized_key of the real
module, AuthKey::password_to_master / localize / as_key_type (codec harness), and the keys a real session actually
uses (its first authenticated request verifies under the independently derived key).
Oracle: hashlib implementation of RFC 3414 A.2 (harness/py/scen.py)."""
import hashlib
import os
import sys

from lib import codec, gen, v3replay, vf

sys.path.insert(0, os.path.join(vf.VERIF, "harness", "py"))
import ber  # noqa: E402
import scen  # noqa: E402

ALGN = {1: "md5", 2: "sha1"}
KS = {1: 16, 2: 20}


def main(argv):
    c = vf.Check("C12", argv)
    thorough = c.tier == "thorough"
    c.prove()
    cd = codec.Codec(c)
    ok3, log3, v3exe = vf.ocaml_build("v3", "v3_model", "v3_driver")
    if not (cd.ok and ok3):
        c.errors.append("build failed " + log3[-800:])
        return c.finish("n/a")
    rng = c.rng
    dis = 0
    model_cache = {}

    def model_run(lines):
        return [model_cache[l] for l in lines]

    def model_prefetch(lines):
        todo = [l for l in dict.fromkeys(lines) if l not in model_cache]
        # the 1 MiB expansions dominate: one batch over all cores, longest first
        todo.sort(key=lambda l: -len(l) if l.startswith(("p2m", "pymaster")) or (l.startswith("keytype") and int(l.split(" ")[2]) & 0xC0 == 0) else 0)
        out = vf.run_lines(v3exe, todo, shards=min(16, max(1, len(todo))))
        model_cache.update(zip(todo, out))
    # ---- password -> master key
    lens = [1, 64, 4096] + ([2, 3, 7, 8, 10, 1000, 2 ** 20 - 1, 2 ** 20, 2 ** 20 + 1, 65536, 333, 524288, 524289] if thorough else [2 ** 20 + 1])
    pws = [b"maplesyrup"] + [gen.rbytes(rng, n, False) for n in lens]
    lines = ["p2m %d %s" % (alg, pw.hex()) for pw in pws for alg in (1, 2)]
    lines += ["p2m 1 -", "p2m 2 -"]          # the raw function divides by the password length (callers must refuse first)
    lines_p2m = lines
    lines_keys, calls, sess, short_pw, socks, users = build_key_cases(rng, thorough)
    py_lines = [("pymaster %d %s" % (a[1], a[2] or "-")) if a[0] == "master" else ("pylocalized %d %s %s" % (a[1], a[2] or "-", a[3] or "-")) for a in calls]
    model_prefetch(lines_p2m + lines_keys + py_lines)
    c.log("model hashing done")
    mo = model_run(lines)
    ro = vf.run_lines(cd.rel, lines, shards=4)
    for ln, ml, rl in zip(lines, mo, ro):
        _, alg, pwh = ln.split(" ")
        pw = b"" if pwh == "-" else bytes.fromhex(pwh)
        c.count(("p2m", alg, len(pw), pwh[:40]), nontrivial=len(pw) > 0 and 2 ** 20 % len(pw) != 0)
        if ml != rl:
            dis += 1
            c.log("model/impl disagree on p2m alg %s password of %d octets: model %s impl %s" % (alg, len(pw), ml, rl))
            if not any(b.startswith("correspondence") for b in c.broken):
                c.broken = list(c.broken) + ["correspondence p2m alg=%s len=%d: model `%s` impl `%s`" % (alg, len(pw), ml, rl)]
        if pw:
            want = "OK " + scen.rfc_password_to_master(ALGN[int(alg)], pw).hex()
            if rl != want:
                c.violation("password_to_master(%s, %d-octet password) = %s, RFC 3414 A.2.%s gives %s" % (ALGN[int(alg)], len(pw), rl[:50], alg, want[3:50]),
                            {"cmd": ln[:200], "expected": want, "observed": rl}, key="p2m:" + ALGN[int(alg)])
    c.sample({"cmd": lines[0], "out": ro[0]})
    # RFC 3414 A.3 test vectors, checked on the implementation and on the model
    rfc = {"p2m 1 " + b"maplesyrup".hex(): "OK 9faf3283884e92834ebc9847d8edd963", "p2m 2 " + b"maplesyrup".hex(): "OK 9fb5cc0381497b3793528939ff788d5d79145211"}
    for ln, ml, rl in zip(lines, mo, ro):
        if ln in rfc and (ml != rfc[ln] or rl != rfc[ln]):
            c.violation("RFC 3414 A.3 vector fails: %s -> model %s impl %s" % (ln, ml, rl), {"cmd": ln, "expected": rfc[ln]}, key="rfc-vector")
    # ---- localisation, key-type dispatch, malformed material (fast)
    lines = lines_keys
    mo = model_run(lines)
    codec.crosscheck_v3(c, lines, mo)
    ro = vf.run_lines(cd.rel, lines)
    do = vf.run_lines(cd.dbg, lines)
    for ln, ml, rl, dl in zip(lines, mo, ro, do):
        p = ln.split(" ")
        c.count(ln[:200], True)
        for prof, o in (("release", rl), ("debug", dl)):
            if not codec.same(ml, o, cd.emap):
                dis += 1
                if dis <= 5:
                    c.log("model/impl(%s) disagree on `%s`: model %s impl %s" % (prof, ln[:100], ml, o))
                if not any(b.startswith("correspondence") for b in c.broken):
                    c.broken = list(c.broken) + ["correspondence `%s`: model `%s` impl(%s) `%s`" % (ln[:200], ml, prof, o)]
            if o == "PANIC":
                c.violation("key material makes the library panic (%s build): %s" % (prof, ln[:100]), {"cmd": ln, "profile": prof}, key="key-panic:" + p[0])
        if p[0] == "localize":
            alg = int(p[1])
            want = "OK " + scen.rfc_localize(ALGN[alg], bytes.fromhex(p[2]), b"" if p[3] == "-" else bytes.fromhex(p[3])).hex()
            if rl != want:
                c.violation("localize(%s) = %s, RFC 3414 A.2 gives %s" % (ALGN[alg], rl[:50], want[3:50]), {"cmd": ln, "expected": want, "observed": rl},
                            key="localize:" + ALGN[alg])
        if p[0] == "keytype" and int(p[1]) in (1, 2):
            alg, code = int(p[1]), int(p[2])
            key = b"" if p[3] == "-" else bytes.fromhex(p[3])
            eng = b"" if p[4] == "-" else bytes.fromhex(p[4])
            kt = code & 0xC0
            if kt == 0 and key:
                want = "OK " + scen.rfc_localize(ALGN[alg], scen.rfc_password_to_master(ALGN[alg], key), eng).hex()
            elif kt == 64 and len(key) == KS[alg]:
                want = "OK " + scen.rfc_localize(ALGN[alg], key, eng).hex()
            elif kt == 128 and len(key) == KS[alg]:
                want = "OK " + key.hex()
            else:
                want = "ERR InvalidKey"
            if rl != want:
                c.violation("as_key_type(%s, type bits %#x, %d-octet key) = %s, expected %s" % (ALGN[alg], kt, len(key), rl[:50], want[:50]),
                            {"cmd": ln, "expected": want, "observed": rl}, key="keytype:%#x" % kt)
    # ---- no memory between derivations: the same password under the other digest, the same digest with another password,
    # repeated and alternating, in ONE process and one thread (a cache keyed too coarsely shows here)
    pwa, pwb = b"maplesyrup", gen.rbytes(rng, 11, False)
    seq = [(1, pwa), (2, pwa), (2, pwb), (1, pwb), (1, pwa), (1, pwa), (2, pwa), (2, pwb), (2, pwa), (1, pwb), (2, pwb)]
    sl = ["keytype %d %d %s %s" % (alg, alg, pw.hex(), "8000000001020304") for alg, pw in seq]
    for prof, exe in (("release", cd.rel), ("debug", cd.dbg)):
        so = vf.run_lines(exe, sl, shards=1)
        for k, ((alg, pw), o) in enumerate(zip(seq, so)):
            c.count(("sequence", prof, k), True)
            want = "OK " + scen.rfc_localize(ALGN[alg], scen.rfc_password_to_master(ALGN[alg], pw), bytes.fromhex("8000000001020304")).hex()
            if o != want:
                c.violation("derivation %d of a sequence in one process (%s password %s, after %s) gives %s, RFC 3414 A.2 gives %s (%s build)"
                            % (k, ALGN[alg], pw.hex()[:20], ["%s/%s" % (ALGN[a], p.hex()[:8]) for a, p in seq[max(0, k - 2):k]], o[:50], want[3:43], prof),
                            {"sequence": sl[:k + 1], "profile": prof, "observed": o, "expected": want}, key="derivation-depends-on-history")
                break
    # ---- the functions exposed to Python and the keys a session really uses
    c.log("key cases compared")
    res, log = vf.run_api_worker("C12", {"calls": calls, "sessions": sess, "sockets": socks, "users": users})
    c.log("API worker done")
    if res is None:
        c.errors.append("API worker failed: " + log[-1500:])
    else:
        ml = model_run(py_lines)
        for a, out, m in zip(calls, res["calls"], ml):
            c.count(("api",) + tuple(a), True)
            # two faults at once (unknown algorithm AND empty password / wrong key size): which refusal comes first is not
            # fixed by the property - both are refusals
            two_faults = a[1] not in (1, 2) and ((a[0] == "master" and not a[2]) or (a[0] == "localized" and len(a[2]) // 2 not in (16, 20)))
            if two_faults and out in ("EXC ValueError", "EXC SnmpDecodeError") and m in ("EXC ValueError", "EXC SnmpDecodeError"):
                continue
            if out != m:
                dis += 1
                c.log("model/impl disagree on %s: model %s impl %s" % (a, m, out))
                if not any(b.startswith("correspondence") for b in c.broken):
                    c.broken = list(c.broken) + ["correspondence %s: model `%s` impl `%s`" % (a, m, out)]
            if out.startswith("PANIC") or "Panic" in out:
                c.violation("%s%s surfaced a Rust panic" % (a[0], tuple(a[1:])), {"call": a, "observed": out}, key="api-key-panic")
            if a[0] == "master" and a[1] in (1, 2) and a[2]:
                want = "RET bytes:" + scen.rfc_password_to_master(ALGN[a[1]], bytes.fromhex(a[2])).hex()
                if out != want:
                    c.violation("get_master_key gives %s, RFC gives %s" % (out[:60], want[:60]), {"call": a}, key="api-master")
            if a[0] == "master" and a[1] in (1, 2) and not a[2] and not out.startswith("EXC "):
                c.violation("get_master_key with an empty password did not raise: %s" % out, {"call": a}, key="api-empty-password")
            if a[0] == "localized" and a[1] in (1, 2):
                key, eng = bytes.fromhex(a[2]), bytes.fromhex(a[3])
                if len(key) == KS[a[1]]:
                    want = "RET bytes:" + scen.rfc_localize(ALGN[a[1]], key, eng).hex()
                    if out != want:
                        c.violation("get_localized_key gives %s, RFC gives %s" % (out[:60], want[:60]), {"call": a}, key="api-localized")
                elif not out.startswith("EXC "):
                    c.violation("get_localized_key accepted a %d-octet master key: %s" % (len(key), out[:60]), {"call": a}, key="api-localized-size")
        for s, out in zip(sess, res["sessions"]):
            c.count(("session", s["alg"], s["kt"], s["key"][:20], s["engine"]), True)
            if out.get("panic"):
                c.violation("creating a session with a %s %s key of %d octets surfaced a panic" % (s["alg"], ["password", "master", "localized"][s["kt"]], len(s["key"]) // 2),
                            {"session": s, "outcome": out}, key="session-key-panic")
            elif out.get("mac_ok") is False:
                c.violation("a session configured with a %s %s key signs with a different key than RFC 3414 A.2 derives" % (s["alg"], ["password", "master", "localized"][s["kt"]]),
                            {"session": s, "outcome": out}, key="session-key")
        dis += socket_part(c, v3exe, socks, res.get("sockets", []))
        dis += user_part(c, v3exe, users, res.get("users", []))
    c.assumptions += ["the Gallina MD5 / SHA-1 are validated on the RFC 1321 / FIPS 180 vectors inside Coq (Model/Crypto/HashVectors.v) and here against the md-5 / sha1 crates"]
    # ---- the keys "as actually used by a session": sessions that learn their engine id (None / b"", first probe lost and
    # retried, passwords shared between the digests, key types mixed) sign and encrypt under the RFC 3414 A.2 keys ...
    from lib import v3sessions
    v3sessions.run(c, v3exe, "C12", {"auth-flag", "mac", "priv-flag", "decrypt"})
    # ... and a user whose key is an empty password is refused by the session (at construction when the engine id is given,
    # at entry when it is learned), whichever of the two keys it is
    scs_r = []
    for auth in ("md5", "sha1"):
        for priv, which in ((None, "auth"), ("des", "auth"), ("aes", "priv"), ("des", "priv")):
            for given in (True, False):
                ksz = 16 if auth == "md5" else 20
                eng = "80001f8880" + gen.rbytes(rng, 6, False).hex()
                a = [auth, 0, ""] if which == "auth" else [auth, rng.choice([0, 1, 2]), gen.rbytes(rng, ksz, False).hex()]
                pk = None if not priv else [priv, 0, ""] if which == "priv" else [priv, rng.choice([0, 1, 2]), gen.rbytes(rng, ksz, False).hex()]
                v3 = {"user": "nokey", "auth": a, "priv": pk, "engine_id": eng if given else None, "agent_engine_id": eng, "boots": 3, "time": 9}
                report = {"pdu_tag": 0xA8, "mac": "absent", "encrypt": "no", "flags": 0, "boots": 3, "time": 9}
                vbr = ber.varbind(ber.enc_oid([1, 3, 6, 1, 2, 1, 1, 3, 0]), ber.enc_value("tt", 1))
                scs_r.append({"version": "v3", "mode": rng.choice(["sync", "async"]), "timeout": 0.2, "v3": v3, "_which": which, "_given": given,
                              "steps": [{"op": "enter", "replies": [[report]], "default_reply": report},
                                        {"op": "get", "args": ["1.3.6.1.2.1.1.3.0"], "replies": [[{"vbs": vbr.hex(), "mac": "absent", "encrypt": "no", "flags": 0}]]}]})
    resr, logr = vf.run_api_worker("C12", {"scenarios": [v3sessions.strip(sc) for sc in scs_r], "model_exe": v3exe})
    if resr is None:
        c.errors.append("API worker failed: " + logr[-1500:])
    else:
        for sc, rec in zip(scs_r, resr["records"]):
            c.count(("empty-password-session", sc["v3"]["auth"][0], sc["v3"]["priv"] and sc["v3"]["priv"][0], sc["_which"], sc["_given"], sc["mode"]), True)
            if "driver_error" in rec:
                c.errors.append("API driver error: " + rec["driver_error"])
                continue
            refused = rec.get("create_error") == "ValueError" if sc["_given"] else (not rec.get("create_error") and rec["steps"][0].get("exc") == "ValueError")
            if not refused:
                sent = [q for st in rec.get("steps", []) for q in st.get("requests", [])]
                c.violation("a session (%s, engine id %s) whose %s key is an empty password is not refused with ValueError (%s); it went on to send %d message(s) with flags %s"
                            % (sc["mode"], "given" if sc["_given"] else "learned", sc["_which"], rec.get("create_error") or rec["steps"][0].get("exc") or "accepted",
                               len(sent), sorted({q.get("flags") for q in sent if "flags" in q})),
                            {"scenario": v3sessions.strip(sc)}, key="empty-password-session")
    return c.finish(
        rule="password -> master key for passwords of length %s octets x {MD5, SHA-1} (each a 1 MiB digest in the extracted Gallina hash) incl. the "
             "RFC 3414 A.3 vectors; localisation for engine ids of 0..32 octets; as_key_type for every key length 0..64 x {master, localized}, all four "
             "type-bit patterns, unknown algorithm codes; get_master_key / get_localized_key through Python; sessions with password / master / "
             "localized keys of aligned and unaligned sizes whose first request is verified under the independently derived key; "
             "non-trivial = password length not dividing 2^20" % lens,
        extra={"disagreements": dis})


def user_spec(u):
    """scenario user -> the model's user spec name:aalg:akt:akey:palg:pkt:pkey"""
    a, p = u.get("auth"), u.get("priv")
    return "%s:%s:%s" % (u["user"].encode().hex() or "-",
                         "%d:%d:%s" % ({"md5": 1, "sha1": 2}[a[0]], a[1], a[2] or "-") if a else "0:0:-",
                         "%d:%d:%s" % ({"des": 1, "aes": 2}[p[0]], p[1], p[2] or "-") if p else "0:0:-")


def user_part(c, v3exe, users, outs):
    """user.py: what a User hands to the socket (algorithm codes with the key-type mask, keys aligned to the auth key
    length) against Model.Session (user_auth_alg, user_auth_key, user_priv_alg, user_priv_key, require_auth), and against
    the documented rule stated independently here."""
    dis = 0
    mo = vf.run_lines(v3exe, ["pyuser " + user_spec(u) for u in users], shards=1)
    for u, o, m in zip(users, outs, mo):
        c.count(("user", user_spec(u)), True)
        if o != m:
            dis += 1
            c.log("model/impl disagree on User %s: model %s impl %s" % (user_spec(u), m, o))
            if not any(b.startswith("correspondence") for b in c.broken):
                c.broken = list(c.broken) + ["correspondence User(%s): model `%s` impl `%s`" % (user_spec(u), m, o)]
        a, p = u.get("auth"), u.get("priv")
        ks = {"md5": 16, "sha1": 20}[a[0]] if a else 0
        al = lambda k, kt: (bytes.fromhex(k)[:ks] + bytes(max(0, ks - len(bytes.fromhex(k))))) if kt in (1, 2) else bytes.fromhex(k)
        want = "OK %d %s %d %s %d" % (({"md5": 1, "sha1": 2}[a[0]] | (a[1] << 6)) if a else 0, (al(a[2], a[1]).hex() or "-") if a else "-",
                                      ({"des": 1, "aes": 2}[p[0]] | (p[1] << 6)) if p else 0, (al(p[2], p[1]).hex() or "-") if p else "-", 1 if a else 0)
        if o != want:
            c.violation("User(%s) hands the socket %s; master and localized keys are aligned to the %d-octet key length, passwords pass unchanged: expected %s"
                        % (user_spec(u), o, ks, want), {"user": u, "observed": o, "expected": want}, key="user-key-material")
    return dis


def socket_part(c, v3exe, socks, outs):
    """SnmpV3ClientSocket itself (constructor and set_keys) for engine ids of 0..32 octets: the first request must be the
    datagram Model.V3 (v3_new / v3_set_keys + v3_push_pdu) emits, signed under the key RFC 3414 A.2 derives (hmac/hashlib),
    and malformed key material must be refused with ValueError."""
    import hmac as _hmac
    dis = 0
    qs = []
    emits = []

    def mkey(s):
        """(alg code, key) handed to the model: a password is expanded here with hashlib (the model's own expansion is
        compared on the p2m / keytype lines above; repeating a 1 MiB Gallina digest per socket would only cost time)."""
        if s["aalg"] & 0xC0 == 0 and s["akey"]:
            return (s["aalg"] & 63) | 64, scen.rfc_password_to_master(ALGN[s["aalg"] & 63], bytes.fromhex(s["akey"])).hex()
        return s["aalg"], s["akey"]
    for s, o in zip(socks, outs):
        d = o.get("datagram")
        m = None
        if d:
            try:
                m = ber.s_message(bytes.fromhex(d))
            except ber.Strict:
                m = None
        seed = 0
        if m and m.get("priv"):
            seed = int.from_bytes(m["priv"][4:] if (s["palg"] & 63) == 1 else m["priv"], "big")
        new = "v3new %s %s %d %s %d %s %d" % ((s["engine"] or "-", s["user"].encode().hex() or "-") + (mkey(s)[0], mkey(s)[1] or "-") + (s["palg"], s["pkey"] or "-", seed))
        if s["via"] == "set_keys":
            new = "v3new %s - 0 - 0 - 0" % (s["engine"] or "-")
        qs.append(new)
    r1 = vf.run_lines(v3exe, qs, shards=16)
    q2 = []
    for s, o, r in zip(socks, outs, r1):
        if s["via"] == "set_keys" and r.startswith("OK "):
            d = o.get("datagram")
            seed = 0
            if d:
                try:
                    m = ber.s_message(bytes.fromhex(d))
                    if m.get("priv"):
                        seed = int.from_bytes(m["priv"][4:] if (s["palg"] & 63) == 1 else m["priv"], "big")
                except ber.Strict:
                    pass
            q2.append("v3setkeys %s %s %d %s %d %s %d" % ((r[3:], s["user"].encode().hex() or "-") + (mkey(s)[0], mkey(s)[1] or "-") + (s["palg"], s["pkey"] or "-", seed)))
        else:
            q2.append(None)
    r2 = vf.run_lines(v3exe, [q for q in q2 if q], shards=16)
    it = iter(r2)
    r1 = [next(it) if q else r for q, r in zip(q2, r1)]
    for s, o, r in zip(socks, outs, r1):
        alg = s["aalg"] & 63
        kt = s["aalg"] & 0xC0
        key, eng = bytes.fromhex(s["akey"]), bytes.fromhex(s["engine"])
        c.count(("socket", s["via"], s["aalg"], s["palg"], len(eng), len(key), s["akey"][:16]), True)
        valid = (kt == 0 and len(key) > 0) or (kt in (64, 128) and len(key) == KS[alg])
        label = "SnmpV3ClientSocket (%s) %s key type %#x, %d-octet key, %d-octet engine id" % (s["via"], ALGN[alg], kt, len(key), len(eng))
        if o.get("exc", "").startswith("PANIC"):
            c.violation(label + ": surfaced a Rust panic", {"socket": s, "outcome": o}, key="socket-panic")
            continue
        if not valid:
            if o.get("exc") != "ValueError":
                c.violation(label + ": malformed key material was not refused with ValueError (%s)" % (o.get("exc") or "accepted"), {"socket": s, "outcome": o}, key="socket-accepts-malformed")
            if not r.startswith("ERR InvalidKey"):
                dis += 1
                c.broken = list(c.broken) + ["correspondence (socket): model accepts malformed key material: %s" % r[:80]]
            continue
        if "exc" in o or not o.get("datagram"):
            c.violation(label + ": valid key material refused or nothing sent (%s)" % o.get("exc"), {"socket": s, "outcome": o}, key="socket-refuses-valid")
            continue
        d = bytes.fromhex(o["datagram"])
        try:
            m = ber.s_message(d)
        except ber.Strict as e:
            c.violation(label + ": first request malformed: %s" % e, {"socket": s, "outcome": o}, key="socket-malformed")
            continue
        lk = scen.localized_key(ALGN[alg], {0: 0, 64: 1, 128: 2}[kt], key, eng)
        off = m["auth_offset"]
        want = _hmac.new(lk, d[:off] + bytes(12) + d[off + 12:], ALGN[alg]).digest()[:12] if off else None
        if not m["flags"] & 1 or m["auth"] != want:
            c.violation(label + ": the first request is not signed under the key RFC 3414 A.2 derives (MAC %s, expected %s, flags %d)"
                        % (m["auth"].hex(), want and want.hex(), m["flags"]), {"socket": s, "datagram": o["datagram"]}, key="socket-key")
        # model: same datagram octet for octet (ids from the wire)
        if r.startswith("OK ") and "pdu" in m:
            rid = m["pdu"]["request_id"]
            emits.append(("v3emit %s get:%d:2b0601 %d" % (v3replay.with_fields(r[3:], rid=rid), rid, m["msg_id"]), s, o["datagram"]))
        elif r.startswith("OK ") and "encrypted" in m:
            pass        # encrypted first requests are compared by C03 / C11 (the request id is inside the ciphertext)
        elif not r.startswith("OK "):
            dis += 1
            c.broken = list(c.broken) + ["correspondence (socket): model refuses valid key material %s: %s" % (s, r[:80])]
    eo = vf.run_lines(v3exe, [q for q, _s, _d in emits], shards=8) if emits else []
    for (q, s, d), e in zip(emits, eo):
        if e.split(" ")[:2] != ["OK", d]:
            dis += 1
            if not any(b.startswith("correspondence") for b in c.broken):
                c.broken = list(c.broken) + ["correspondence (socket %s): model emits `%s`, the socket emitted `%s`" % (s, e[:120], d[:120])]
    c.coverage["socket_datagrams_reproduced_by_model"] = len(emits)
    c.coverage["sockets"] = len(socks)
    return dis


def build_key_cases(rng, thorough):
    """Everything that does not depend on outputs, so that all model hashing can run in one parallel batch."""
    lines = []
    for _ in range(3000 if thorough else 600):
        alg = rng.choice([1, 2])
        eng = gen.rbytes(rng, rng.randint(0, 32), False)
        key = gen.rbytes(rng, KS[alg], False)
        lines.append("localize %d %s %s" % (alg, key.hex(), gen.hx(eng)))
    for alg in (1, 2):
        for n in range(0, 65):
            for kt in (64, 128):
                lines.append("keytype %d %d %s %s" % (alg, alg | kt, gen.hx(gen.rbytes(rng, n, False)), gen.hx(gen.rbytes(rng, rng.randint(0, 12), False))))
        for kt in (0, 64, 128, 192):
            lines.append("keytype %d %d %s 0102" % (alg, alg | kt, gen.hx(gen.rbytes(rng, KS[alg], False))))
        lines.append("keytype %d %d - 0102" % (alg, alg))
    for code in [0, 3, 4, 63, 65, 66, 67, 129, 130, 131, 255]:
        lines.append("keytype %d %d %s 01" % (code, code, "00" * 16))
    short_pw = [gen.rbytes(rng, rng.choice([1, 5, 64, 1024, 4096]), False) for _ in range(6 if thorough else 1)]
    for pw in short_pw:
        for alg in (1, 2):
            lines.append("keytype %d %d %s %s" % (alg, alg, pw.hex(), gen.hx(gen.rbytes(rng, rng.randint(5, 32), False))))

    calls = []
    for alg in (0, 1, 2, 3, 64, 200):
        for pw in ([b"", b"a", b"maplesyrup", gen.rbytes(rng, 100, False)] if thorough else [b"", b"a", b"maplesyrup"]):
            calls.append(["master", alg, pw.hex()])
        for n in (0, 15, 16, 17, 20, 21):
            calls.append(["localized", alg, gen.rbytes(rng, n, False).hex(), gen.rbytes(rng, rng.randint(0, 32), False).hex()])
    sess = []
    for alg, aalg in (("md5", 1), ("sha1", 2)):
        for kt in (0, 1, 2):
            for n in ([1, 8, KS[aalg] - 1, KS[aalg], KS[aalg] + 5] if kt else [1, 8, 33]):
                sess.append({"alg": alg, "kt": kt, "key": gen.rbytes(rng, n, False).hex(), "engine": gen.rbytes(rng, rng.randint(5, 32), False).hex()})

    socks = []
    for alg in (1, 2):
        for elen in (0, 0, 1, 5, 12, 32):
            for kt in (64, 128, 0):
                for via in ("ctor", "set_keys"):
                    if kt == 0 and not (thorough or elen in (0, 12)):
                        continue
                    good = rng.random() < 0.8
                    klen = (KS[alg] if good else rng.choice([0, 1, KS[alg] - 1, KS[alg] + 1])) if kt else (rng.choice([8, 10, 33]) if good else 0)
                    palg = rng.choice([0, 0, 1, 2])
                    pkt = rng.choice([64, 128]) if palg else 0
                    socks.append({"engine": gen.rbytes(rng, elen, False).hex(), "user": "u" * rng.choice([0, 1, 8]), "via": via,
                                  "aalg": alg | kt, "akey": gen.rbytes(rng, klen, False).hex(),
                                  "palg": (palg | pkt) if palg else 0, "pkey": gen.rbytes(rng, KS[alg], False).hex() if palg else ""})
    users = []
    for auth in (None, "md5", "sha1"):
        for akt in ((0, 1, 2) if auth else (0,)):
            for priv in ((None, "des", "aes") if auth else (None,)):
                for pkt in ((0, 1, 2) if priv else (0,)):
                    for _r in range(3 if thorough else 1):
                        ks = {"md5": 16, "sha1": 20}.get(auth, 16)
                        users.append({"user": "n" * rng.choice([0, 1, 5, 32]),
                                      "auth": [auth, akt, gen.rbytes(rng, rng.choice([1, 8, ks - 1, ks, ks + 1, 40]), False).hex()] if auth else None,
                                      "priv": [priv, pkt, gen.rbytes(rng, rng.choice([1, 8, ks - 1, ks, ks + 1, 40]), False).hex()] if priv else None})
    return lines, calls, sess, short_pw, socks, users


def api_main(g, job):
    import apilib
    import ber
    import hmac as _hmac
    if "scenarios" in job:
        return scen.api_main_generic(g, job)
    out_calls = []
    for a in job["calls"]:
        if a[0] == "master":
            r = apilib.call(g.fast.get_master_key, a[1], bytes.fromhex(a[2]))
        else:
            r = apilib.call(g.fast.get_localized_key, a[1], bytes.fromhex(a[2]), bytes.fromhex(a[3]))
        out_calls.append("RET " + apilib.render_pyvalue(r[1]) if r[0] == "RET" else ("PANIC" if r[1].startswith("PANIC") else "EXC " + r[1]))
    out_sess = []
    for s in job["sessions"]:
        rec = {}
        agent = apilib.Agent(None)
        try:
            U = g.user
            cls = U.Md5Key if s["alg"] == "md5" else U.Sha1Key
            key = cls(bytes.fromhex(s["key"]), key_type=U.KeyType(s["kt"]))
            user = U.User("kuser", auth_key=key)
            sess = g.sync.SnmpSession(addr="127.0.0.1", port=agent.port, user=user, engine_id=bytes.fromhex(s["engine"]), timeout=0.05)
            r = apilib.call(sess.get, "1.3.6.1")
            rec["outcome"] = r[1] if r[0] == "EXC" else "RET"
            rec["panic"] = r[0] == "EXC" and r[1].startswith("PANIC")
            d = agent.take()
            if d:
                m = ber.s_message(d[0])
                off = m["auth_offset"]
                z = d[0][:off] + bytes(12) + d[0][off + 12:]
                k = bytes.fromhex(s["key"])
                ks = 16 if s["alg"] == "md5" else 20
                if s["kt"] in (1, 2):
                    k = scen.pad_key(k, ks)
                lk = scen.localized_key(s["alg"], s["kt"], k, bytes.fromhex(s["engine"]))
                rec["mac_ok"] = _hmac.new(lk, z, s["alg"]).digest()[:12] == m["auth"]
        except BaseException as e:  # noqa: BLE001
            rec["outcome"] = apilib.exc_class(e)
            rec["panic"] = apilib.exc_class(e).startswith("PANIC")
        finally:
            agent.close()
        out_sess.append(rec)
    out_users = []
    for u in job.get("users", []):
        try:
            usr = scen.make_user(g, u)
            out_users.append("OK %d %s %d %s %d" % (usr.get_auth_alg(), usr.get_auth_key().hex() or "-", usr.get_priv_alg(), usr.get_priv_key().hex() or "-", 1 if usr.require_auth() else 0))
        except BaseException as e:  # noqa: BLE001
            out_users.append("EXC " + apilib.exc_class(e))
    out_socks = []
    import time as _time
    for s in job.get("sockets", []):
        rec = {}
        agent = apilib.Agent(None)
        try:
            eng, user = bytes.fromhex(s["engine"]), s["user"]
            mk = lambda *a: g.fast.SnmpV3ClientSocket("127.0.0.1:%d" % agent.port, *a, 0, 0, 0, 50_000_000)
            if s["via"] == "ctor":
                sock = mk(eng, user, s["aalg"], bytes.fromhex(s["akey"]), s["palg"], bytes.fromhex(s["pkey"]))
            else:
                sock = mk(eng, "", 0, b"", 0, b"")
                sock.set_keys(user, s["aalg"], bytes.fromhex(s["akey"]), s["palg"], bytes.fromhex(s["pkey"]))
            sock.send_get("1.3.6.1")
            for _w in range(60):
                d = agent.take()
                if d:
                    break
                _time.sleep(0.01)
            rec["datagram"] = d[0].hex() if d else None
        except BaseException as e:  # noqa: BLE001
            rec["exc"] = apilib.exc_class(e)
        finally:
            agent.close()
        out_socks.append(rec)
    return {"calls": out_calls, "sessions": out_sess, "sockets": out_socks, "users": out_users}

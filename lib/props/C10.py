"""C10 - unauthenticated or forged v3 replies are never accepted  (KNOWN FINDING, see known_findings.json).

Proof: Properties/C10.v - the complete acceptance condition of the code (C10_accept_char), the refutation of the
full statement with concrete witnesses (C10_refuted), and what is enforced (C10_modulo_known, receive-loop
theorems).  Correspondence: Model.V3.v3_recv_loop (extracted) on the datagrams the agent sent, against the outcome
of the real call.  Oracle (independent): a reply may be delivered only if it is flagged authenticated with a MAC
that verifies (hmac/hashlib, key derived by RFC 3414 A.2) and, when privacy is configured, encrypted - or is a
Report.  Forgeries the code accepts are matched against the listed finding classes; anything else is a fresh violation."""
import itertools

from lib import gen, vf
import ber

MACS = ["valid", "zero", "random", "flip", "absent"]


def main(argv):
    c = vf.Check("C10", argv)
    thorough = c.tier == "thorough"
    c.prove()
    ok3, log3, v3exe = vf.ocaml_build("v3", "v3_model", "v3_driver")
    if not ok3:
        c.errors.append("model build failed " + log3[-800:])
        return c.finish("n/a")
    rng = c.rng
    cfgs = [{"user": "ua", "auth": ["sha1", 2, "11" * 20], "priv": None},
            {"user": "ub", "auth": ["md5", 0, b"authpass99".hex()], "priv": None},
            {"user": "ud", "auth": ["md5", 2, "22" * 16], "priv": ["des", 2, "33" * 16]},
            {"user": "ue", "auth": ["sha1", 1, "44" * 20], "priv": ["aes", 0, b"privpass99".hex()]}]
    scs, metas = [], []
    vb = ber.varbind(ber.enc_oid([1, 3, 6, 1, 2, 1, 1, 5, 0]), ber.enc_value("os", b"FORGED"))
    for cfg in cfgs:
        for mode in (("sync", "async") if thorough else ("sync",)):
            sc = {"version": "v3", "mode": mode, "timeout": 0.12, "steps": [],
                  "v3": dict(cfg, engine_id="80001f8880a1b2c3d4", agent_engine_id="80001f8880a1b2c3d4", boots=2, time=500)}
            meta = []
            for mac in MACS:
                for enc in (("auto", "no") if cfg["priv"] else ("auto",)):
                    for body in ("resp", "report"):
                        for mis in (None, "user", "user-extended", "user-prefix", "user-empty", "engine", "engine-extended", "engine-prefix",
                                    "engine-empty", "msgid", "rid", "msgid-2^31", "rid-2^31", "rid+2^32", "msgid+2^32", "msgid-2^32", "msgid+2^48", "rid-2^32", "rid+2^62", "rid+reportable", "msgid+reportable", "user+reportable"):
                            if mis and (mac != "valid" or enc != "auto") and not thorough:
                                continue
                            spec = {"vbs": vb.hex(), "mac": mac, "encrypt": enc}
                            if body == "report":
                                spec["pdu_tag"] = 0xA8
                            if mis == "user":
                                spec["user"] = b"mallory".hex()
                            elif mis == "user-extended":
                                spec["user"] = (cfg["user"] + "x").encode().hex()
                            elif mis == "user-prefix":
                                spec["user"] = cfg["user"][:-1].encode().hex()
                            elif mis == "user-empty":
                                spec["user"] = ""
                            elif mis == "engine":
                                spec["engine"] = "80001f8880ffffffff"
                            elif mis == "engine-extended":
                                spec["engine"] = "80001f8880a1b2c3d4" + "00"
                            elif mis == "engine-prefix":
                                spec["engine"] = "80001f8880a1b2c3"
                            elif mis == "engine-empty":
                                spec["engine"] = ""
                            elif mis == "msgid":
                                spec["msgid"] = 4242
                            elif mis == "rid":
                                spec["rid"] = 171717
                            elif mis == "msgid-2^31":
                                spec["msgid"] = "same-2147483648"
                            elif mis == "rid-2^31":
                                spec["rid"] = "same-2147483648"
                            elif mis == "rid+2^32":
                                spec["rid"] = "same+4294967296"
                            elif mis in ("msgid+2^32", "msgid-2^32", "msgid+2^48"):
                                spec["msgid"] = "same" + {"msgid+2^32": "+4294967296", "msgid-2^32": "-4294967296", "msgid+2^48": "+281474976710656"}[mis]
                            elif mis in ("rid+reportable", "msgid+reportable", "user+reportable"):
                                # the reportable bit of msgFlags set on a RESPONSE (an agent never does): the mismatch must still count
                                spec[{"rid+reportable": "rid", "msgid+reportable": "msgid", "user+reportable": "user"}[mis]] = \
                                    {"rid+reportable": "same+7", "msgid+reportable": "same+7", "user+reportable": b"other".hex()}[mis]
                                spec["flags_or"] = 4
                            elif mis in ("rid-2^32", "rid+2^62"):
                                spec["rid"] = "same" + {"rid-2^32": "-4294967296", "rid+2^62": "+4611686018427387904"}[mis]
                            sc["steps"].append({"op": "get", "args": ["1.3.6.1.2.1.1.5.0"], "replies": [[spec]]})
                            meta.append({"mac": mac, "enc": enc, "body": body, "mis": mis, "priv": bool(cfg["priv"]), "alg": cfg["auth"][0]})
            scs.append(sc)
            metas.append(meta)
    res, log = vf.run_api_worker("C10", {"scenarios": scs, "model_exe": v3exe})
    n = 0
    if res is None:
        c.errors.append("API worker failed: " + log[-1500:])
    else:
        for sc, meta, rec in zip(scs, metas, res["records"]):
            if "driver_error" in rec:
                c.errors.append("API driver error: " + rec["driver_error"])
                continue
            for st, mt, out in zip(sc["steps"], meta, rec["steps"]):
                n += 1
                c.count((sc["mode"], sc["v3"]["user"], tuple(sorted((k, str(v)) for k, v in mt.items()))), True)
                delivered = out["kind"] == "RET" or out.get("exc") == "SnmpAuthError"   # a Report surfaces as SnmpAuthError
                got = out.get("value") or out.get("exc")
                authentic = mt["mac"] == "valid" and (mt["enc"] == "auto")
                if n <= 2:
                    c.sample(dict(mt, outcome=got))
                if mt["mis"]:
                    # a mismatching user / engine id / message id / request-id must be dropped whatever the MAC
                    # (a Report is exempt from the request-id test only)
                    exempt = mt["body"] == "report" and mt["mis"].startswith("rid")
                    if delivered and not exempt:
                        c.violation("a reply with a wrong %s was delivered (%s)" % (mt["mis"], got), {"scenario": dict(sc, steps=[st]), "case": mt, "outcome": out},
                                    key="accepted-mismatch:" + mt["mis"].split("-")[0].split("+")[0])
                    continue
                if mt["body"] == "report":
                    continue        # Reports may be accepted without authentication
                if authentic:
                    if got != "bytes:" + b"FORGED".hex():
                        c.violation("a genuine authenticated reply was not delivered: %s" % got, {"scenario": dict(sc, steps=[st]), "case": mt, "outcome": out},
                                    key="valid-reply-dropped")
                elif delivered and out["kind"] == "RET":
                    cls = "mac=%s" % mt["mac"] if mt["mac"] != "valid" else "plaintext-with-privacy"
                    if mt["mac"] != "valid" and mt["enc"] == "no":
                        cls = "mac=%s" % mt["mac"]
                    c.violation("forged reply delivered to get(): %s MAC, %s, %s session: returned %s"
                                % (mt["mac"], "sent in clear" if mt["enc"] == "no" else "encrypted as configured", mt["alg"] + ("+priv" if mt["priv"] else ""), got),
                                {"scenario": dict(sc, steps=[st]), "case": mt, "outcome": out}, key="forged-delivered:" + cls)
    # ---- the same for sessions that LEARN their engine id (None / b"", first probe lost and the entry retried; sync and async):
    # the session holds the user's keys afterwards, so a reply for another (the empty) user, unauthenticated and in clear,
    # is dropped, a genuine one is delivered, and the requests are flagged authenticated
    from lib import v3sessions

    def forged_steps(v3):
        fvb = ber.varbind(ber.enc_oid([1, 3, 6, 1, 2, 1, 1, 5, 0]), ber.enc_value("os", b"FORGED"))
        gvb = ber.varbind(ber.enc_oid([1, 3, 6, 1, 2, 1, 1, 5, 0]), ber.enc_value("os", b"GENUINE"))
        base = {"boots": v3["boots"], "time": v3["time"]}
        return [{"op": "get", "args": ["1.3.6.1.2.1.1.5.0"], "_forged": "empty user, no MAC, in clear",
                 "replies": [[dict(base, vbs=fvb.hex(), user="", mac="absent", encrypt="no", flags=0)]]},
                {"op": "get", "args": ["1.3.6.1.2.1.1.5.0"], "_forged": "another user",
                 "replies": [[dict(base, vbs=fvb.hex(), user=b"mallory".hex())]]},
                {"op": "get", "args": ["1.3.6.1.2.1.1.5.0"], "_forged": "empty user in front of the genuine reply",
                 "replies": [[dict(base, vbs=fvb.hex(), user="", mac="absent", encrypt="no", flags=0), dict(base, vbs=gvb.hex())]], "_genuine": True}]
    scs2, recs2 = v3sessions.run(c, v3exe, "C10", {"auth-flag", "user"}, n_gets=1, extra_steps=forged_steps)
    for sc, rec in zip(scs2, recs2 or []):
        if "driver_error" in rec or rec.get("create_error"):
            continue
        for st, out in zip(sc["steps"], rec["steps"]):
            if "_forged" not in st:
                continue
            n += 1
            got = out.get("value") or out.get("exc")
            if out["kind"] == "RET" and got == "bytes:" + b"FORGED".hex():
                c.violation("%s: a reply for %s was delivered (%s)" % (v3sessions.label(sc), st["_forged"], got),
                            {"scenario": v3sessions.strip(dict(sc, steps=[x for x in sc["steps"] if x["op"] == "enter"] + [st])), "outcome": out},
                            key="accepted-mismatch:user")
            elif st.get("_genuine") and got != "bytes:" + b"GENUINE".hex():
                c.violation("%s: the genuine reply behind a dropped one was not delivered (%s)" % (v3sessions.label(sc), got),
                            {"scenario": v3sessions.strip(dict(sc, steps=[x for x in sc["steps"] if x["op"] == "enter"] + [st])), "outcome": out},
                            key="valid-reply-dropped")
    return c.finish(
        rule="%d otherwise-matching replies: MAC {valid, zero, random, one bit flipped, absent (auth flag clear)} x {encrypted as configured, "
             "sent in clear} x {GetResponse, Report} x mismatching {none; user / engine id different, extended, truncated, empty; msgID and request-id different or differing only above bit 30} x {SHA-1, MD5 password, "
             "MD5+DES, SHA-1+AES} sessions; every case distinct and non-trivial" % n,
        extra={"replies": n, "traces_validated_against_impl": n})


def api_main(g, job):
    import scen
    return scen.api_main_generic(g, job)

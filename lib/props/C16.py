"""C16 - decoding an element reads exactly its declared extent.

Proof: Properties/C16.v (header and every decoder are independent of the octets that follow; the rest is exactly
those octets; overrunning lengths and trailing octets are rejected).  Correspondence: extracted decoders against
the real ones (debug + release).  Oracle: the metamorphic relation itself evaluated on the implementation:
decode(x ++ s) = (value(x), s) for element decoders, TrailingData for the top-level message, and rejection when
an inner length is tampered to exceed the enclosing element."""
import re

from lib import codec, gen, vf
import ber

TYPED = {"int": "dec_int", "c32": "dec_c32", "g32": "dec_g32", "tt": "dec_tt", "u32": "dec_u32", "c64": "dec_c64", "os": "dec_os",
         "op": "dec_op", "od": "dec_od", "ip": "dec_ip", "oid": "dec_oid", "bool": "dec_bool", "null": "dec_null", "real": "dec_real"}


def main(argv):
    c = vf.Check("C16", argv)
    thorough = c.tier == "thorough"
    c.prove()
    cd = codec.Codec(c)
    if not cd.ok:
        return c.finish("n/a")
    rng = c.rng
    N = 40000 if thorough else 6000
    base, ext = [], []      # pairs of lines: x alone, x ++ s
    meta = []
    for _ in range(N):
        k, v = gen.rvalue(rng)
        x = gen.enc_rvalue(rng, k, v)
        s = rng.choice([gen.rbytes(rng, rng.choice([1, 1, 2, 3, 8, 40])), bytes(rng.choice([1, 4, 64])), b"\xff\xff", b"\x00\x00"])
        cmd = rng.choice(["value", TYPED.get(k, "value")])
        if k in ("nso", "nsi", "eomv"):
            cmd = "value"
        base.append("%s %s" % (cmd, x.hex()))
        ext.append("%s %s" % (cmd, (x + s).hex()))
        meta.append(("elem", s))
    # sequences / options / headers
    for _ in range(N // 4):
        content = gen.rbytes(rng, rng.choice([0, 1, 5, 127, 128, 300]), False)
        tag = rng.choice([0x30, 0xA0, 0xA2, 0xA8])
        x = ber.tlv(tag, content, rng.choice([None, None, 1, 2, 4]) if len(content) < 256 else rng.choice([None, 2, 3]))
        s = gen.rbytes(rng, rng.randint(1, 5))
        cmd = "dec_seq" if tag == 0x30 else "dec_opt"
        if rng.random() < 0.3:
            cmd = "hdr"
        base.append("%s %s" % (cmd, x.hex()))
        ext.append("%s %s" % (cmd, (x + s).hex()))
        meta.append(("elem" if cmd != "hdr" else "hdr", s))
    # top-level messages: trailing octets must be rejected
    for _ in range(N // 3):
        p, _d = gen.rresponse(rng, kinds=gen.DATA_KINDS + ["null", "eomv"])
        which = rng.choice(["msg1", "msg2", "msg3", "usm"])
        if which in ("msg1", "msg2"):
            x = ber.msg_community(0 if which == "msg1" else 1, gen.rbytes(rng, rng.randint(0, 8), False), p)
        elif which == "usm":
            x = ber.usm_params(gen.rbytes(rng, 9, False), 3, 4, b"user", bytes(rng.choice([0, 12])), bytes(rng.choice([0, 8])))
        else:
            usm = ber.usm_params(gen.rbytes(rng, 9, False), 3, 4, b"user", bytes(rng.choice([0, 12])), bytes(rng.choice([0, 8])))
            data = ber.scoped_pdu(b"\x01\x02", b"", p) if rng.random() < 0.7 else ber.tlv(4, gen.rbytes(rng, 16, False))
            x = ber.msg_v3(rng.randrange(2 ** 31), rng.randrange(8), usm, data)
        # what follows the message: arbitrary octets, and the kinds a lenient decoder is tempted to let through
        # (padding of zero octets, 0xff, an end-of-contents pair, white space, a second copy of the message)
        s = rng.choice([gen.rbytes(rng, rng.randint(1, 4)), bytes(rng.choice([1, 2, 4, 64])), b"\xff" * rng.choice([1, 3]), b"\x00\x00", b"\n", b" ", b"\x05\x00", x])
        base.append("%s %s" % (which, x.hex()))
        ext.append("%s %s" % (which, (x + s).hex()))
        meta.append(("top", s))
    m1, r1, d1 = cd.run(base)
    m2, r2, d2 = cd.run(ext)
    dis = 0
    n_ok = 0
    for k in range(len(base)):
        kind, s = meta[k]
        for prof, a, b, ma, mb in (("release", r1[k], r2[k], m1[k], m2[k]), ("debug", d1[k], d2[k], m1[k], m2[k])):
            for (ml, o, ln) in ((ma, a, base[k]), (mb, b, ext[k])):
                if not codec.same(ml, o, cd.emap):
                    dis += 1
                    if dis <= 5:
                        c.log("model/impl(%s) disagree on `%s`: model %s impl %s" % (prof, ln[:100], ml[:80], o[:80]))
                    if not any(x.startswith("correspondence") for x in c.broken):
                        c.broken = list(c.broken) + ["correspondence `%s`: model `%s` impl(%s) `%s`" % (ln[:200], ml[:100], prof, o[:100])]
            if not a.startswith("OK "):
                continue
            n_ok += prof == "release"
            if kind == "top":
                if canon(b, cd.emap) != "ERR SnmpDecodeError" or not b.startswith("ERR TrailingData"):
                    c.violation("octets after the top-level message are not rejected (%s build): `%s` -> %s" % (prof, ext[k][:80], b[:80]),
                                {"cmd": ext[k], "alone": a, "with_trailing": b, "profile": prof}, key="trailing-accepted")
            else:
                ra = re.match(r"(.*) rest=(\S+)$", a)
                rb = re.match(r"(.*) rest=(\S+)$", b)
                want_rest = ("" if ra.group(2) == "-" else ra.group(2)) + s.hex()
                if not rb or not codec.same(ra.group(1), rb.group(1), cd.emap) or rb.group(2) != want_rest:
                    c.violation("decoding depends on what follows the element (%s build): `%s` alone %s, followed by %s gives %s"
                                % (prof, base[k][:80], a[:80], s.hex(), b[:80]),
                                {"cmd": base[k], "appended": s.hex(), "alone": a, "with_suffix": b, "profile": prof}, key="extent")
        c.count(base[k][:300], nontrivial=r1[k].startswith("OK ") and len(base[k]) > 16)
    c.sample({"x": base[0], "alone": r1[0], "x+s": ext[0], "with_suffix": r2[0]})

    # ---- inner length tampered to exceed the enclosing element
    lines = []
    for _ in range(N // 3):
        k, v = gen.rvalue(rng, gen.DATA_KINDS)
        inner = bytearray(gen.enc_rvalue(rng, k, v, legal_variants=False))
        if len(inner) < 2 or inner[1] >= 0x80:
            continue
        over = rng.choice([1, 2, 5, 100])
        if inner[1] + over >= 128:
            continue
        inner[1] += over                      # declares more than it has
        name = ber.enc_oid([1, 3, 6, 1, rng.randrange(100)])
        vb = ber.tlv(0x30, name + bytes(inner))
        follow = ber.varbind(ber.enc_oid([1, 3, 6, 2]), ber.enc_value("os", b"A" * 120))   # octets the overrun would swallow
        p = ber.pdu(0xA2, 7, 0, 0, [vb, follow])
        lines.append("msg2 " + ber.msg_community(1, b"public", p).hex())
        lines.append("pdu " + p.hex())
        lines.append("value " + bytes(inner).hex())

    def on_over(k, ln, ml, rl, dl):
        c.count(ln[:300], True)
        for o in (rl, dl):
            if o.startswith("OK"):
                c.violation("an element whose declared length exceeds the enclosing element is accepted: `%s` -> %s" % (ln[:80], o[:80]),
                            {"cmd": ln, "observed": o}, key="overrun-accepted")
    dis += cd.diff(lines, label="overrun", on_case=on_over)
    # ---- a length written with 5..8 length octets whose value is the true length plus a multiple of 2^32 (or 2^16, 2^24, 2^40 ...):
    # the declared extent is astronomically past the input; only the low bits "fit"
    def widen(tl, extra_hi, nlen):
        """the TLV `tl` (short or long form) with its length re-declared as true length + extra_hi in exactly nlen length octets"""
        t, cont, _end = ber.s_tlv(tl, 0)
        return bytes([t, 0x80 | nlen]) + (len(cont) + extra_hi).to_bytes(nlen, "big") + cont
    lines = []
    for _ in range(N // 6):
        k, v = gen.rvalue(rng, gen.DATA_KINDS)
        x = gen.enc_rvalue(rng, k, v, legal_variants=False)
        nlen = rng.choice([3, 4, 5, 5, 6, 7, 8, 8])
        hi = rng.choice([b for b in (16, 24, 32, 32, 40, 48, 56, 63) if b < 8 * nlen])
        extra = (1 << hi) * rng.choice([1, 1, 3, 255])
        if (len(x) + extra).bit_length() > 8 * nlen:
            continue
        try:
            wx = widen(x, extra, nlen)
        except ber.Strict:
            continue
        name = ber.enc_oid([1, 3, 6, 1, rng.randrange(100)])
        p_in = ber.pdu(0xA2, 7, 0, 0, [ber.tlv(0x30, name + wx)])                              # the value's length
        p_vb = ber.pdu(0xA2, 7, 0, 0, [widen(ber.tlv(0x30, name + x), extra, nlen)])           # the varbind's length
        lines.append("value " + wx.hex())
        lines.append("dec_%s %s" % (k if k in TYPED else "os", wx.hex()) if k in TYPED else "value " + wx.hex())
        lines.append("pdu " + p_in.hex())
        lines.append("msg2 " + ber.msg_community(1, b"public", p_vb).hex())
        lines.append("msg2 " + widen(ber.msg_community(1, b"public", ber.pdu(0xA2, 7, 0, 0, [ber.tlv(0x30, name + x)])), extra, nlen).hex())   # the message's own
        lines.append("msg1 " + widen(ber.msg_community(0, b"public", ber.pdu(0xA2, 7, 0, 0, [ber.tlv(0x30, name + x)])), extra, nlen).hex())
        lines.append("hdr " + wx.hex())
    def on_wide(k, ln, ml, rl, dl):
        c.count(ln[:300], True)
        for o in (rl, dl):
            if o.startswith("OK"):
                c.violation("an element declaring a length of 2^16..2^63 more than it has is accepted: `%s` -> %s" % (ln[:80], o[:80]),
                            {"cmd": ln, "observed": o}, key="huge-length-accepted")
    dis += cd.diff(lines, label="huge-length", on_case=on_wide)
    # ---- the decrypted scoped PDU is an element too: its extent is the msgData OCTET STRING that was decrypted, whatever an
    # earlier request or reply left in the cipher's private buffer.  Inner lengths that run past the plaintext are rejected.
    ok3, log3, v3exe = vf.ocaml_build("v3", "v3_model", "v3_driver")
    if not ok3:
        c.errors.append("building the extracted v3 model failed: " + log3[-800:])
        return c.finish("n/a")

    def nested(k):
        """a scoped PDU carrying one OCTET STRING, every enclosing length on the path to it declared k octets too long"""
        t = lambda tag, content, extra=0: bytes([tag]) + ber.enc_len(len(content) + extra) + content
        val = t(4, b"value-" + gen.rbytes(rng, rng.randint(0, 20), False), k)
        vb = t(0x30, ber.enc_oid([1, 3, 6, 1, 2, 1, 1, 5, 0]) + val, k)
        vbl = t(0x30, vb, k)
        pdu = t(0xA2, ber.enc_int(99) + ber.enc_int(0) + ber.enc_int(0) + vbl, k)
        return t(0x30, ber.tlv(4, b"\x80\x00\x01") + ber.tlv(4, b"") + pdu, k)
    plines, pmeta = [], []
    for _ in range(400 if thorough else 80):
        alg = rng.choice([1, 2])
        key = gen.rbytes(rng, 16, False)
        k = rng.choice([0, 0, 1, 2, 7, 8, 16, 24, 40])
        plain = nested(k)
        salt = gen.rbytes(rng, 8, False)
        # the agent's clock over its whole legal range, ends included (snmpEngineBoots latches at 2^31-1)
        boots, tm = (rng.choice([0, 1, 2 ** 31 - 2, 2 ** 31 - 1, rng.randrange(2 ** 31)]) for _q in range(2))
        if alg == 1:
            iv = bytes(a ^ b for a, b in zip(salt, key[8:16]))
            q = "cipher des enc %s %s %s" % (key[:8].hex(), iv.hex(), (plain + bytes((-len(plain)) % 8)).hex())
        else:
            iv = boots.to_bytes(4, "big") + tm.to_bytes(4, "big") + salt
            q = "cipher aes enc %s %s %s" % (key.hex(), iv.hex(), plain.hex())
        ct = vf.run_lines(v3exe, [q], shards=1)[0][3:]
        # history first: requests of various sizes leave their ciphertext in the private buffer
        hist = []
        for _h in range(rng.choice([0, 1, 1, 2])):
            arcs = [1, 3, 6, 1, 4, 1] + [rng.randrange(2 ** 32) for _y in range(rng.choice([1, 8, 30]))]
            hist.append("e,800001,get:5:%s,1,2" % ber.oid_content(arcs).hex())
        plines.append("priv %d %s %s" % (alg, key.hex(), "|".join(hist + ["d,%s,%d,%d,%s" % (salt.hex(), boots, tm, ct)])))
        # the decrypted msgData of DES includes the padding: only lengths beyond it run past the element
        pmeta.append((max(0, k - ((-len(plain)) % 8 if alg == 1 else 0)), len(hist)))
    pr = vf.run_lines(cd.rel, plines)
    pdbg = vf.run_lines(cd.dbg, plines)
    # the model is told the salt the implementation drew (first encrypt) so that whole lines compare
    mlines = []
    for ln, o in zip(plines, pr):
        f = ln.split(" ")
        enc = [x for x in o[3:].split(" | ") if x.startswith("E ")] if o.startswith("OK ") else []
        seed = 0
        if enc:
            pp0 = enc[0].split(" ")[2]
            seed = int(pp0[8:], 16) if f[1] == "1" else int(pp0, 16)
        mlines.append("priv %s %s %d %s" % (f[1], f[2], seed, f[3]))
    pm = vf.run_lines(v3exe, mlines, shards=8)
    for ln, (k, nh), ml, rl, dl in zip(plines, pmeta, pm, pr, pdbg):
        c.count(("privacy-extent", ln[:300]), k > 0 and nh > 0)
        for prof, o in (("release", rl), ("debug", dl)):
            last = o[3:].split(" | ")[-1] if o.startswith("OK ") else o
            mlast = ml[3:].split(" | ")[-1] if ml.startswith("OK ") else ml
            if codec.canon(last, cd.emap) != codec.canon(mlast, cd.emap):
                dis += 1
                if not any(b.startswith("correspondence") for b in c.broken):
                    c.broken = list(c.broken) + ["correspondence `%s`: model `%s` impl(%s) `%s`" % (ln[:200], mlast[:120], prof, last[:120])]
            if k > 0 and last.startswith("D "):
                c.violation("a decrypted scoped PDU whose inner lengths run %d octets past the decrypted msgData is read instead of rejected, "
                            "after %d earlier request(s) on the key (%s build): %s" % (k, nh, prof, last[:80]),
                            {"cmd": ln, "profile": prof, "observed": o}, key="privacy-extent")
            if k == 0 and not last.startswith("D plain(800001,resp(99,0,0;"):
                c.violation("a well-formed encrypted reply is not read after %d earlier request(s) on the key (%s build): %s" % (nh, prof, last[:80]),
                            {"cmd": ln, "profile": prof, "observed": o}, key="privacy-extent-wellformed")
    # ---- the same through the sockets: whatever follows the top-level message in a datagram, the reply is rejected, not read
    # (the decoders above are reached through SnmpSocket::recv_socket, which must hand them the whole datagram)
    vb = ber.varbind(ber.enc_oid([1, 3, 6, 1, 2, 1, 1, 5, 0]), ber.enc_value("os", b"Gufo"))
    whole = ber.msg_community(1, b"public", ber.pdu(0xA2, 1, 0, 0, [vb]))
    sufs = ["00", "0000", "00" * 17, "ff", "3000", "0500", gen.rbytes(rng, rng.randint(1, 30), False).hex(), whole.hex()]
    cfgs = [("v1", None), ("v2c", None), ("v3", {"user": "u0", "auth": None, "priv": None}),
            ("v3", {"user": "ue", "auth": ["sha1", 2, "44" * 20], "priv": ["aes", 2, "55" * 20]}),
            ("v3", {"user": "ud", "auth": ["md5", 2, "46" * 16], "priv": ["des", 2, "57" * 16]})]
    scs = []
    for ver, v3 in cfgs:
        for mode in ("sync", "async"):
            sc = {"version": ver, "mode": mode, "timeout": 1.5, "steps": []}
            if v3:
                sc["v3"] = dict(v3, engine_id="80001f8880a1b2c3d4", agent_engine_id="80001f8880a1b2c3d4", boots=2, time=500)
            for sx in sufs if thorough else rng.sample(sufs, 5):
                op = rng.choice(["get", "get_many", "getnext", "getbulk"]) if ver != "v1" else rng.choice(["get", "get_many", "getnext"])
                args = {"get": ["1.3.6.1.2.1.1.5.0"], "get_many": [["1.3.6.1.2.1.1.5.0"]], "getnext": ["1.3.6.1.2.1.1"], "getbulk": ["1.3.6.1.2.1.1"]}[op]
                sc["steps"].append({"op": op, "args": args, "replies": [[{"vbs": vb.hex(), "post": {"append": sx}}]], "cap": 3, "_suffix": sx})
            # and the plain reply, which must be read
            sc["steps"].append({"op": "get", "args": ["1.3.6.1.2.1.1.5.0"], "replies": [[{"vbs": vb.hex()}]], "_suffix": ""})
            scs.append(sc)
    ress, logs = vf.run_api_worker("C16", {"scenarios": [dict(sc, steps=[{k: v for k, v in st.items() if not k.startswith("_")} for st in sc["steps"]]) for sc in scs],
                                           "model_exe": v3exe})
    n_sock = 0
    if ress is None:
        c.errors.append("API worker failed: " + logs[-1500:])
    else:
        for sc, rec in zip(scs, ress["records"]):
            if "driver_error" in rec:
                c.errors.append("API driver error: " + rec["driver_error"])
                continue
            for st, out in zip(sc["steps"], rec["steps"]):
                n_sock += 1
                c.count(("socket-trailing", sc["version"], sc["mode"], bool(sc.get("v3", {}).get("priv")), st["op"], st["_suffix"][:40]), bool(st["_suffix"]))
                got = out.get("exc") or ("items %s" % out.get("items") if out["kind"] == "ITER" else "value %s" % out.get("value"))
                if st["_suffix"]:
                    read = out["kind"] == "RET" or (out["kind"] == "ITER" and out.get("items"))
                    if read or (out.get("exc") or out.get("ending")) not in ("SnmpDecodeError",):
                        c.violation("%s/%s %s: a reply followed by %d more octet(s) in its datagram is %s (%s), rejection with SnmpDecodeError expected"
                                    % (sc["version"], sc["mode"], st["op"], len(st["_suffix"]) // 2, "read" if read else "not rejected as a decode error", got),
                                    {"scenario": dict(sc, steps=[{k: v for k, v in st.items() if not k.startswith("_")}]), "observed": out.get("exc") or out.get("value") or out.get("items")},
                                    key="socket-trailing:%s" % ("read" if read else "other-outcome"))
                elif out["kind"] != "RET" or "4775666f" not in (out.get("value") or ""):
                    c.violation("%s/%s get: the plain reply is not read (%s)" % (sc["version"], sc["mode"], got), {"scenario": dict(sc, steps=[])}, key="socket-plain")
    c.coverage["socket_trailing_calls"] = n_sock
    return c.finish(
        rule="%d (x, s) pairs: x a legal encoding (all value kinds incl. REAL, non-minimal lengths/integers, SEQUENCE/context elements, "
             "v1/v2c/v3/USM messages), s 1..40 appended octets; plus %d messages whose inner value length is tampered to run past the "
             "varbind; non-trivial = x decodes alone and is longer than 8 octets; distinct by x" % (len(base), len(lines)),
        extra={"disagreements": dis, "pairs_decoding_alone": n_ok})


def api_main(g, job):
    import scen
    return scen.api_main_generic(g, job)


def canon(line, emap):
    return codec.canon(line, emap).split(" at=")[0]

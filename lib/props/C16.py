"""C16 - decoding an element reads exactly its declared extent.

Proof: Properties/C16.v (header and every decoder are independent of the octets that follow; the rest is exactly
those octets; overrunning lengths and trailing octets are rejected).  Correspondence: extracted decoders against
the real ones (debug + release).  Oracle: the metamorphic relation itself evaluated on the implementation:
decode(x ++ s) = (value(x), s) for element decoders, TrailingData for the top-level message, and rejection when
an inner length is tampered to exceed the enclosing element."""
import re

from lib import codec, gen, vf
import ber

TYPED = {"int": "dec_int", "c32": "dec_c32", "g32": "dec_g32", "tt": "dec_tt", "u32": "dec_u32", "c64": "dec_c64", "os": "dec_os",
         "op": "dec_op", "od": "dec_od", "ip": "dec_ip", "oid": "dec_oid", "bool": "dec_bool", "null": "dec_null", "real": "dec_real"}


def main(argv):
    c = vf.Check("C16", argv)
    thorough = c.tier == "thorough"
    c.prove()
    cd = codec.Codec(c)
    if not cd.ok:
        return c.finish("n/a")
    rng = c.rng
    N = 40000 if thorough else 6000
    base, ext = [], []      # pairs of lines: x alone, x ++ s
    meta = []
    for _ in range(N):
        k, v = gen.rvalue(rng)
        x = gen.enc_rvalue(rng, k, v)
        s = gen.rbytes(rng, rng.choice([1, 1, 2, 3, 8, 40]))
        cmd = rng.choice(["value", TYPED.get(k, "value")])
        if k in ("nso", "nsi", "eomv"):
            cmd = "value"
        base.append("%s %s" % (cmd, x.hex()))
        ext.append("%s %s" % (cmd, (x + s).hex()))
        meta.append(("elem", s))
    # sequences / options / headers
    for _ in range(N // 4):
        content = gen.rbytes(rng, rng.choice([0, 1, 5, 127, 128, 300]), False)
        tag = rng.choice([0x30, 0xA0, 0xA2, 0xA8])
        x = ber.tlv(tag, content, rng.choice([None, None, 1, 2, 4]) if len(content) < 256 else rng.choice([None, 2, 3]))
        s = gen.rbytes(rng, rng.randint(1, 5))
        cmd = "dec_seq" if tag == 0x30 else "dec_opt"
        if rng.random() < 0.3:
            cmd = "hdr"
        base.append("%s %s" % (cmd, x.hex()))
        ext.append("%s %s" % (cmd, (x + s).hex()))
        meta.append(("elem" if cmd != "hdr" else "hdr", s))
    # top-level messages: trailing octets must be rejected
    for _ in range(N // 3):
        p, _d = gen.rresponse(rng, kinds=gen.DATA_KINDS + ["null", "eomv"])
        which = rng.choice(["msg1", "msg2", "msg3", "usm"])
        if which in ("msg1", "msg2"):
            x = ber.msg_community(0 if which == "msg1" else 1, gen.rbytes(rng, rng.randint(0, 8), False), p)
        elif which == "usm":
            x = ber.usm_params(gen.rbytes(rng, 9, False), 3, 4, b"user", bytes(rng.choice([0, 12])), bytes(rng.choice([0, 8])))
        else:
            usm = ber.usm_params(gen.rbytes(rng, 9, False), 3, 4, b"user", bytes(rng.choice([0, 12])), bytes(rng.choice([0, 8])))
            data = ber.scoped_pdu(b"\x01\x02", b"", p) if rng.random() < 0.7 else ber.tlv(4, gen.rbytes(rng, 16, False))
            x = ber.msg_v3(rng.randrange(2 ** 31), rng.randrange(8), usm, data)
        s = gen.rbytes(rng, rng.randint(1, 4))
        base.append("%s %s" % (which, x.hex()))
        ext.append("%s %s" % (which, (x + s).hex()))
        meta.append(("top", s))
    m1, r1, d1 = cd.run(base)
    m2, r2, d2 = cd.run(ext)
    dis = 0
    n_ok = 0
    for k in range(len(base)):
        kind, s = meta[k]
        for prof, a, b, ma, mb in (("release", r1[k], r2[k], m1[k], m2[k]), ("debug", d1[k], d2[k], m1[k], m2[k])):
            for (ml, o, ln) in ((ma, a, base[k]), (mb, b, ext[k])):
                if not codec.same(ml, o, cd.emap):
                    dis += 1
                    if dis <= 5:
                        c.log("model/impl(%s) disagree on `%s`: model %s impl %s" % (prof, ln[:100], ml[:80], o[:80]))
                    if not any(x.startswith("correspondence") for x in c.broken):
                        c.broken = list(c.broken) + ["correspondence `%s`: model `%s` impl(%s) `%s`" % (ln[:200], ml[:100], prof, o[:100])]
            if not a.startswith("OK "):
                continue
            n_ok += prof == "release"
            if kind == "top":
                if canon(b, cd.emap) != "ERR SnmpDecodeError" or not b.startswith("ERR TrailingData"):
                    c.violation("octets after the top-level message are not rejected (%s build): `%s` -> %s" % (prof, ext[k][:80], b[:80]),
                                {"cmd": ext[k], "alone": a, "with_trailing": b, "profile": prof}, key="trailing-accepted")
            else:
                ra = re.match(r"(.*) rest=(\S+)$", a)
                rb = re.match(r"(.*) rest=(\S+)$", b)
                want_rest = ("" if ra.group(2) == "-" else ra.group(2)) + s.hex()
                if not rb or not codec.same(ra.group(1), rb.group(1), cd.emap) or rb.group(2) != want_rest:
                    c.violation("decoding depends on what follows the element (%s build): `%s` alone %s, followed by %s gives %s"
                                % (prof, base[k][:80], a[:80], s.hex(), b[:80]),
                                {"cmd": base[k], "appended": s.hex(), "alone": a, "with_suffix": b, "profile": prof}, key="extent")
        c.count(base[k][:300], nontrivial=r1[k].startswith("OK ") and len(base[k]) > 16)
    c.sample({"x": base[0], "alone": r1[0], "x+s": ext[0], "with_suffix": r2[0]})

    # ---- inner length tampered to exceed the enclosing element
    lines = []
    for _ in range(N // 3):
        k, v = gen.rvalue(rng, gen.DATA_KINDS)
        inner = bytearray(gen.enc_rvalue(rng, k, v, legal_variants=False))
        if len(inner) < 2 or inner[1] >= 0x80:
            continue
        over = rng.choice([1, 2, 5, 100])
        if inner[1] + over >= 128:
            continue
        inner[1] += over                      # declares more than it has
        name = ber.enc_oid([1, 3, 6, 1, rng.randrange(100)])
        vb = ber.tlv(0x30, name + bytes(inner))
        follow = ber.varbind(ber.enc_oid([1, 3, 6, 2]), ber.enc_value("os", b"A" * 120))   # octets the overrun would swallow
        p = ber.pdu(0xA2, 7, 0, 0, [vb, follow])
        lines.append("msg2 " + ber.msg_community(1, b"public", p).hex())
        lines.append("pdu " + p.hex())
        lines.append("value " + bytes(inner).hex())

    def on_over(k, ln, ml, rl, dl):
        c.count(ln[:300], True)
        for o in (rl, dl):
            if o.startswith("OK"):
                c.violation("an element whose declared length exceeds the enclosing element is accepted: `%s` -> %s" % (ln[:80], o[:80]),
                            {"cmd": ln, "observed": o}, key="overrun-accepted")
    dis += cd.diff(lines, label="overrun", on_case=on_over)
    return c.finish(
        rule="%d (x, s) pairs: x a legal encoding (all value kinds incl. REAL, non-minimal lengths/integers, SEQUENCE/context elements, "
             "v1/v2c/v3/USM messages), s 1..40 appended octets; plus %d messages whose inner value length is tampered to run past the "
             "varbind; non-trivial = x decodes alone and is longer than 8 octets; distinct by x" % (len(base), len(lines)),
        extra={"disagreements": dis, "pairs_decoding_alone": n_ok})


def canon(line, emap):
    return codec.canon(line, emap).split(" at=")[0]

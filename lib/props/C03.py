"""C03 - requests on the wire are exactly what the caller asked for.

Proof: Properties/C03.v (every call is turned into the PDU it names; the buffer-level encoders emit exactly the
reference encoding of that message; request ids lie in 0..2^31-1; the result does not depend on the pooled buffer
it is built in; fetch() policy).  Correspondence: every datagram emitted by real sessions (several concurrent
sessions of all versions and key configurations, interleaved calls, replies of varying sizes in between so that
pooled buffers are dirty) must equal, octet for octet, what the extracted model emits for the same call with the
ids / salt read from the wire.  Oracle: the independent strict decoder of harness/py/ber.py reads back version,
credentials, PDU type, request-id range, and the OIDs in order, each bound to NULL."""
import json
import os
import sys

from lib import gen, pylayer, vf

HERE = os.path.dirname(os.path.abspath(__file__))


def plan_calls(rng, ver, n):
    calls = []
    for _ in range(n):
        k = rng.choice(["get", "get", "get_many", "getnext", "getbulk", "fetch", "refresh", "toolarge", "deadsend"])
        if ver == "v1" and k == "getbulk":
            k = "getnext"
        arcs = gen.rarcs(rng, 6)
        if k == "toolarge":
            # does not fit the buffer: must raise SnmpEncodeError, send nothing, and leave no trace in the pooled buffers
            # enough OIDs (>= 12 octets of varbind each) to exceed the message buffer of the current sources by a wide margin
            calls.append({"op": "toolarge", "oids": [gen.rarcs(rng, 8) for _ in range(max(400, vf.constant("BUF_MAX_SIZE", 4080) // 8))]})
        elif k == "deadsend":
            # a send() that fails in the kernel (connected UDP socket to a closed port: the second send reports ECONNREFUSED)
            calls.append({"op": "deadsend", "oids": [arcs]})
        elif k == "get":
            calls.append({"op": "get", "oids": [arcs]})
        elif k == "get_many":
            oids = [gen.rarcs(rng, 6) for _ in range(rng.choice([0, 1, 2, 5, 30]))]
            if oids and rng.random() < 0.5:
                # the same OID asked for more than once, not adjacent: the request must still carry every one, in order
                oids = oids + [oids[0]] + oids[:2]
            calls.append({"op": "get_many", "oids": oids})
        elif k in ("getnext", "fetch"):
            calls.append({"op": k, "oids": [arcs[:rng.randint(2, len(arcs))]], "steps": rng.choice([0, 1, 2, 3])})
        elif k == "getbulk":
            calls.append({"op": "getbulk", "oids": [arcs[:rng.randint(2, len(arcs))]], "maxrep": rng.choice([None, 1, 5, 127, 128, 2 ** 31 - 1]),
                          "steps": rng.choice([0, 1, 2])})
        else:
            calls.append({"op": "refresh", "oids": []})
    return calls


def main(argv):
    c = vf.Check("C03", argv)
    thorough = c.tier == "thorough"
    c.prove()
    ok1, log1, codec_exe = vf.ocaml_build("codec", "codec_model", "codec_driver")
    ok3, log3, v3exe = vf.ocaml_build("v3", "v3_model", "v3_driver")
    if not (ok1 and ok3):
        c.errors.append("building the extracted models failed: " + (log1 + log3)[-1500:])
        return c.finish("n/a")
    rng = c.rng
    cfgs = [{"version": "v1", "community": "public"},
            {"version": "v2c", "community": "c" * 130},
            {"version": "v2c", "community": "", "session_kw": {"allow_bulk": False, "max_repetitions": 7}},
            # credentials are octet strings on the wire: a community outside ASCII goes out as its UTF-8 octets, NUL included
            {"version": "v2c", "community": "pub\u00e9lic\u20ac\x00x"},
            {"version": "v3", "v3": {"user": "us\u00e9r\u20ac", "auth": ["md5", 0, b"authpassword".hex()], "priv": None, "engine_id": "80001f8880a1b2c3d4"}},
            {"version": "v3", "v3": {"user": "u0", "auth": None, "priv": None, "engine_id": "80001f8880a1b2c3d4"}},
            {"version": "v3", "v3": {"user": "userA", "auth": ["sha1", 0, b"authpassword".hex()], "priv": None, "engine_id": "80001f8880" + "ab" * 12}},
            {"version": "v3", "v3": {"user": "userD", "auth": ["md5", 1, "0f" * 16], "priv": ["des", 0, b"privpassword".hex()], "engine_id": "8000000001"},
             "session_kw": {"max_repetitions": 33}},
            {"version": "v3", "v3": {"user": "userE" * 6, "auth": ["sha1", 2, "44" * 20], "priv": ["aes", 2, "55" * 20], "engine_id": "80001f8880a1b2c3d4e5f6"}},
            {"version": "v3", "v3": {"user": "userF", "auth": ["md5", 0, b"pw1".hex()], "priv": ["aes", 1, "77" * 16], "engine_id": "800000020304"}}]
    for cf in cfgs:
        cf["mode"] = rng.choice(["sync", "async"])
        if cf["version"] == "v3":
            cf["v3"]["agent_engine_id"] = cf["v3"]["engine_id"]
    ncalls = 60 if thorough else 16
    job = {"sessions": [dict(cf, calls=plan_calls(rng, cf["version"], ncalls)) for cf in cfgs], "model_exe": v3exe,
           "order_seed": c.seed}
    res, log = vf.run_api_worker("C03", job, timeout=1500)
    if res is None:
        c.errors.append("API worker failed: " + log[-2500:])
        return c.finish("n/a")
    dis = 0
    n_dgrams = 0
    # compare every emitted datagram with the model, using the model lines prepared by the worker
    lines_c, lines_3, metas_c, metas_3 = [], [], [], []
    for rec in res["emitted"]:
        n_dgrams += 1
        c.count((rec["session"], rec["datagram"][:200]), nontrivial=len(rec["datagram"]) > 120)
        if n_dgrams <= 3:
            c.sample({"session": rec["session"], "call": rec["call"], "datagram": rec["datagram"][:160]})
        for bad in rec["oracle"]:
            c.violation("session %d (%s) %s: %s" % (rec["session"], rec["config"], rec["call"], bad),
                        {"session_config": rec["config_full"], "call": rec["call_full"], "datagram": rec["datagram"], "history": rec["history"]},
                        key="emit:" + bad.split(":")[0])
        if rec.get("model_line"):
            if rec["model_runner"] == "codec":
                lines_c.append(rec["model_line"])
                metas_c.append(rec)
            else:
                lines_3.append(rec["model_line"])
                metas_3.append(rec)
    for lines, metas, exe in ((lines_c, metas_c, codec_exe), (lines_3, metas_3, v3exe)):
        out = vf.run_lines(exe, lines)
        for rec, ml in zip(metas, out):
            got = ml.split(" ")[1] if ml and ml.startswith("OK ") else ml
            if got != rec["datagram"]:
                dis += 1
                if dis <= 4:
                    c.log("model/impl disagree on session %d %s:\n     model %s\n     impl  %s" % (rec["session"], rec["call"], (ml or "")[:200], rec["datagram"][:200]))
                if not any(b.startswith("correspondence") for b in c.broken):
                    c.broken = list(c.broken) + ["correspondence emit `%s`: model `%s` impl `%s`" % (rec["model_line"][:200], (ml or "")[:120], rec["datagram"][:120])]
    for e in res.get("errors", []):
        c.errors.append("API driver: " + e)
    c.assumptions += ["request-ids, message-ids and the privacy salt are random in the implementation: they are read from the wire and fed to the model"]
    # ---- the Python layer alone, on scripted socket results, against Model.PyLayer (lib/pylayer.py)
    n_pl, d_pl = pylayer.run(c, codec_exe, c.rng, 1500 if thorough else 300, "C03")
    c.coverage["python_layer_cases"] = n_pl
    # ---- sessions that discover their engine id, with the first discovery probe lost and the entry retried: every request
    # afterwards carries the CONFIGURED user, the security flags of its keys and the agent's engine id
    report = {"pdu_tag": 0xA8, "mac": "absent", "encrypt": "no", "flags": 0}
    dsc = []
    for mode in ("sync", "async"):
        for auth, priv in ((None, None), (["md5", 0, b"authpass77".hex()], None), (["sha1", 1, "ab" * 20], ["aes", 0, b"privpass88".hex()])):
            for lost in (True, False):
                steps = ([{"op": "enter", "replies": [[]]}] if lost else []) + [{"op": "enter", "replies": [[report]], "default_reply": report}]
                steps += [{"op": "get", "args": ["1.3.6.1.2.1.1.5.0"], "replies": [[{"vbs": ""}]]},
                          {"op": "get_many", "args": [["1.3.6.1.2.1.1.5.0", "1.3.6.1.2.1.1.6.0"]], "replies": [[{"vbs": ""}]]}]
                dsc.append({"version": "v3", "mode": mode, "timeout": 0.25, "steps": steps, "_lost": lost,
                            "v3": {"user": "monitor", "auth": auth, "priv": priv, "engine_id": None, "agent_engine_id": "80001f8880a1b2c3d4e5", "boots": 4, "time": 44}})
    resd, logd = vf.run_api_worker("C03", {"generic_scenarios": [{k: v for k, v in sc.items() if not k.startswith("_")} for sc in dsc], "model_exe": v3exe})
    if resd is None:
        c.errors.append("API worker failed: " + logd[-1500:])
    else:
        for sc, rec in zip(dsc, resd["records"]):
            if "driver_error" in rec:
                c.errors.append("API driver error: " + rec["driver_error"])
                continue
            want_flags = (1 if sc["v3"]["auth"] else 0) | (2 if sc["v3"]["priv"] else 0)
            for st, out in list(zip(sc["steps"], rec["steps"]))[(2 if sc["_lost"] else 1):]:
                for q in out["requests"]:
                    c.count(("v3-discovered", sc["mode"], sc["_lost"], want_flags, st["op"]), True)
                    prob = None
                    if "error" in q:
                        prob = "not a well-formed message: " + q["error"]
                    elif q.get("user") != b"monitor".hex():
                        prob = "user name %r on the wire" % bytes.fromhex(q.get("user", "")).decode("latin1")
                    elif q.get("flags", 0) & 3 != want_flags:
                        prob = "security flags %d, the session's keys require %d" % (q.get("flags", 0) & 3, want_flags)
                    elif q.get("engine_id") != sc["v3"]["agent_engine_id"]:
                        prob = "engine id %s on the wire" % q.get("engine_id")
                    if prob:
                        c.violation("v3/%s session of user 'monitor' (engine id discovered%s): %s request: %s"
                                    % (sc["mode"], ", first probe lost and entry retried" if sc["_lost"] else "", st["op"], prob),
                                    {"scenario": {k: v for k, v in sc.items() if not k.startswith("_")}, "request": {k: q.get(k) for k in ("user", "flags", "engine_id", "auth", "priv")}},
                                    key="v3-discovered:" + prob.split(" ")[0])
                        break
    # ---- the id generator itself, from any state (guarded hook RequestId::verif_set of /repo, MANIFEST.hooks): whatever was
    # handed out before - the top of the range included - the next ids lie in 0..2^31-1 and only the id handed out matches
    okh, logh, hexe = vf.cargo_build_harness("release")
    n_rid = 0
    if okh:
        states = sorted(set([0, 1, 2, 127, 128, 255, 256, 65535, 65536, 2 ** 31 - 3, 2 ** 31 - 2, 2 ** 31 - 1, 2 ** 31, 2 ** 31 + 1, 2 ** 32 - 1, 2 ** 32,
                             2 ** 63 - 1, -1, -2 ** 31, -2 ** 63] + [rng.randrange(-2 ** 63, 2 ** 63) for _ in range(20)]))
        outs = vf.run_lines(hexe, ["reqid %d 6" % st for st in states], shards=1)
        if outs and outs[0] == "NOHOOK":
            c.assumptions.append("the tree carries no RequestId::verif_set hook: the id generator was only observed from its random states")
        else:
            for st, o in zip(states, outs):
                n_rid += 1
                c.count(("reqid", st), True)
                f = dict(x.split("=", 1) for x in o[3:].split(" ")) if o.startswith("OK ") else {}
                ids = [int(x) for x in f.get("ids", "").split(",") if x]
                if not o.startswith("OK ") or len(ids) != 6:
                    c.violation("the id generator fails from state %d: %s" % (st, o[:80]), {"cmd": "reqid %d 6" % st, "observed": o}, key="reqid-fails")
                elif any(not (0 <= x < 2 ** 31) for x in ids):
                    c.violation("from generator state %d the next ids are %s: not all in 0..2^31-1" % (st, ids), {"cmd": "reqid %d 6" % st, "observed": o},
                                key="reqid-out-of-range")
                elif (f["same"], f["plus31"], f["minus31"], f["plus32"], f["neg"]) != ("1", "0", "0", "0", "0"):
                    c.violation("RequestId::check after id %d: same=%s +2^31=%s -2^31=%s +2^32=%s complement=%s (only the id itself may match)"
                                % (ids[-1], f["same"], f["plus31"], f["minus31"], f["plus32"], f["neg"]), {"cmd": "reqid %d 6" % st, "observed": o}, key="reqid-check")
    c.coverage["id_generator_states"] = n_rid
    return c.finish(
        rule="%d datagrams emitted by %d concurrent sessions (v1, v2c x2, v3 noAuth, SHA, MD5+DES, SHA+AES, MD5+AES; password/master/localized "
             "keys; sync/async) under interleaved get / get_many (0..30 OIDs) / getnext / getbulk (max_repetitions 1..2^31-1 and default) / "
             "fetch / refresh calls with replies of varying size in between; each datagram strictly decoded and compared with the model; "
             "non-trivial = datagram longer than 120 octets" % (n_dgrams, len(cfgs)),
        extra={"disagreements": dis, "datagrams": n_dgrams, "traces_validated_against_impl": n_dgrams})


# ------------------------------------------------------------------------------------------------------------
def api_main(g, job):
    if "generic_scenarios" in job:
        import scen as _scen
        return _scen.api_main_generic(g, dict(job, scenarios=job["generic_scenarios"]))
    return _api_main(g, job)


def _api_main(g, job):
    """Worker: several sessions alive at once, calls interleaved; returns every emitted datagram with its oracle verdict
    and the model command that must reproduce it."""
    import random
    import apilib
    import ber
    import scen
    rng = random.Random(job["order_seed"])
    model = apilib.ModelProc(job["model_exe"])
    errors, emitted = [], []
    sessions = []
    for i, cf in enumerate(job["sessions"]):
        st = {"cfg": cf, "boots": 3 + i, "time": 100 + i, "history": [], "pending": None}
        sc = {"version": cf["version"], "mode": cf.get("mode", "sync"), "timeout": 0.4, "community": cf.get("community", "public"),
              "session_kw": cf.get("session_kw", {})}
        if cf["version"] == "v3":
            sc["v3"] = dict(cf["v3"], boots=st["boots"], time=st["time"])
        st["sc"] = sc
        st["keys"] = scen.V3Keys(sc["v3"], bytes.fromhex(sc["v3"]["agent_engine_id"])) if cf["version"] == "v3" else None

        def handler(n, data, addr, st=st):
            req = scen.parse_request(data, st["keys"], model)
            st["last_reqs"].append((data, req))
            script = st["script"]
            if not script:
                return []
            sp = script.pop(0)
            if sp is None:
                return []
            if st["cfg"]["version"] == "v3":
                # the agent's clock moves: the next request must be stamped with these
                if rng.random() < 0.3:
                    # the agent restarts (boots + 1, its clock starts again) or its clock is set back
                    st["boots"] += rng.choice([0, 1, 1])
                    st["time"] = rng.randint(0, max(0, st["time"] - 1))
                else:
                    st["time"] += rng.randint(1, 50)
                sp = dict(sp, boots=st["boots"], time=st["time"])
                st["stamp_seq"].append((st["boots"], st["time"]))
            return [(0, scen.build_reply(sp, req, st["sc"], st["keys"], model, rng))]
        st["agent"] = apilib.Agent(handler)
        st["script"] = []
        st["last_reqs"] = []
        st["stamp"] = (0, 0)
        st["stamp_seq"] = []
        st["sess"] = scen.Session(g, sc, st["agent"], model)
        # a second session of the same configuration whose peer port is closed (nothing listens there)
        import socket as _socket
        tmp = _socket.socket(_socket.AF_INET, _socket.SOCK_DGRAM)
        tmp.bind(("127.0.0.1", 0))
        dead_port = tmp.getsockname()[1]
        tmp.close()

        class _P:
            port = dead_port
        dsc = dict(sc, timeout=0.02, mode="sync")
        st["dead"] = scen.Session(g, dsc, _P(), model).sess
        if st["sess"].create_error:
            errors.append("session %d could not be created: %s" % (i, st["sess"].create_error))
        sessions.append(st)
    # interleave
    order = [(i, k) for i, st in enumerate(sessions) for k in range(len(st["cfg"]["calls"]))]
    rng.shuffle(order)
    nxt = [0] * len(sessions)
    for i, _k in order:
        st = sessions[i]
        call = st["cfg"]["calls"][nxt[i]]
        nxt[i] += 1
        cf = st["cfg"]
        ver = cf["version"]
        op = call["op"]
        oid_txt = [ber.oid_text(a) for a in call["oids"]]
        filler = ber.varbind(ber.enc_oid([1, 3, 6, 1, 4, 1]), ber.enc_value("os", bytes(rng.choice([0, 10, 200, 900]))))
        expected = []        # list of (pdu type, oids, f1, f2)
        if op == "deadsend":
            # two sends on a throw-away session of the same kind whose peer port is closed; whatever they raise is not judged
            for _x in range(3):
                apilib.call(st["dead"].get, oid_txt[0])
            st["history"].append("deadsend")
            continue
        if op == "toolarge":
            st["script"] = []
            st["last_reqs"] = []
            out = st["sess"].op("get_many", [oid_txt], 5)
            st["agent"].take()
            bad = []
            if st["last_reqs"]:
                bad.append("sent-on-error: %d datagram(s) emitted for a request that does not fit the buffer" % len(st["last_reqs"]))
            if out.get("exc") != "SnmpEncodeError":
                bad.append("oversize-outcome: %s instead of SnmpEncodeError" % (out.get("exc") or out.get("value")))
            if bad:
                emitted.append({"session": i, "config": ver, "config_full": cf_view(cf), "call": "get_many(%d OIDs)" % len(call["oids"]), "call_full": {"op": "toolarge"},
                                "datagram": "", "history": st["history"][-5:], "model_line": None, "oracle": bad})
            st["history"].append("toolarge")
            continue
        if op == "get":
            st["script"] = [{"vbs": filler.hex()}]
            args = [oid_txt[0]]
            expected = [(0xA0, [call["oids"][0]], 0, 0)]
        elif op == "get_many":
            st["script"] = [{"vbs": filler.hex()}]
            args = [oid_txt]
            expected = [(0xA0, call["oids"], 0, 0)]
        elif op == "refresh":
            st["script"] = [{"pdu_tag": 0xA8}]
            args = []
            to_refresh = ver == "v3" and cf["v3"].get("auth") is not None
            expected = [(0xA0, [], 0, 0)] if to_refresh else []
        else:
            base = call["oids"][0]
            steps = call.get("steps", 1)
            kw = cf.get("session_kw", {})
            bulk = op == "getbulk" or (op == "fetch" and ver != "v1" and kw.get("allow_bulk", True))
            dflt = kw.get("max_repetitions", vf.default_max_repetitions(cf.get("mode", "sync")))
            mr = (call.get("maxrep") or dflt) if op == "getbulk" else dflt
            cur = base
            script = []
            for j in range(steps):
                nxt_oid = base + [j + 1]
                expected.append((0xA5, [cur], 0, mr) if bulk else (0xA1, [cur], 0, 0))
                script.append({"vbs": ber.varbind(ber.enc_oid(nxt_oid), ber.enc_value("int", j)).hex()})
                cur = nxt_oid
            expected.append((0xA5, [cur], 0, mr) if bulk else (0xA1, [cur], 0, 0))
            script.append({"vbs": ber.varbind(ber.enc_oid([2, 39, 1]), ber.enc_value("int", 0)).hex()})
            st["script"] = script
            args = [oid_txt[0]] + ([call["maxrep"]] if op == "getbulk" and call.get("maxrep") is not None else [])
        st["last_reqs"] = []
        st["stamp_seq"] = []
        out = st["sess"].op(op if op != "getbulk" else "getbulk", args, 50)
        reqs = st["last_reqs"]
        st["agent"].take()
        desc = "%s(%s)" % (op, ", ".join(str(a)[:40] for a in args))
        if len(reqs) != len(expected):
            emitted.append({"session": i, "config": ver, "config_full": cf_view(cf), "call": desc, "call_full": call, "datagram": "",
                            "history": st["history"][-5:], "model_line": None,
                            "oracle": ["count: %d datagrams were emitted, the call asks for %d (outcome %s)" % (len(reqs), len(expected), summarize(out))]})
        for j, ((data, req), exp) in enumerate(zip(reqs, expected)):
            bad = []
            stamp_j = st["stamp"] if (j == 0 or j - 1 >= len(st["stamp_seq"])) else st["stamp_seq"][j - 1]
            model_line, runner = None, None
            if "error" in req:
                bad.append("malformed: not a strictly (minimally, definite-length) encoded SNMP message: " + req["error"])
            else:
                p = req.get("pdu")
                vnum = {"v1": 0, "v2c": 1, "v3": 3}[ver]
                if req["version"] != vnum:
                    bad.append("version: %d on the wire, session is %s" % (req["version"], ver))
                if ver != "v3":
                    if req["community"] != cf.get("community", "public").encode():
                        bad.append("community: %r on the wire" % req["community"][:20])
                else:
                    v3 = cf["v3"]
                    if req["user"] != v3["user"].encode():
                        bad.append("user: %r on the wire" % req["user"][:20])
                    if req["engine_id"] != bytes.fromhex(v3["engine_id"]):
                        bad.append("engine-id: %s on the wire" % req["engine_id"].hex())
                    if (req["boots"], req["time"]) != stamp_j:
                        bad.append("boots-time: (%d,%d) on the wire, the agent last said %s" % (req["boots"], req["time"], stamp_j))
                    want_flags = (1 if v3.get("auth") else 0) | (2 if v3.get("priv") else 0) | (4 if (p and p["type"] == 0xA0 and not p["oids"]) else 0)
                    if req["flags"] != want_flags:
                        bad.append("flags: %d on the wire, expected %d" % (req["flags"], want_flags))
                    if req.get("decrypt_error"):
                        bad.append("decrypt: " + req["decrypt_error"])
                    if not (0 <= req["msg_id"] < 2 ** 31):
                        bad.append("msgid-range: %d" % req["msg_id"])
                if p:
                    if p["type"] != exp[0]:
                        bad.append("pdu-type: %#x on the wire, the call needs %#x" % (p["type"], exp[0]))
                    if not (0 <= p["request_id"] < 2 ** 31):
                        bad.append("request-id-range: %d" % p["request_id"])
                    if p["oids"] != exp[1]:
                        bad.append("oids: %s on the wire, asked for %s" % (str(p["oids"])[:80], str(exp[1])[:80]))
                    if (p["f1"], p["f2"]) != (exp[2], exp[3]):
                        bad.append("pdu-fields: (%d,%d) on the wire, expected (%d,%d)" % (p["f1"], p["f2"], exp[2], exp[3]))
                    # the model command that must reproduce this datagram octet for octet
                    oh = ",".join(ber.oid_content(o).hex() for o in p["oids"]) or "-"
                    spec = {0xA0: "get:%d:%s", 0xA1: "getnext:%d:%s"}.get(p["type"])
                    spec = (spec % (p["request_id"], oh)) if spec else "bulk:%d:%d:%d:%s" % (p["request_id"], p["f1"], p["f2"], oh)
                    if ver != "v3":
                        model_line = "emit%d %s %s" % (1 if ver == "v1" else 2, scen_hx(req["community"]), spec)
                        runner = "codec"
                    else:
                        keys = st["keys"]
                        aalg = {"md5": 1, "sha1": 2}.get((cf["v3"].get("auth") or [None])[0], 0)
                        palg = {"des": 1, "aes": 2}.get((cf["v3"].get("priv") or [None])[0], 0)
                        salt = 0
                        if palg == 1:
                            salt = int.from_bytes(req["priv"][4:8], "big")
                        elif palg == 2:
                            salt = int.from_bytes(req["priv"], "big")
                        sess = "/".join([scen_hx(req["engine_id"]), str(req["boots"]), str(req["time"]), scen_hx(req["user"]), str(aalg),
                                         scen_hx(keys.auth_key or b""), str(palg), scen_hx(keys.priv_key or b""), str(salt), "0",
                                         str(p["request_id"])])
                        model_line = "v3emit %s %s %d" % (sess, spec, req["msg_id"])
                        runner = "v3"
                elif ver == "v3" and not req.get("decrypt_error"):
                    bad.append("no-pdu: scoped PDU missing")
            emitted.append({"session": i, "config": ver + ("/" + "+".join(x[0] for x in (cf.get("v3", {}).get("auth"), cf.get("v3", {}).get("priv")) if x) if ver == "v3" else ""),
                            "config_full": cf_view(cf), "call": desc, "call_full": call, "datagram": data.hex(), "history": st["history"][-5:],
                            "oracle": bad, "model_line": model_line, "model_runner": runner})
        if st["stamp_seq"]:
            st["stamp"] = st["stamp_seq"][-1]
        st["history"].append(desc)
    for st in sessions:
        st["sess"].close()
        st["agent"].close()
    model.close()
    return {"emitted": emitted, "errors": errors}


def scen_hx(b):
    return bytes(b).hex() or "-"


def cf_view(cf):
    return {k: v for k, v in cf.items() if k != "calls"}


def summarize(out):
    return out.get("exc") or out.get("ending") or out.get("value")

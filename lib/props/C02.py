"""C02 - response values reach the caller exactly as the agent encoded them.

Proof: Properties/C02.v (every legal BER encoding of every value kind, at every varbind position, decodes to the
value it denotes; REAL: exact description, IEEE rounding delegated - partial).  Correspondence: extracted decoders
and to_python against the real ones (codec harness) and against the real SnmpSession (get, get_many, getnext,
getbulk; sync and async; v1, v2c, v3 plain/auth/DES/AES).  Oracle: three-way comparison with the value the
generator intended, computed independently (harness/py/ber.py, lib/gen.py)."""
from lib import codec, gen, pylayer, vf
import ber

CODEC_PREFIX = {"int": "int", "c32": "c32", "g32": "g32", "tt": "tt", "u32": "u32", "c64": "c64", "os": "os", "op": "op", "od": "od",
                "ip": "ip", "oid": "oid", "bool": "bool"}


def codec_expected(kind, v):
    if kind in ("int", "c32", "g32", "tt", "u32", "c64"):
        return "%s:%d" % (kind, v)
    if kind in ("os", "op", "od"):
        return "%s:%s" % (kind, gen.hx(v))
    if kind == "ip":
        return "ip:" + ".".join(str(x) for x in v)
    if kind == "oid":
        return "oid:" + ber.oid_content(v).hex()
    if kind == "bool":
        return "bool:%d" % (1 if v else 0)
    if kind in ("null", "nso", "nsi", "eomv"):
        return kind
    if kind == "real":
        x = gen.real_expected(v)
        if x is None:
            return None
        import math
        return "real:f64:nan" if math.isnan(x) else "real:f64:%016x" % gen.f64bits(x)
    return None


def real_close(a, b):
    return gen.float_close(a.replace("real:f64:", "float:"), b.replace("real:f64:", "float:"))


def main(argv):
    c = vf.Check("C02", argv)
    thorough = c.tier == "thorough"
    c.prove()
    cd = codec.Codec(c)
    if not cd.ok:
        return c.finish("n/a")
    rng = c.rng
    dis = 0
    # ---- codec level: single values, all legal encodings
    vals = [gen.rvalue(rng) for _ in range(120000 if thorough else 20000)]
    for v in gen.INT_BOUNDS:
        vals.append(("int", v))
    lines = ["value " + gen.enc_rvalue(rng, k, v).hex() for k, v in vals]
    m, r, d = cd.run(lines)
    for (k, v), ln, ml, rl, dl in zip(vals, lines, m, r, d):
        want = codec_expected(k, v)
        c.count(ln, nontrivial=k not in ("null", "nso", "nsi", "eomv", "bool"))
        for prof, o in (("release", rl), ("debug", dl)):
            if not codec.same(ml, o, cd.emap):
                dis += 1
                if dis <= 5:
                    c.log("model/impl(%s) disagree on `%s`: model %s impl %s" % (prof, ln[:80], ml[:80], o[:80]))
                if not any(b.startswith("correspondence") for b in c.broken):
                    c.broken = list(c.broken) + ["correspondence `%s`: model `%s` impl(%s) `%s`" % (ln[:200], ml[:100], prof, o[:100])]
            if want is None:
                continue
            got = o[3:].split(" rest=")[0] if o.startswith("OK ") else o
            okv = (got == want) or (k == "real" and got.startswith("real:f64:") and real_close(got, want)) or \
                  (k == "real" and want == "real:f64:nan" and got.startswith("real:f64:7ff") or got.startswith("real:f64:fff") and want == "real:f64:nan")
            if not okv or (o.startswith("OK ") and not o.endswith("rest=-")):
                c.violation("%s value %s decodes as `%s`, it denotes `%s` (%s build)" % (k, str(v)[:40], got[:60], want[:60], prof),
                            {"cmd": ln, "kind": k, "expected": want, "observed": o, "profile": prof}, key="value-decode:" + k)
    c.sample({"value": lines[0], "decoded": r[0]})

    # ---- codec level: whole responses through get / get_many to_python (position independence)
    lines, exp = [], []
    for _ in range(30000 if thorough else 5000):
        p, desc = gen.rresponse(rng, kinds=gen.DATA_KINDS + ["real"] * 2 + ["null", "nso", "eomv"], rid=5, tag=0xA2)
        op = "getmany" if len(desc) != 1 or rng.random() < 0.5 else "get"
        lines.append("op %s %s" % (op, p.hex()))
        exp.append((op, desc))
    m, r, d = cd.run(lines)
    for (op, desc), ln, ml, rl, dl in zip(exp, lines, m, r, d):
        c.count(ln[:400], nontrivial=len(desc) >= 2)
        for prof, o in (("release", rl), ("debug", dl)):
            if not codec.same(ml, o, cd.emap):
                dis += 1
                if dis <= 5:
                    c.log("model/impl(%s) disagree on `%s`: model %s impl %s" % (prof, ln[:80], ml[:100], o[:100]))
                if not any(b.startswith("correspondence") for b in c.broken):
                    c.broken = list(c.broken) + ["correspondence `%s`: model `%s` impl(%s) `%s`" % (ln[:200], ml[:100], prof, o[:100])]
            bad = judge(op, desc, o)
            if bad:
                c.violation("response values reach the caller wrong (%s, %s build): %s" % (op, prof, bad),
                            {"cmd": ln, "profile": prof, "observed": o, "intended": [(a, k, str(v)[:60]) for a, k, v in desc]},
                            key="api-value:" + bad.split(":")[0])
    c.sample({"response": lines[0][:200], "to_python": r[0][:200]})

    # ---- API level
    scs = []
    n_sc = 60 if thorough else 14
    cfgs = [("v1", None), ("v2c", None),
            ("v3", {"user": "u0", "auth": None, "priv": None}),
            ("v3", {"user": "ua", "auth": ["sha1", 0, b"authpass12".hex()], "priv": None}),
            ("v3", {"user": "ud", "auth": ["md5", 0, b"authpass12".hex()], "priv": ["des", 0, b"privpass12".hex()]}),
            ("v3", {"user": "ue", "auth": ["sha1", 1, "aa" * 20], "priv": ["aes", 2, "bb" * 20]})]
    expected = []
    for i in range(n_sc):
        ver, v3 = cfgs[i % len(cfgs)]
        mode = "sync" if (i // len(cfgs)) % 2 == 0 else "async"
        sc = {"version": ver, "mode": mode, "timeout": 0.5, "steps": []}
        if v3:
            sc["v3"] = dict(v3, engine_id="80001f8880aabbccdd", agent_engine_id="80001f8880aabbccdd", boots=5, time=1000)
        ex = []
        for _ in range(25 if thorough else 12):
            kind = rng.choice(["get", "get_many", "getnext", "getbulk"])
            if ver == "v1" and kind == "getbulk":
                kind = "getnext"
            base = [1, 3, 6, 1, 4]
            if kind == "get":
                k, v = gen.rvalue(rng, gen.DATA_KINDS + ["real"])
                arcs = base + [rng.randrange(100)]
                vb = ber.varbind(ber.enc_oid(arcs), gen.enc_rvalue(rng, k, v))
                sc["steps"].append({"op": "get", "args": [ber.oid_text(arcs)], "replies": [[{"vbs": vb.hex()}]]})
                ex.append(("get", [(arcs, k, v)]))
            elif kind == "get_many":
                n = rng.choice([0, 1, 2, 5, 40])
                desc, vbs = [], b""
                for j in range(n):
                    k, v = gen.rvalue(rng, gen.DATA_KINDS + ["real", "null", "nso"])
                    arcs = base + [j, rng.choice(gen.ARC_BOUNDS)]
                    desc.append((arcs, k, v))
                    vbs += ber.varbind(ber.enc_oid(arcs), gen.enc_rvalue(rng, k, v))
                if len(vbs) > 3500:
                    continue
                sc["steps"].append({"op": "get_many", "args": [[ber.oid_text(a) for a, _, _ in desc] or ["1.3.6"]],
                                    "replies": [[{"vbs": vbs.hex()}]]})
                ex.append(("getmany", desc))
            else:
                # a short walk: increasing OIDs under base, then one outside
                n = rng.choice([1, 2, 4])
                desc, replies = [], []
                arcs = base + [0]
                per = []
                for j in range(n):
                    k, v = gen.rvalue(rng, gen.DATA_KINDS + ["real"])
                    arcs = base + [j + 1, rng.choice([0, 1, 127, 128, 2 ** 32 - 1])]
                    desc.append((arcs, k, v))
                    per.append(ber.varbind(ber.enc_oid(arcs), gen.enc_rvalue(rng, k, v)))
                end = ber.varbind(ber.enc_oid([1, 3, 6, 1, 5, 0]), ber.enc_value("int", 0))
                if kind == "getnext":
                    replies = [[{"vbs": x.hex()}] for x in per] + [[{"vbs": end.hex()}]]
                    sc["steps"].append({"op": "getnext", "args": [ber.oid_text(base)], "replies": replies, "cap": 50})
                else:
                    replies = [[{"vbs": (b"".join(per) + end).hex()}]]
                    sc["steps"].append({"op": "getbulk", "args": [ber.oid_text(base), 10], "replies": replies, "cap": 50})
                ex.append(("walk", desc))
        scs.append(sc)
        expected.append(ex)
    ok_m, log_m, v3exe = vf.ocaml_build("v3", "v3_model", "v3_driver")
    res, log = vf.run_api_worker("C02", {"scenarios": scs, "model_exe": v3exe})
    n_api = 0
    if res is None:
        c.errors.append("API worker failed: " + log[-1500:])
    else:
        for sc, ex, rec in zip(scs, expected, res["records"]):
            if "driver_error" in rec:
                c.errors.append("API driver error: " + rec["driver_error"])
                continue
            for st, (op, desc), out in zip(sc["steps"], ex, rec["steps"]):
                n_api += 1
                c.count(("api", sc["version"], sc["mode"], op, str(desc)[:200]), True)
                if out["kind"] == "RET":
                    o = "RET " + out["value"]
                elif out["kind"] == "ITER":
                    o = "ITER " + "|".join(out["items"]) + " END " + out["ending"]
                else:
                    o = "EXC " + out["exc"]
                bad = judge(op, desc, o)
                if bad:
                    c.violation("%s/%s %s: value delivered to the caller is wrong: %s" % (sc["version"], sc["mode"], st["op"], bad),
                                {"scenario": dict(sc, steps=[st]), "observed": o, "intended": [(a, k, str(v)[:60]) for a, k, v in desc]},
                                key="api-value:" + bad.split(":")[0])
    # ---- replies that fill the receive buffer to its last octet (and one less): complete datagrams, delivered whole
    MAXB = vf.constant("BUF_MAX_SIZE", 4080)
    fsc = []
    for ver in ("v1", "v2c", "v3"):
        for mode in ("sync", "async"):
            sc = {"version": ver, "mode": mode, "timeout": 0.5, "steps": [{"op": op, "args": ["1.3.6.1.4.1.1"] if op == "get" else [["1.3.6.1.4.1.1"]],
                                                                            "replies": [[{"fill_total": tot}]], "_tot": tot}
                                                                           for tot in (MAXB - 1, MAXB, MAXB - 2, 1500, MAXB) for op in ("get", "get_many")]}
            if ver == "v3":
                sc["v3"] = {"user": "u0", "auth": None, "priv": None, "engine_id": "80001f8880aabbccdd", "agent_engine_id": "80001f8880aabbccdd", "boots": 5, "time": 1000}
            fsc.append(sc)
    resf, logf = vf.run_api_worker("C02", {"scenarios": [dict(sc, steps=[{k: v for k, v in st.items() if not k.startswith("_")} for st in sc["steps"]]) for sc in fsc]})
    if resf is None:
        c.errors.append("API worker failed: " + logf[-1500:])
    else:
        for sc, rec in zip(fsc, resf["records"]):
            if "driver_error" in rec:
                c.errors.append("API driver error: " + rec["driver_error"])
                continue
            for st, out in zip(sc["steps"], rec["steps"]):
                xs = out.get("exchanges") or [{}]
                sent = len(bytes.fromhex((xs[0].get("replies") or [""])[0]))
                n_api += 1
                c.count(("api-full-buffer", sc["version"], sc["mode"], st["op"], st["_tot"]), sent == st["_tot"])
                val = out.get("value") or ""
                okv = (val.startswith("bytes:46") and set(val[6:]) == {"4", "6"}) if st["op"] == "get" else ("=bytes:46" in val and val.count("=") == 1)
                if sent == st["_tot"] and not (out["kind"] == "RET" and okv):
                    c.violation("%s/%s %s: a well-formed reply of exactly %d octets (receive buffer %d) does not reach the caller: %s"
                                % (sc["version"], sc["mode"], st["op"], sent, MAXB, (out.get("exc") or val)[:60]),
                                {"version": sc["version"], "mode": sc["mode"], "op": st["op"], "datagram_octets": sent, "buffer": MAXB, "outcome": out.get("exc") or val[:80]},
                                key="api-full-buffer:%s" % ("exact" if sent == MAXB else "below"))
    c.assumptions += ["REAL: the model decodes to an exact description (sign, mantissa, power of two / decimal text / special value); "
                      "the final IEEE-754 rounding is not modelled, the correctly rounded value is computed by the harness (partial)"]
    # ---- the Python layer alone (single calls, iterators, several objects on one session) on scripted socket results,
    # against Model.PyLayer (lib/pylayer.py): what the socket hands over reaches the right caller, once, in order
    n_pl, d_pl = pylayer.run(c, cd.model, c.rng, 1500 if thorough else 300, "C02")
    c.coverage["python_layer_cases"] = n_pl
    return c.finish(
        rule="single values of every kind in every legal encoding (minimal and padded integers, long-form lengths, REAL decimal/special/binary), "
             "responses of 0..12 varbinds through get/get_many to_python, and %d API calls (get, get_many 0..40 varbinds, getnext, getbulk; "
             "sync+async; v1, v2c, v3 noAuth/SHA/MD5+DES/SHA+AES); non-trivial = a data value (not NULL/exception/bool) resp. >= 2 varbinds" % n_api,
        extra={"disagreements": dis, "api_calls": n_api})


def judge(op, desc, o):
    """Compare the observed outcome with the intended values. Returns None or 'kind: text'."""
    if op == "get":
        (arcs, k, v), = desc
        want = gen.expected_render(k, v)
        if want is None:
            return None
        if not o.startswith("RET "):
            return "%s: expected %s, got %s" % (k, want, o[:60])
        got = o[4:]
        if got != want and not gen.float_close(got, want):
            return "%s: expected %s, got %s" % (k, want, got[:60])
        return None
    if op == "getmany":
        wants = {}
        for arcs, k, v in desc:
            if k in ("null", "nso", "nsi", "eomv"):
                continue
            w = gen.expected_render(k, v)
            if w is None:
                return None
            wants["str:" + gen.hx(ber.oid_text(arcs).encode())] = w
        if not o.startswith("RET {"):
            return "dict: expected a dict of %d entries, got %s" % (len(wants), o[:60])
        body = o[5:-1]
        got = dict(x.split("=", 1) for x in body.split(",")) if body else {}
        if set(got) != set(wants):
            return "dict-keys: expected %d keys, got %d" % (len(wants), len(got))
        for kk, w in wants.items():
            if got[kk] != w and not gen.float_close(got[kk], w):
                return "dict-value: key %s expected %s got %s" % (kk[:40], w[:40], got[kk][:40])
        return None
    if op == "walk":
        wants = []
        for arcs, k, v in desc:
            w = gen.expected_render(k, v)
            if w is None:
                return None
            wants.append(("str:" + gen.hx(ber.oid_text(arcs).encode()), w))
        if not o.startswith("ITER "):
            return "walk: %s" % o[:60]
        items, ending = o[5:].split(" END ")
        got = [x[1:-1].split(",", 1) for x in items.split("|")] if items else []
        if ending != "STOP" or len(got) != len(wants):
            return "walk-items: expected %d items then STOP, got %d then %s" % (len(wants), len(got), ending)
        for (gk, gv), (wk, wv) in zip(got, wants):
            if gk != wk or (gv != wv and not gen.float_close(gv, wv)):
                return "walk-value: expected (%s,%s) got (%s,%s)" % (wk[:30], wv[:30], gk[:30], gv[:30])
        return None
    return None


def api_main(g, job):
    import scen
    return scen.api_main_generic(g, job)

"""C08 - the OID sent is the OID asked for; invalid OID text is refused.

Proof: Properties/C08.v.  Correspondence: Model.OidText.oid_of_text / text_of_oid (extracted) against
SnmpOid::try_from(&str) / String::try_from(&SnmpOid) (codec harness, debug + release) and against what
SnmpSession.get / getnext actually put on the wire (API driver).  Oracle: an independent parser of the
dotted-decimal grammar and the independent base-128 encoder of harness/py/ber.py."""
import re

from lib import codec, gen, vf
import ber

PART = re.compile(r"^\+?[0-9]+$")


def reference(text):
    """None if the text must be refused, else the arcs it denotes (independent of model and code)."""
    parts = text.split(".")
    arcs = []
    for p in parts:
        if not PART.match(p) or any(ord(ch) > 127 for ch in p):
            return None
        v = int(p)
        if v > 2 ** 32 - 1:
            return None
        arcs.append(v)
    if len(arcs) < 2 or arcs[0] > 2 or arcs[1] > 39:
        return None
    return arcs


ALPHA = "0123456789" * 3 + "...." + "+- aZé"


def gen_text(rng):
    t = rng.randint(0, 9)
    if t == 0:
        return "".join(rng.choice(ALPHA) for _ in range(rng.randint(0, 12)))
    arcs = [rng.choice([0, 1, 2, 2, 3, 6, 7, 40, rng.randint(0, 50)]), rng.choice([0, 39, 39, 40, 1, rng.randint(0, 60)])]
    arcs += [rng.choice(gen.ARC_BOUNDS + [2 ** 32, 2 ** 32 + 1, 2 ** 40, rng.randrange(2 ** 33), rng.randrange(1000)])
             for _ in range(rng.choice([0, 1, 2, 6, 20, 127]))]
    s = ".".join(str(a) for a in arcs)
    if t == 1:
        s = rng.choice(["+", "0", "00", ".", "-", " "]) + s
    elif t == 2 and s:
        i = rng.randrange(len(s))
        s = s[:i] + rng.choice(ALPHA) + s[i + 1:]
    elif t == 3:
        s = s + rng.choice([".", "..", " ", ".+", ".+5", ".05", ".-1"])
    elif t == 4:
        s = str(arcs[0])
    elif t == 5 and len(arcs) > 2:
        k = rng.randrange(2, len(arcs))
        s = ".".join(("+" if i == k else "") + ("0" * rng.randint(0, 3)) + str(a) for i, a in enumerate(arcs))
    return s


def main(argv):
    c = vf.Check("C08", argv)
    thorough = c.tier == "thorough"
    c.prove()
    cd = codec.Codec(c)
    if not cd.ok:
        return c.finish("n/a")
    rng = c.rng
    texts = ["", ".", "1", "1.", ".1", "1.3", "1.40.1", "3.1.1", "7.1", "2.39", "0.0", "1.3.6.1.2.1.1.1.0", "1.3.-6", "1.3.+6",
             "1.3.4294967295", "1.3.4294967296", "1..3", "1.3.6 ", " 1.3.6", "1.3.6.", "a.b", "1.3.0x10", "2.39.4294967295.0"]
    while len(texts) < (200000 if thorough else 30000):
        texts.append(gen_text(rng))
    lines = ["oid_parse " + gen.hx(t.encode()) for t in texts]
    m, r, d = cd.run(lines)
    dis = 0
    accepted = []
    n_valid = 0
    for t, ln, ml, rl, dl in zip(texts, lines, m, r, d):
        ref = reference(t)
        n_valid += ref is not None
        c.count(t, nontrivial=(ref is not None and len(ref) > 2) or ("." in t and ref is None))
        for prof, o in (("release", rl), ("debug", dl)):
            if not codec.same(ml, o, cd.emap):
                dis += 1
                if dis <= 3:
                    c.log("model/impl(%s) disagree on oid_parse %r: model %s impl %s" % (prof, t[:60], ml, o))
                if not any(b.startswith("correspondence") for b in c.broken):
                    c.broken = list(c.broken) + ["correspondence oid_parse %r: model `%s` impl(%s) `%s`" % (t[:80], ml, prof, o)]
            if o == "PANIC":
                c.violation("OID text %r makes the parser panic (%s build)" % (t[:80], prof), {"cmd": ln, "profile": prof},
                            key="oid-parse-panic")
            elif ref is None and o.startswith("OK"):
                c.violation("invalid OID text %r is accepted and sent as %s (%s build)" % (t[:80], o[3:60], prof),
                            {"cmd": ln, "text": t, "observed": o, "profile": prof}, key="oid-invalid-accepted")
            elif ref is not None:
                want = "OK " + ber.oid_content(ref).hex()
                if o != want:
                    c.violation("OID text %r is %s, expected the canonical encoding %s (%s build)" % (t[:80], o[:60], want[3:60], prof),
                                {"cmd": ln, "text": t, "expected": want, "observed": o, "profile": prof},
                                key="oid-wrong-encoding" if o.startswith("OK") else "oid-valid-refused")
        if ref is not None and rl.startswith("OK "):
            accepted.append((t, ref, rl[3:]))
    # print(parse(s)) = s for canonical s; any accepted spelling prints canonically
    plines = ["oid_print " + h for _, _, h in accepted]
    m2, r2, d2 = cd.run(plines)
    for (t, ref, h), ml, rl, dl in zip(accepted, m2, r2, d2):
        want = "OK " + gen.hx(ber.oid_text(ref).encode())
        for prof, o in (("release", rl), ("debug", dl)):
            if o != want:
                c.violation("OID %s prints as %s, expected %r (%s build)" % (h[:40], o[:60], ber.oid_text(ref)[:60], prof),
                            {"cmd": "oid_print " + h, "expected": want, "observed": o, "profile": prof}, key="oid-print")
            if not codec.same(ml, o, cd.emap):
                dis += 1
    # sub-identifiers around and beyond 2^32-1 coming from the agent: printed as what they are or refused, never as another OID
    blines, bmeta = [], []
    for v in [2 ** 32 - 2, 2 ** 32 - 1, 2 ** 32, 2 ** 32 + 1, 2 ** 33, 2 ** 35 + 7, 2 ** 40, 2 ** 63, 2 ** 64 - 1, 2 ** 64, 2 ** 64 + 5, 2 ** 70 + 1, 2 ** 127 + 3]:
        for arcs in ([1, 3, v], [1, 3, 6, v, 1], [2, 39, 1, v], [1, 3, v, v]):
            blines.append("oid_print " + gen.hx(ber.oid_content(arcs)))
            bmeta.append(arcs)
    bm, brl, bdb = cd.run(blines)
    for ln, arcs, ml, rl, dl in zip(blines, bmeta, bm, brl, bdb):
        c.count(ln, True)
        for prof, o in (("release", rl), ("debug", dl)):
            if not codec.same(ml, o, cd.emap):
                dis += 1
                if not any(b.startswith("correspondence") for b in c.broken):
                    c.broken = list(c.broken) + ["correspondence `%s`: model `%s` impl(%s) `%s`" % (ln[:120], ml[:100], prof, o[:100])]
            want = "OK " + gen.hx(ber.oid_text(arcs).encode())
            if o == "PANIC" or (o.startswith("OK ") and o != want) or (max(arcs) < 2 ** 32 and o != want):
                c.violation("an OID with the sub-identifier %d prints as %s, it denotes %s (%s build)"
                            % (max(arcs), bytes.fromhex(o[3:]).decode() if o.startswith("OK ") else o, ber.oid_text(arcs), prof),
                            {"cmd": ln, "expected": want + " or a refusal", "observed": o, "profile": prof}, key="oid-print-wide")
    # arbitrary content octets through the printer (never a panic), model = impl
    raw = ["oid_print " + gen.hx(gen.rbytes(rng, rng.randint(0, 9))) for _ in range(20000 if thorough else 4000)]
    dis += cd.diff(raw, label="oid_print", on_case=lambda k, ln, ml, rl, dl: (
        c.count(ln), [c.violation("printing OID octets panics: " + ln, {"cmd": ln}, key="oid-print-panic") for o in (rl, dl) if o == "PANIC"]))
    idx = rng.sample(range(len(lines)), 200)
    codec.crosscheck_extraction(c, cd, [lines[i] for i in idx], [m[i] for i in idx])
    c.sample({"text": texts[5], "sent": r[5]})
    c.sample({"text": texts[30], "sent": r[30]})

    # ---- API level: what get()/getnext() put on the wire for a sample of texts
    sample = [t for t in texts[:23]] + [t for t in texts[23:] if len(t) < 200][: (600 if thorough else 150)]
    sample = [t for t in sample if "é" not in t]
    # OIDs whose own BER header changes form (content of 126..129 and 255..257 octets, and close to the 4080-octet buffer)
    for n in (126, 127, 128, 129, 255, 256, 257, 1000):
        sample.append("1.3." + ".".join("1" for _ in range(n - 1)))
        k = (n - 1) // 5
        sample.append("1.3." + ".".join(["4294967295"] * k + ["1"] * (n - 1 - 5 * k)))
    scs = []
    for ver in ("v1", "v2c"):
        steps = []
        for t in sample:
            steps.append({"op": "get", "args": [t], "replies": [[{"vbs": ""}]]})
            steps.append({"op": "getnext", "args": [t], "replies": [[{"vbs": ""}]], "cap": 2})
        scs.append({"version": ver, "mode": "sync", "timeout": 0.05, "steps": steps})
    # every operation takes OID text: getbulk / fetch with one text, get_many with lists mixing valid and invalid texts at
    # every position (one invalid text refuses the whole call), both clients
    valid_t = [t for t in sample if reference(t) is not None and len(t) < 80]
    invalid_t = [t for t in sample if reference(t) is None and len(t) < 80]
    for ver, mode in (("v2c", "sync"), ("v2c", "async"), ("v1", "async")):
        steps = []
        for _ in range(120 if thorough else 40):
            k = rng.choice([1, 2, 2, 3, 4])
            lst = [rng.choice(valid_t) for _x in range(k)]
            for _x in range(rng.choice([0, 1, 1, 2])):
                lst[rng.randrange(k)] = rng.choice(invalid_t)
            if rng.random() < 0.1:
                lst = [rng.choice(invalid_t) for _x in range(k)]
            steps.append({"op": "get_many", "args": [lst], "replies": [[{"vbs": ""}]]})
        for t in rng.sample(sample, 40 if thorough else 16):
            if ver != "v1":
                steps.append({"op": "getbulk", "args": [t], "replies": [[{"vbs": ""}]], "cap": 2})
            steps.append({"op": "fetch", "args": [t], "replies": [[{"vbs": ""}]], "cap": 2})
        scs.append({"version": ver, "mode": mode, "timeout": 0.05, "steps": steps})
    res, log = vf.run_api_worker("C08", {"scenarios": scs})
    n_api = 0
    if res is None:
        c.errors.append("API worker failed: " + log[-1500:])
    else:
        for sc, rec in zip(scs, res["records"]):
            if "driver_error" in rec:
                c.errors.append("API driver error: " + rec["driver_error"])
                continue
            for st, out in zip(sc["steps"], rec["steps"]):
                if st["op"] == "get_many":
                    lst = st["args"][0]
                    refs = [reference(t) for t in lst]
                    n_api += 1
                    c.count(("api-get_many", sc["version"], sc["mode"], tuple(lst)), any(r is None for r in refs))
                    sent = out["requests"]
                    if (out.get("exc") or "").startswith("PANIC"):
                        c.violation("get_many(%r) surfaced a Rust panic" % lst, {"op": "get_many", "texts": lst, "outcome": out}, key="api-oid-panic")
                    elif any(r is None for r in refs):
                        if sent or out["kind"] == "RET":
                            c.violation("get_many(%r): text %d is not an OID, yet %s" % ([t[:30] for t in lst], [i for i, r in enumerate(refs) if r is None][0],
                                        "a request naming %s went out" % [q.get("pdu", {}).get("oids") for q in sent][:1] if sent else "the call returned"),
                                        {"op": "get_many", "texts": lst, "emitted": out["emitted"]}, key="api-invalid-sent")
                    elif not sent or sent[0].get("pdu", {}).get("oids") != refs:
                        c.violation("get_many(%r) sent %s, expected %s" % ([t[:30] for t in lst], [q.get("pdu", {}).get("oids") for q in sent][:1], refs),
                                    {"op": "get_many", "texts": lst, "emitted": out["emitted"]}, key="api-wrong-oid")
                    continue
                t = st["args"][0]
                ref = reference(t)
                n_api += 1
                sent = [q for q in out["requests"]]
                panic = (out.get("exc") or "").startswith("PANIC") or (out.get("ending") or "").startswith("PANIC")
                if panic:
                    c.violation("%s(%r) surfaced a Rust panic" % (st["op"], t[:60]), {"op": st["op"], "text": t, "outcome": out},
                                key="api-oid-panic")
                if ref is None:
                    if sent:
                        c.violation("%s(%r): invalid OID text, yet a request went out" % (st["op"], t[:60]),
                                    {"op": st["op"], "text": t, "emitted": out["emitted"]}, key="api-invalid-sent")
                else:
                    oids = [q.get("pdu", {}).get("oids") for q in sent]
                    if not sent or oids[0] != [ref]:
                        c.violation("%s(%r) sent %s, expected OID %s" % (st["op"], t[:60], oids[:1], ref),
                                    {"op": st["op"], "text": t, "emitted": out["emitted"], "expected_arcs": ref}, key="api-wrong-oid")
    c.assumptions += ["a leading '+' and leading zeros in an arc are accepted by the library and denote the same number (Rust u32::from_str); "
                      "this reading of 'refused or sent as exactly what it denotes' is recorded in DESIGN.md"]
    return c.finish(
        rule="%d OID texts over the alphabet {digits . + - space letters non-ASCII}: hand-picked malformed ones, valid OIDs with boundary arcs "
             "(0,127/128,16383/16384,2^21,2^28,2^32-1, 2^32), mutated and sign/zero-prefixed spellings; %d valid; each accepted OID printed back; "
             "%d API calls (get/getnext, v1/v2c) checked on the wire; non-trivial = valid with > 2 arcs or refused text containing a dot"
             % (len(texts), n_valid, n_api),
        extra={"disagreements": dis, "valid_texts": n_valid, "api_calls": n_api})


def api_main(g, job):
    import scen
    return scen.api_main_generic(g, job)

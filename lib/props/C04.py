"""C04 - only the reply to the outstanding request is ever delivered.

Proof: Properties/C04.v (community receive loop: characterisation by induction on the arrival list) and the v3
acceptance theorems of Properties/C10.v.  Correspondence: Model.Ops.c_recv_loop (extracted) run on the datagrams
that actually arrived, against the outcome of the real call.  Oracle (independent of the model): a FIFO simulation
that classifies each datagram by how it was built (matching / wrong id / wrong community / wrong version / truncated)
using the ids actually seen on the wire, so a random 31-bit collision cannot cause a false alarm."""
import itertools

from lib import codec, gen, vf
import ber

FAULTS = ["deliver", "drop", "dup", "late", "wrongid", "wrongcomm", "wrongver", "trunc", "garbage_then_ok", "skip_then_ok", "report",
          "id_minus_2_31", "id_plus_2_32", "id_plus_1", "comm_extended", "comm_prefix", "comm_empty",
          "id_minus_2_32", "id_plus_2_33", "id_plus_2_40", "id_plus_2_48", "id_minus_2_56", "id_plus_2_62"]


def value_vb(k):
    return ber.varbind(ber.enc_oid([1, 3, 6, 1, 9, k]), ber.enc_value("int", 1000 + k))


def build_script(word):
    """For request k the agent sends replies[k]; 'late' moves the reply of request k in front of those of request k+1."""
    replies = []
    carry = []
    for k, f in enumerate(word):
        own = []
        ok = {"vbs": value_vb(k).hex(), "_class": "match", "_k": k}
        if f == "deliver":
            own = [ok]
        elif f == "drop":
            own = []
        elif f == "dup":
            own = [ok, dict(ok)]
        elif f == "late":
            own = []
        elif f == "wrongid":
            own = [{"vbs": value_vb(k + 800).hex(), "rid": 12345 + k, "_class": "skip", "_k": k + 800}]
        elif f in ID_SHIFTS:
            # an id that differs from the outstanding one only above bit 30 / by one: never the outstanding id
            shift = ID_SHIFTS[f]
            own = [{"vbs": value_vb(k + 500).hex(), "rid": shift, "_class": "never", "_k": k + 500}, ok]
        elif f in ("comm_extended", "comm_prefix", "comm_empty"):
            cm = {"comm_extended": b"publicX", "comm_prefix": b"publi", "comm_empty": b""}[f]
            own = [{"vbs": value_vb(k + 600).hex(), "community": cm.hex(), "_class": "never", "_k": k + 600}, ok]
        elif f == "wrongcomm":
            own = [{"vbs": value_vb(k + 900).hex(), "community": b"other".hex(), "_class": "skip", "_k": k + 900}]
        elif f == "wrongver":
            own = [{"vbs": value_vb(k).hex(), "version": 3, "_class": "fail", "_k": k}]
        elif f == "trunc":
            own = [{"vbs": value_vb(k).hex(), "post": {"truncate": -3}, "_class": "fail", "_k": k}]
        elif f == "garbage_then_ok":
            own = [{"raw": "3003020100", "_class": "fail", "_k": k}, ok]
        elif f == "skip_then_ok":
            own = [{"vbs": value_vb(k + 700).hex(), "rid": 777, "_class": "skip", "_k": k + 700}, ok]
        elif f == "report":
            own = [{"pdu_tag": 0xA8, "vbs": value_vb(k).hex(), "rid": 999, "_class": "report", "_k": k}]
        replies.append(carry + own)
        carry = [dict(ok, _late_for=k)] if f == "late" else []
    return replies


def simulate(word, replies, rids):
    """FIFO simulation -> expected outcome per call: ('value', k) | 'SnmpDecodeError' | 'TimeoutError' | ('report',)"""
    queue = []
    out = []
    for k in range(len(word)):
        queue += [dict(sp, _sent_during=k) for sp in replies[k]]
        res = "TimeoutError"
        while queue:
            sp = queue.pop(0)
            cls = sp["_class"]
            if cls == "fail":
                res = "SnmpDecodeError"
                break
            if cls == "report":
                res = ("report",)
                break
            if cls == "match":
                # built with "rid: same" for the request during which it was SENT
                sent_rid = rids[sp["_sent_during"]]
                if sent_rid == rids[k]:
                    res = ("value", sp["_k"])
                    break
                continue
            if cls == "never":
                continue
            if cls == "skip":
                rid = sp.get("rid")
                if rid is not None and rid == rids[k] and "community" not in sp:
                    res = ("value", sp["_k"])     # an id collision: it IS the outstanding id
                    break
                continue
        if res == "TimeoutError":
            queue = []   # nothing left; (timed-out call consumed everything it skipped)
        out.append(res)
    return out


ID_SHIFTS = {"id_minus_2_31": "same-2147483648", "id_plus_2_32": "same+4294967296", "id_plus_1": "same+1",
             "id_minus_2_32": "same-4294967296", "id_plus_2_33": "same+8589934592", "id_plus_2_40": "same+1099511627776",
             "id_plus_2_48": "same+281474976710656", "id_minus_2_56": "same-72057594037927936", "id_plus_2_62": "same+4611686018427387904"}


def main(argv):
    c = vf.Check("C04", argv)
    thorough = c.tier == "thorough"
    c.prove()
    cd = codec.Codec(c, want_debug=False)
    if not cd.ok:
        return c.finish("n/a")
    rng = c.rng
    words = [(f,) for f in FAULTS]
    pairs = list(itertools.product(FAULTS, repeat=2))
    words += pairs if thorough else rng.sample(pairs, 110)
    for _ in range(400 if thorough else 60):
        words.append(tuple(rng.choice(FAULTS) for _ in range(rng.choice([3, 4]))))
    if thorough:
        words += list(itertools.product(FAULTS[:8], repeat=3))
    scs = []
    for ver in ("v1", "v2c"):
        for mode in ("sync", "async") if thorough else (("sync",) if ver == "v1" else ("sync", "async")):
            ws = words if (thorough or (ver, mode) == ("v2c", "sync")) else rng.sample(words, 45)
            for w in ws:
                if "report" in w and ver != "v2c":
                    continue
                replies = build_script(w)
                steps = []
                for k in range(len(w)):
                    clean = [{kk: vv for kk, vv in sp.items() if not kk.startswith("_")} for sp in replies[k]]
                    steps.append({"op": "get", "args": ["1.3.6.1.9.%d" % k], "replies": [clean]})
                scs.append({"version": ver, "mode": mode, "timeout": 0.03, "community": "public", "steps": steps, "_word": w, "_replies": replies})
    res, log = vf.run_api_worker("C04", {"scenarios": [{k: v for k, v in sc.items() if not k.startswith("_")} for sc in scs]}, timeout=1500)
    n = 0
    dis = 0
    model_lines, model_meta = [], []
    retry = []
    batches = [(scs, res, log)]
    while batches:
      bscs, res, log = batches.pop(0)
      if res is None:
        c.errors.append("API worker failed: " + log[-1500:])
      else:
        for sc, rec in zip(bscs, res["records"]):
            if "driver_error" in rec:
                c.errors.append("API driver error: " + rec["driver_error"])
                continue
            w = sc["_word"]
            rids = []
            for out in rec["steps"]:
                rq = out["requests"]
                rids.append(rq[0].get("pdu", {}).get("request_id") if rq else None)
            exp = simulate(w, sc["_replies"], rids)
            n += 1
            c.count((sc["version"], sc["mode"], w), nontrivial=len(w) >= 2)
            if n <= 3:
                c.sample({"version": sc["version"], "mode": sc["mode"], "faults": list(w),
                          "outcomes": [o.get("value") or o.get("exc") for o in rec["steps"]]})
            for k, (out, want) in enumerate(zip(rec["steps"], exp)):
                got = ("RET " + out["value"]) if out["kind"] == "RET" else out["exc"]
                if isinstance(want, tuple) and want[0] == "value":
                    wv = "RET int:%d" % (1000 + want[1])
                elif isinstance(want, tuple):
                    wv = "SnmpAuthError"
                else:
                    wv = want
                if got != wv:
                    if got.startswith("RET int:") and isinstance(want, tuple) and want[0] == "value":
                        what = "returned the value that answered request %d" % (int(got[8:]) - 1000)
                        key = "wrong-request-value"
                    elif got.startswith("RET"):
                        what = "returned %s although no matching reply had arrived" % got[4:]
                        key = "delivered-non-matching"
                    else:
                        what = "ended with %s" % got
                        key = "outcome:" + got
                    if got in ("TimeoutError", "BlockingIOError") and wv.startswith("RET") and not sc.get("_retried"):
                        # the reply may simply have been slower than the 30 ms timeout on a loaded machine: judged again below
                        retry.append(sc)
                        break
                    c.violation("%s/%s faults %s: call %d %s; expected %s" % (sc["version"], sc["mode"], list(w), k, what, wv),
                                {"scenario": {kk: vv for kk, vv in sc.items() if not kk.startswith("_")}, "faults": list(w), "call": k,
                                 "observed": got, "expected": wv, "request_ids": rids}, key=key)
                    break
      if retry:
        again = [dict(sc, timeout=0.6, _retried=True) for sc in retry]
        retry = []
        c.coverage["scenarios_repeated_with_longer_timeout"] = c.coverage.get("scenarios_repeated_with_longer_timeout", 0) + len(again)
        r2, l2 = vf.run_api_worker("C04", {"scenarios": [{k: v for k, v in sc.items() if not k.startswith("_")} for sc in again]}, timeout=1500)
        batches.append((again, r2, l2))
    # ---- floods: very many non-matching datagrams inside ONE call do not end the wait; the reply behind them is delivered
    fl = []
    for ver, mode, nstray in ([("v2c", "sync", 1100), ("v1", "sync", 2100), ("v2c", "async", 1100)] +
                              ([("v2c", "sync", 70000), ("v2c", "async", 70000)] if thorough else [])):
        strays = [{"vbs": value_vb(7).hex(), "rid": "same+%d" % (1 + i % 5), "delay": (-0.0003 if mode == "async" else (-0.001 if i % 64 == 0 else 0))} for i in range(nstray)]
        # the scripted agent paces the flood (0.3 ms apiece for the asyncio client): the session's timeout is chosen well beyond the
        # time the agent needs to get to the matching reply, so that only "the wait was ended" can make the call fail
        tmo = max(30.0, nstray * 0.0015)
        fl.append({"version": ver, "mode": mode, "timeout": tmo, "watchdog": 3 * tmo, "community": "public", "_n": nstray, "_tmo": tmo,
                   "steps": [{"op": "get", "args": ["1.3.6.1.9.1"], "replies": [strays + [{"vbs": value_vb(1).hex(), "delay": -0.05}]]}]})
    resf, logf = vf.run_api_worker("C04", {"scenarios": [{k: v for k, v in sc.items() if not k.startswith("_")} for sc in fl]}, timeout=1500)
    if resf is None:
        c.violation("the process running a session died or hung while one call skipped a flood of non-matching datagrams; nothing was delivered: " + logf.strip()[-200:],
                    {"worker_log": logf[-1000:]}, key="flood-process")
    else:
        for sc, rec in zip(fl, resf["records"]):
            if "driver_error" in rec:
                c.errors.append("API driver error: " + rec["driver_error"])
                continue
            out = rec["steps"][0]
            n += 1
            c.count(("flood", sc["version"], sc["mode"], sc["_n"]), True)
            got = out.get("value") or out.get("exc")
            if got != "int:1001":
                c.violation("%s/%s: after %d well-formed datagrams with foreign request-ids inside one call the matching reply was not delivered (%s after %.2f s, timeout %.0f s)"
                            % (sc["version"], sc["mode"], sc["_n"], got, out.get("wall", 0), sc["_tmo"]),
                            {"scenario": {"version": sc["version"], "mode": sc["mode"], "strays": sc["_n"], "timeout": sc["_tmo"]}, "outcome": {k: out.get(k) for k in ("kind", "value", "exc", "wall")}},
                            key="flood-ends-wait")
    # ---- v3 sessions: a datagram failing any of the user / authoritative engine id / message id / request-id tests is skipped and
    # the genuine reply behind it is delivered (the acceptance condition itself is the subject of C10's theorems)
    V3F = {"msgid": {"msgid": "same+1"}, "msgid-2^31": {"msgid": "same-2147483648"}, "rid": {"rid": "same+1"}, "rid+2^32": {"rid": "same+4294967296"},
           "msgid+2^32": {"msgid": "same+4294967296"}, "msgid-2^32": {"msgid": "same-4294967296"}, "msgid+2^40": {"msgid": "same+1099511627776"},
           "msgid+2^62": {"msgid": "same+4611686018427387904"}, "rid-2^32": {"rid": "same-4294967296"}, "rid+2^48": {"rid": "same+281474976710656"},
           "user": {"user": b"other".hex()}, "user-ext": {"user": b"u0x".hex()}, "usm-engine": {"engine": "80001f8880ffffffff", "ctx_engine": "80001f8880a1b2c3d4"},
           "usm-engine-ext": {"engine": "80001f8880a1b2c3d400", "ctx_engine": "80001f8880a1b2c3d4"}, "both-engines": {"engine": "80001f8880ffffffff"}}
    v3scs = []
    for mode in ("sync", "async"):
        steps = []
        for k, (name, f) in enumerate(V3F.items()):
            bad = dict({"vbs": value_vb(500 + k).hex()}, **f)
            steps.append({"op": "get", "args": ["1.3.6.1.9.%d" % k], "replies": [[bad, {"vbs": value_vb(k).hex()}]], "_name": name})
            steps.append({"op": "get", "args": ["1.3.6.1.9.%d" % k], "replies": [[bad]], "_name": name + " (alone)"})
        v3scs.append({"version": "v3", "mode": mode, "timeout": 0.2, "steps": steps,
                      "v3": {"user": "u0", "auth": None, "priv": None, "engine_id": "80001f8880a1b2c3d4", "agent_engine_id": "80001f8880a1b2c3d4", "boots": 1, "time": 1}})
    res3, log3 = vf.run_api_worker("C04", {"scenarios": [dict(sc, steps=[{kk: vv for kk, vv in st.items() if not kk.startswith("_")} for st in sc["steps"]]) for sc in v3scs]})
    if res3 is None:
        c.errors.append("API worker failed: " + log3[-1500:])
    else:
        for sc, rec in zip(v3scs, res3["records"]):
            if "driver_error" in rec:
                c.errors.append("API driver error: " + rec["driver_error"])
                continue
            for k, (st, out) in enumerate(zip(sc["steps"], rec["steps"])):
                c.count(("v3", sc["mode"], st["_name"]), True)
                got = ("RET " + out["value"]) if out["kind"] == "RET" else out["exc"]
                want = "TimeoutError" if st["_name"].endswith("(alone)") else "RET int:%d" % (1000 + k // 2)
                if got != want:
                    c.violation("v3/%s: a reply with a wrong %s %s; the call gave %s, expected %s"
                                % (sc["mode"], st["_name"].replace(" (alone)", ""), "was delivered" if got.startswith("RET int:15") else "disturbed the wait", got, want),
                                {"scenario": dict(sc, steps=[{kk: vv for kk, vv in st.items() if not kk.startswith("_")}]), "observed": got, "expected": want},
                                key="v3-mismatch-delivered:" + st["_name"].split(" ")[0] if got.startswith("RET") else "v3-outcome:" + got)

    # ---- a session that discovers its engine id, whose first discovery probe is lost and whose entry is then retried: afterwards
    # it is the CONFIGURED user's session - a reply naming the placeholder user "" (right ids) is skipped, the real one delivered
    report = {"pdu_tag": 0xA8, "mac": "absent", "encrypt": "no", "flags": 0}
    dsc = []
    for mode in ("sync", "async"):
        for auth in (None, ["md5", 0, b"authpass77".hex()]):
            steps = [{"op": "enter", "replies": [[]]}, {"op": "enter", "replies": [[report]], "default_reply": report}]
            for k in range(3):
                steps.append({"op": "get", "args": ["1.3.6.1.9.%d" % k],
                              "replies": [[{"vbs": value_vb(700 + k).hex(), "user": "", "mac": "absent", "flags": 0}, {"vbs": value_vb(k).hex()}]]})
            dsc.append({"version": "v3", "mode": mode, "timeout": 0.25, "steps": steps,
                        "v3": {"user": "monitor", "auth": auth, "priv": None, "engine_id": None, "agent_engine_id": "80001f8880a1b2c3d4", "boots": 1, "time": 1}})
    resd, logd = vf.run_api_worker("C04", {"scenarios": dsc})
    if resd is None:
        c.errors.append("API worker failed: " + logd[-1500:])
    else:
        for sc, rec in zip(dsc, resd["records"]):
            if "driver_error" in rec:
                c.errors.append("API driver error: " + rec["driver_error"])
                continue
            for k, out in enumerate(rec["steps"][2:]):
                c.count(("v3-discovered-lost-probe", sc["mode"], bool(sc["v3"]["auth"]), k), True)
                got = ("RET " + out["value"]) if out["kind"] == "RET" else out["exc"]
                if got != "RET int:%d" % (1000 + k):
                    c.violation("v3/%s session of user 'monitor' (engine id discovered, first probe lost, entry retried): a reply naming user '' %s; the call gave %s, expected RET int:%d"
                                % (sc["mode"], "was delivered" if got == "RET int:%d" % (1700 + k) else "disturbed the wait", got, 1000 + k),
                                {"scenario": sc, "call": k, "observed": got}, key="v3-placeholder-user-delivered" if got.startswith("RET int:17") else "v3-outcome:" + got)
                    break

    # ---- model correspondence on synthetic arrival lists (the receive loop itself), through the codec harness decoders
    lines, meta = [], []
    for _ in range(20000 if thorough else 4000):
        rid = rng.randrange(2 ** 31)
        ds = []
        for _j in range(rng.randint(0, 4)):
            t = rng.randint(0, 6)
            r2 = rid if t in (0, 5, 6) else rng.choice([rid + 1, 0, rng.randrange(2 ** 31)])
            comm = b"public" if t != 2 else b"private"
            p = ber.pdu(0xA2 if t != 6 else 0xA8, r2, 0, 0, [value_vb(rng.randrange(5))])
            d = ber.msg_community(1 if t != 3 else rng.choice([0, 3]), comm, p)
            if t == 4:
                d = gen.mutate(rng, d)
            ds.append(d)
        lines.append("recvloop 2 %s %d %s" % (b"public".hex(), rid, " ".join(gen.hx(x) for x in ds)))
        meta.append((rid, ds))
    mo = vf.run_lines(cd.model, lines)
    # implementation side of the same question: decode each datagram with the real decoder and apply the property's acceptance test
    flat = ["msg2 " + gen.hx(d) for _, ds in meta for d in ds]
    ro = vf.run_lines(cd.rel, flat)
    it = iter(ro)
    for (rid, ds), ml in zip(meta, mo):
        c.count(("loop", rid, len(ds)), len(ds) >= 2)
        exp = "TIMEOUT"
        left = len(ds)
        for d in ds:
            o = next(it)
            left -= 1
            if not o.startswith("OK "):
                exp = "FAIL SnmpDecodeError left=%d" % left
                break
            comm_ok = o.startswith("OK c(%s)" % b"public".hex())
            body = o[o.index(")") + 1:]
            is_report = body.startswith("report(")
            idm = body.split("(")[1].split(",")[0].split(";")[0]
            if comm_ok and (is_report or idm == str(rid)):
                exp = "DELIVER " + body + " left=%d" % left
                break
        for _x in range(left):
            next(it)
        if ml != exp:
            dis += 1
            if dis <= 3:
                c.log("receive loop model differs from the decode+acceptance test on rid=%d: model `%s` expected `%s`" % (rid, ml[:100], exp[:100]))
            if not any(b.startswith("correspondence") for b in c.broken):
                c.broken = list(c.broken) + ["correspondence recvloop rid=%d datagrams=%s: model `%s` impl-derived `%s`"
                                             % (rid, [x.hex()[:60] for x in ds], ml[:100], exp[:100])]
    return c.finish(
        rule="fault scripts: all words of length <= 2 over %d per-reply faults (deliver, drop, duplicate, delay past the next request, "
             "wrong request-id (random, +1, -2^31, +2^32), wrong community, wrong version, truncate, garbage then reply, skippable then reply, report) plus random "
             "words of length 3..4, on v1/v2c sync/async sessions: %d scripts; expected outcome from the ids seen on the wire; "
             "plus %d synthetic arrival lists through the receive-loop model; non-trivial = at least two requests / datagrams"
             % (len(FAULTS), n, len(lines)),
        extra={"disagreements": dis, "scripts": n, "traces_validated_against_impl": n})


def api_main(g, job):
    import scen
    return scen.api_main_generic(g, job)

"""C15 - everything the library encodes, it decodes back unchanged and minimally.

Proof: Properties/C15.v (push_int/push_oid/push_pdu/push_cmsg/push_v3 emit exactly the reference X.690 encodings of
Spec/X690.v; the library's decoders map those encodings back to the value with nothing left).
Correspondence: extracted encoders/decoders against the real push_ber / from_ber (debug and release).
Oracle (independent of the model): the implementation's own output re-decoded by the implementation, and the
independent minimal encoder / strict decoder of harness/py/ber.py."""
from lib import codec, gen, vf
import ber


def main(argv):
    c = vf.Check("C15", argv)
    thorough = c.tier == "thorough"
    c.prove()
    cd = codec.Codec(c)
    if not cd.ok:
        return c.finish("n/a")
    rng = c.rng
    # ---- integers: exhaustive for 1..2 (quick) / 1..3 (thorough) content octets, neighbourhoods of every boundary, random
    ints = set(range(-32768, 32768))
    w = 2 ** 16 if thorough else 2 ** 10
    for k in (7, 8, 15, 16, 23, 24, 31, 32, 39, 40, 47, 48, 55, 56, 63):
        for s in (1, -1):
            base = s * 2 ** k
            for d in range(-w, w + 1, 1 if not thorough else 7):
                v = base + d
                if -2 ** 63 <= v < 2 ** 63:
                    ints.add(v)
    for _ in range(200000 if thorough else 20000):
        ints.add(rng.randrange(-2 ** 63, 2 ** 63))
        ints.add(rng.randrange(-2 ** rng.randint(1, 63), 2 ** rng.randint(1, 63)))
    ints = sorted(ints)
    lines = ["enc_int %d" % v for v in ints]
    m, r, d = cd.run(lines)
    dis = 0
    redecode = []
    for v, ml, rl, dl in zip(ints, m, r, d):
        c.count(("int", v), nontrivial=(v < -128 or v > 127))
        for prof, o in (("release", rl), ("debug", dl)):
            if o != ml:
                dis += 1
                if dis <= 3:
                    c.log("model/impl(%s) disagree on enc_int %d: model %s impl %s" % (prof, v, ml, o))
                if not any(b.startswith("correspondence") for b in c.broken):
                    c.broken = list(c.broken) + ["correspondence enc_int %d: model `%s` impl(%s) `%s`" % (v, ml, prof, o)]
            want = "OK " + ber.enc_int(v).hex()
            if o != want:
                c.violation("INTEGER %d is encoded as %s, minimal X.690 encoding is %s (%s build)" % (v, o, want[3:], prof),
                            {"cmd": "enc_int %d" % v, "profile": prof, "expected": want, "observed": o}, key="int-encode-not-minimal")
        if rl.startswith("OK "):
            redecode.append((v, "dec_int " + rl[3:]))
    m2, r2, d2 = cd.run([x[1] for x in redecode])
    for (v, ln), ml, rl, dl in zip(redecode, m2, r2, d2):
        for prof, o in (("release", rl), ("debug", dl)):
            if o != "OK int:%d rest=-" % v:
                c.violation("INTEGER %d encodes then decodes to `%s` (%s build)" % (v, o, prof),
                            {"cmd": ln, "profile": prof, "expected": "OK int:%d rest=-" % v, "observed": o}, key="int-roundtrip")
        if ml != rl:
            dis += 1
    c.sample({"enc_int": [[v, x] for v, x in zip(ints[:3] + ints[-2:], r[:3] + r[-2:])]})
    # extraction + OCaml driver cross-checked against the kernel's VM on a sample of the same cases
    idx = rng.sample(range(len(lines)), 200)
    codec.crosscheck_extraction(c, cd, [lines[i] for i in idx] + [redecode[i][1] for i in idx[:100] if i < len(redecode)],
                                [m[i] for i in idx] + [m2[i] for i in idx[:100] if i < len(redecode)])

    if thorough:
        # every INTEGER of three content octets, in slices (memory stays flat); same comparisons as above
        step = 2 ** 20
        for lo in range(-2 ** 23, 2 ** 23, step):
            vs = [v for v in range(lo, lo + step) if not -32768 <= v < 32768]
            ls = ["enc_int %d" % v for v in vs]
            mm, rr, dd = cd.run(ls)
            back = []
            for v, ml, rl, dl in zip(vs, mm, rr, dd):
                want = "OK " + ber.enc_int(v).hex()
                if not (ml == rl == dl == want):
                    for prof, o in (("release", rl), ("debug", dl)):
                        if o != ml:
                            dis += 1
                            if not any(b.startswith("correspondence") for b in c.broken):
                                c.broken = list(c.broken) + ["correspondence enc_int %d: model `%s` impl(%s) `%s`" % (v, ml, prof, o)]
                        if o != want:
                            c.violation("INTEGER %d is encoded as %s, minimal X.690 encoding is %s (%s build)" % (v, o, want[3:], prof),
                                        {"cmd": "enc_int %d" % v, "profile": prof, "expected": want, "observed": o}, key="int-encode-not-minimal")
                if rl.startswith("OK "):
                    back.append((v, "dec_int " + rl[3:]))
            m3, r3, d3 = cd.run([x[1] for x in back])
            for (v, ln), ml, rl, dl in zip(back, m3, r3, d3):
                w3 = "OK int:%d rest=-" % v
                if not (ml == rl == dl == w3):
                    for prof, o in (("release", rl), ("debug", dl)):
                        if o != w3:
                            c.violation("INTEGER %d encodes then decodes to `%s` (%s build)" % (v, o, prof),
                                        {"cmd": ln, "profile": prof, "expected": w3, "observed": o}, key="int-roundtrip")
                    if ml != rl:
                        dis += 1
            c.count_bulk(len(vs), len(vs))
            del vs, ls, mm, rr, dd, back, m3, r3, d3

    # ---- OBJECT IDENTIFIER: the library's OID encoder is TryFrom<&str>; boundary sub-identifiers must come out minimal and read back
    oid_texts = []
    edges = sorted(set(x for k in (7, 14, 21, 28, 32) for d in (-2, -1, 0, 1) for x in [2 ** k + d] if 0 <= x < 2 ** 32))
    for a in edges:
        for pos in (2, 5):
            arcs = [1, 3] + [6] * (pos - 2) + [a] + [1]
            oid_texts.append(arcs)
    for _ in range(4000 if thorough else 800):
        oid_texts.append(gen.rarcs(rng, 10))
    olines = ["oid_parse " + gen.hx(ber.oid_text(a).encode()) for a in oid_texts]
    mo, ro, do = cd.run(olines)
    back = []
    for arcs, ln, ml, rl, dl in zip(oid_texts, olines, mo, ro, do):
        c.count(ln, nontrivial=max(arcs) > 127)
        want = "OK " + ber.oid_content(arcs).hex()
        for prof, o in (("release", rl), ("debug", dl)):
            if o != ml:
                dis += 1
                if not any(b.startswith("correspondence") for b in c.broken):
                    c.broken = list(c.broken) + ["correspondence `%s`: model `%s` impl(%s) `%s`" % (ln[:160], ml[:80], prof, o[:80])]
            if o != want:
                c.violation("OID %s is encoded as %s, the minimal X.690 encoding is %s (%s build)" % (ber.oid_text(arcs)[:60], o[3:60], want[3:60], prof),
                            {"cmd": ln, "oid": ber.oid_text(arcs), "expected": want, "observed": o, "profile": prof}, key="oid-encode-not-minimal")
        if rl.startswith("OK "):
            back.append((arcs, "oid_print " + rl[3:]))
    mo, ro, do = cd.run([b for _, b in back])
    for (arcs, bl), ml, rl, dl in zip(back, mo, ro, do):
        want = "OK " + gen.hx(ber.oid_text(arcs).encode())
        for prof, o in (("release", rl), ("debug", dl)):
            if o != want:
                c.violation("OID %s encodes and then decodes to %s (%s build)" % (ber.oid_text(arcs)[:60], o[:60], prof),
                            {"cmd": bl, "expected": want, "observed": o, "profile": prof}, key="oid-roundtrip")

    # ---- OIDs and request messages
    lines, expect = [], []
    nmsg = 6000 if thorough else 1500
    for _ in range(nmsg):
        oids = [ber.oid_content(gen.rarcs(rng, rng.choice([0, 3, 8, 40]))) for _ in range(rng.choice([0, 1, 1, 2, 5, 30, 120]))]
        rid = rng.choice([0, 1, 127, 128, 255, 256, 2 ** 31 - 1, rng.randrange(2 ** 31)])
        kind = rng.choice(["get", "getnext", "bulk"])
        comm = gen.rbytes(rng, rng.choice([0, 6, 127, 128, 255, 256, 1000]), biased=False)
        oh = ",".join(o.hex() for o in oids) or "-"
        if kind == "bulk":
            nr, mr = rng.choice([0, 1]), rng.choice([0, 1, 20, 127, 128, 2 ** 31 - 1])
            spec = "bulk:%d:%d:%d:%s" % (rid, nr, mr, oh)
            tag, f1, f2 = 0xA5, nr, mr
        else:
            spec = "%s:%d:%s" % (kind, rid, oh)
            tag, f1, f2 = (0xA0 if kind == "get" else 0xA1), 0, 0
        ver = rng.choice([1, 2])
        lines.append("emit%d %s %s" % (ver, gen.hx(comm), spec))
        vbs = [ber.varbind(ber.tlv(6, o), b"\x05\x00") for o in oids]
        expect.append(ber.msg_community(ver - 1, comm, ber.pdu(tag, rid, f1, f2, vbs)))
    for o in [ber.oid_content(gen.rarcs(rng, 10)) for _ in range(500)]:
        lines.append("enc_oid " + gen.hx(o))
        expect.append(ber.tlv(6, o))
    # v3 plain / encrypted payloads
    for _ in range(nmsg // 2):
        oids = [ber.oid_content(gen.rarcs(rng, 6)) for _ in range(rng.choice([0, 1, 2, 20]))]
        oh = ",".join(o.hex() for o in oids) or "-"
        rid = rng.randrange(2 ** 31)
        eid = gen.rbytes(rng, rng.choice([0, 5, 17, 32]), biased=False)
        user = gen.rbytes(rng, rng.choice([0, 4, 32, 130]), biased=False)
        authp = bytes(12) if rng.random() < 0.6 else b""
        pp = gen.rbytes(rng, 8, False) if rng.random() < 0.5 else b""
        boots, tm = rng.choice([0, 1, 2 ** 31 - 1]), rng.choice([0, 127, 128, 2 ** 31 - 1])
        f = [rng.random() < 0.5 for _ in range(3)]
        msgid = rng.randrange(2 ** 31)
        vbs = [ber.varbind(ber.tlv(6, o), b"\x05\x00") for o in oids]
        if rng.random() < 0.7:
            ctx = gen.rbytes(rng, rng.choice([0, 5, 17]), False)
            data_spec = "plain:%s:get:%d:%s" % (gen.hx(ctx), rid, oh)
            data = ber.scoped_pdu(ctx, b"", ber.pdu(0xA0, rid, 0, 0, vbs))
        else:
            ct = gen.rbytes(rng, rng.choice([8, 16, 128, 256, 1000]), False)
            data_spec = "enc:" + gen.hx(ct)
            data = ber.tlv(4, ct)
        lines.append("emit3 %d %s %s %d %d %s %s %s %s" % (msgid, "".join("1" if x else "0" for x in f), gen.hx(eid), boots, tm,
                                                         gen.hx(user), gen.hx(authp), gen.hx(pp), data_spec))
        flags = (1 if f[0] else 0) | (2 if f[1] else 0) | (4 if f[2] else 0)
        expect.append(ber.msg_v3(msgid, flags, ber.usm_params(eid, boots, tm, user, authp, pp), data, max_size=vf.constant("V3_MAX_SIZE", 2048)))
    m, r, d = cd.run(lines)
    back = []
    for ln, want, ml, rl, dl in zip(lines, expect, m, r, d):
        too_big = len(want) > vf.constant("BUF_MAX_SIZE", 4080)
        c.count(ln[:200], nontrivial=len(want) > 140)
        for prof, o in (("release", rl), ("debug", dl)):
            if not codec.same(ml, o, cd.emap):
                dis += 1
                if dis <= 5:
                    c.log("model/impl(%s) disagree on `%s`: model %s impl %s" % (prof, ln[:120], ml[:80], o[:80]))
                if not any(b.startswith("correspondence") for b in c.broken):
                    c.broken = list(c.broken) + ["correspondence `%s`: model `%s` impl(%s) `%s`" % (ln[:200], ml[:100], prof, o[:100])]
            got = o.split(" ")[1] if o.startswith("OK ") else None
            if too_big:
                continue
            if got != want.hex():
                c.violation("request is not the minimal definite-length encoding of what was asked (%s build): `%s`" % (prof, ln[:100]),
                            {"cmd": ln, "profile": prof, "expected": want.hex(), "observed": o}, key="message-encode")
        if rl.startswith("OK ") and not too_big:
            cmd = {"emit1": "msg1", "emit2": "msg2", "emit3": "msg3", "enc_oid": "dec_oid"}[ln.split(" ")[0]]
            back.append((ln, cmd + " " + rl.split(" ")[1]))
    m2, r2, d2 = cd.run([x[1] for x in back])
    for (ln, bl), ml, rl, dl in zip(back, m2, r2, d2):
        for prof, o in (("release", rl), ("debug", dl)):
            if not o.startswith("OK "):
                c.violation("the library cannot decode its own encoding of `%s`: %s (%s build)" % (ln[:100], o, prof),
                            {"cmd": bl, "profile": prof, "observed": o, "source": ln}, key="self-decode")
            elif not codec.same(ml, o, cd.emap):
                dis += 1
        # decoded content equals what was asked: compare with the request line
        if rl.startswith("OK ") and not roundtrip_matches(ln, rl):
            c.violation("decoding the library's own message gives back something else: `%s` -> `%s`" % (ln[:100], rl[:160]),
                        {"cmd": bl, "source": ln, "observed": rl}, key="message-roundtrip")
    c.sample({"emit": lines[0][:200], "datagram": r[0][:200]})
    c.assumptions += ["debug and release builds of the harness include /repo/src by #[path]"]
    # ---- the same on the wire of real sessions, across the failure of an earlier request in the process (message buffers are
    # pooled): an oversized request is refused, then another session's ordinary request must be the minimal encoding, octet for octet
    big = [["1.3.6.1.4.1.%d.%d" % (i, i) for i in range(max(700, vf.constant("BUF_MAX_SIZE", 4080) // 6))]]
    one = "1.3.6.1.2.1.1.1.0"
    ascs = []
    huge = [["1.3." + ".".join("4294967295" for _ in range(max(1000, vf.constant("BUF_MAX_SIZE", 4080) // 4)))]]
    for ver_a, ver_b in (("v2c", "v2c"), ("v3", "v1"), ("v1", "v3"), ("v2c", "v3"), ("v2c", "v1"), ("v3", "v3")):
        for sv in (ver_a, ver_b):
            sc = {"version": sv, "mode": "sync", "timeout": 0.05, "community": "public",
                  "steps": [{"op": "get", "args": [one], "replies": [[{"vbs": ""}]]}] if sv is ver_b and ascs and ascs[-1].get("_first") else None}
            if sc["steps"] is None:
                sc["steps"] = [{"op": "get_many", "args": big if len(ascs) % 4 == 0 else huge, "replies": [[]]}]
                sc["_first"] = True
            if sv == "v3":
                sc["v3"] = {"user": "u0", "auth": None, "priv": None, "engine_id": "80001f8880a1b2c3d4", "agent_engine_id": "80001f8880a1b2c3d4", "boots": 0, "time": 0}
            ascs.append(sc)
    resa, loga = vf.run_api_worker("C15", {"scenarios": [{k: v for k, v in sc.items() if not k.startswith("_")} for sc in ascs]})
    if resa is None:
        c.errors.append("API worker failed: " + loga[-1500:])
    else:
        for sc, rec in zip(ascs, resa["records"]):
            if "driver_error" in rec:
                c.errors.append("API driver error: " + rec["driver_error"])
                continue
            out = rec["steps"][0]
            if sc.get("_first"):
                c.count(("api-oversize", sc["version"]), True)
                if out.get("exc") != "SnmpEncodeError" or out["emitted"]:
                    c.violation("a request far beyond the message buffer was not refused cleanly (%s, %d datagrams sent)" % (out.get("exc"), len(out["emitted"])),
                                {"version": sc["version"], "outcome": out.get("exc")}, key="api-oversize")
                continue
            c.count(("api-after-failure", sc["version"]), True)
            if len(out["emitted"]) != 1:
                c.violation("after another session's refused request, an ordinary %s get() sent %d datagrams (%s)" % (sc["version"], len(out["emitted"]), out.get("exc")),
                            {"version": sc["version"], "outcome": out.get("exc")}, key="api-after-failure-not-sent")
            for raw_hex, q in zip(out["emitted"], out["requests"]):
                raw = bytes.fromhex(raw_hex)
                if "error" in q or not q.get("pdu"):
                    c.violation("after another session's refused request, a %s get() goes out malformed: %s" % (sc["version"], q.get("error")),
                                {"datagram": raw_hex}, key="api-after-failure-malformed")
                    continue
                rid = q["pdu"]["request_id"]
                p = ber.pdu(0xA0, rid, 0, 0, [ber.varbind(ber.enc_oid([1, 3, 6, 1, 2, 1, 1, 1, 0]), b"\x05\x00")])
                if sc["version"] == "v3":
                    want = ber.msg_v3(q["msg_id"], 0, ber.usm_params(bytes.fromhex("80001f8880a1b2c3d4"), 0, 0, b"u0", b"", b""),
                                      ber.scoped_pdu(bytes.fromhex("80001f8880a1b2c3d4"), b"", p), max_size=vf.constant("V3_MAX_SIZE", 2048))
                else:
                    want = ber.msg_community({"v1": 0, "v2c": 1}[sc["version"]], b"public", p)
                if raw != want:
                    c.violation("after another session's refused request, a %s get() is not the minimal encoding of what was asked: %d octets, expected %d"
                                % (sc["version"], len(raw), len(want)), {"datagram": raw_hex, "expected": want.hex()}, key="api-after-failure-encoding")
    # ---- every 64-bit INTEGER also where the caller supplies it: getbulk(oid, max_repetitions=N) and the session default, for N
    # on every power-of-two boundary of i64; the datagram is the minimal encoding of a GetBulk with exactly that N, or the
    # call is refused and nothing is sent
    ns = sorted({sgn * (2 ** k + d) for k in (0, 6, 7, 8, 14, 15, 16, 22, 23, 24, 30, 31, 32, 33, 39, 40, 47, 48, 55, 56, 62) for d in (-1, 0, 1) for sgn in (1, -1)}
                | {2 ** 63 - 1, -2 ** 63, 2 ** 32 + 20, 10, 1})
    ns = [n for n in ns if -2 ** 63 <= n < 2 ** 63]
    bscs = []
    for ver, mode in (("v2c", "sync"), ("v2c", "async"), ("v3", "sync")):
        sc = {"version": ver, "mode": mode, "timeout": 0.03, "community": "public", "consume": ["for"], "steps": []}
        if ver == "v3":
            sc["v3"] = {"user": "u0", "auth": None, "priv": None, "engine_id": "80001f8880a1b2c3d4", "agent_engine_id": "80001f8880a1b2c3d4", "boots": 0, "time": 0}
        for n in (ns if thorough or mode == "sync" else rng.sample(ns, 30)):
            sc["steps"].append({"op": "getbulk", "args": ["1.3.6.1.2.1.2", n], "replies": [[{"vbs": ""}]], "cap": 2})
        bscs.append(sc)
    resb, logb = vf.run_api_worker("C15", {"scenarios": bscs})
    if resb is None:
        c.errors.append("API worker failed: " + logb[-1500:])
    else:
        for sc, rec in zip(bscs, resb["records"]):
            if "driver_error" in rec:
                c.errors.append("API driver error: " + rec["driver_error"])
                continue
            for st, out in zip(sc["steps"], rec["steps"]):
                n = st["args"][1]
                c.count(("api-getbulk-maxrep", sc["version"], sc["mode"], n), True)
                if not out["emitted"]:
                    if out.get("ending") in (None, "STOP", "CAP") and out["kind"] != "EXC":
                        c.violation("getbulk(max_repetitions=%d) sent nothing and raised nothing" % n, {"scenario": dict(sc, steps=[st])}, key="api-maxrep-silent")
                    continue
                q, raw = out["requests"][0], bytes.fromhex(out["emitted"][0])
                if "error" in q or not q.get("pdu"):
                    c.violation("getbulk(max_repetitions=%d) goes out malformed: %s" % (n, q.get("error")), {"datagram": out["emitted"][0]}, key="api-maxrep-malformed")
                    continue
                # `max_repetitions or the session's default` (Model.Walk.effective_max_rep): 0 asks for the default
                n_eff = n if n else vf.default_max_repetitions(sc["mode"])
                p = ber.pdu(0xA5, q["pdu"]["request_id"], 0, n_eff, [ber.varbind(ber.enc_oid([1, 3, 6, 1, 2, 1, 2]), b"\x05\x00")])
                if sc["version"] == "v3":
                    want = ber.msg_v3(q["msg_id"], 0, ber.usm_params(bytes.fromhex("80001f8880a1b2c3d4"), 0, 0, b"u0", b"", b""),
                                      ber.scoped_pdu(bytes.fromhex("80001f8880a1b2c3d4"), b"", p), max_size=vf.constant("V3_MAX_SIZE", 2048))
                else:
                    want = ber.msg_community(1, b"public", p)
                if raw != want:
                    c.violation("getbulk(max_repetitions=%d) on %s/%s is not the minimal encoding of what was asked: max-repetitions on the wire %s"
                                % (n, sc["version"], sc["mode"], q["pdu"].get("f2")), {"datagram": out["emitted"][0], "expected": want.hex()}, key="api-maxrep-encoding")
    return c.finish(
        rule="OBJECT IDENTIFIER text encoder on every sub-identifier 2^(7k)-2..2^(7k)+1 and random OIDs; INTEGER: every value of 1..%d content octets, +-%d around every +-2^(8k-1), +-2^(8k), %d random; non-trivial = needs more than "
             "one content octet. OIDs and v1/v2c/v3 Get/GetNext/GetBulk messages with 0..120 OIDs, community/user/engine id lengths across "
             "127/128/255/256; non-trivial = datagram longer than 140 octets; distinct by input"
             % (3 if thorough else 2, w, 400000 if thorough else 40000),
        extra={"disagreements": dis, "integers": len(ints), "messages": len(lines)},
        trusted=["harness/py/ber.py (independent minimal encoder) as oracle"])


def roundtrip_matches(req_line, out):
    """The decoded rendering must mention exactly the request id and the OIDs of the request, in order."""
    p = req_line.split(" ")
    cmd = p[0]
    if cmd == "enc_oid":
        return out == "OK oid:%s rest=-" % p[1]
    if cmd in ("emit1", "emit2"):
        comm, spec = p[1], p[2]
        f = spec.split(":")
        oids = "" if f[-1] == "-" else f[-1]
        if f[0] == "bulk":
            want = "OK c(%s)bulk(%s,%s,%s;%s)" % (comm, f[1], f[2], f[3], oids)
        else:
            want = "OK c(%s)%s(%s;%s)" % (comm, f[0], f[1], oids)
        return out == want
    if cmd == "emit3":
        msgid, fl, eid, boots, tm, user, authp, pp, data = p[1:10]
        head = "OK v3(%s,%s,%s,%s;%s,%s,%s,%s,%s,%s;" % (msgid, fl[0], fl[1], fl[2], eid, boots, tm, user, authp, pp)
        if data.startswith("plain:"):
            _, ctx, kind, rid, oids = data.split(":")
            oids = "" if oids == "-" else oids
            return out == head + "plain(%s,%s(%s;%s)))" % (ctx, kind, rid, oids)
        return out == head + "enc(%s))" % data.split(":")[1]
    return True


def api_main(g, job):
    import sys
    import os
    sys.path.insert(0, os.path.join(vf.VERIF, "harness", "py"))
    import scen
    return scen.api_main_generic(g, job)

"""C14 - privacy salts never repeat and nothing confidential goes in clear.

Proof: Properties/C14.v (the i-th message of a key installation carries salt = boots || (s0+i mod 2^32) for DES,
(s0+i mod 2^64) for AES - pairwise distinct for fewer than 2^32 / 2^64 messages, 8 octets, priv flag set).
Correspondence / oracle: real sessions sending 10^3 (quick) / 10^5 (thorough) mixed requests interleaved with
receives and timeouts: salts read from the wire must be the counter sequence from the first one and pairwise
distinct, flags must carry priv, and no encoded OID of the scoped PDU may appear outside the ciphertext."""
import os
import sys

from lib import codec, gen, vf

sys.path.insert(0, os.path.join(vf.VERIF, "harness", "py"))
import ber  # noqa: E402


def main(argv):
    c = vf.Check("C14", argv)
    thorough = c.tier == "thorough"
    c.prove()
    ok3, log3, v3exe = vf.ocaml_build("v3", "v3_model", "v3_driver")
    if not ok3:
        c.errors.append("model build failed " + log3[-800:])
        return c.finish("n/a")
    # ---- every carry boundary of the salt counters, reached through the guarded hook PrivKey::verif_set_salt of /repo
    # (MANIFEST.hooks): the counter is placed two below 2^k and four messages are encrypted
    cd = codec.Codec(c)
    n_carry = 0
    if cd.ok:
        lines, meta = [], []
        for alg, bits in ((1, 32), (2, 64)):
            mod = 2 ** bits
            for k in list(range(1, bits + 1)):
                for start in sorted(set([(2 ** k - 2) % mod, (2 ** k - 3) % mod] + ([c.rng.randrange(mod)] if k % 8 == 0 else []))):
                    key = gen.rbytes(c.rng, 16, False)
                    boots, tm = c.rng.randrange(2 ** 31), c.rng.randrange(2 ** 31)
                    ops = ["s,%d" % start] + ["e,800001,get:%d:2b060102,%d,%d" % (5 + i, boots, tm) for i in range(4)]
                    lines.append("priv %d %s %s" % (alg, key.hex(), "|".join(ops)))
                    meta.append((alg, mod, start, boots))
        ro = vf.run_lines(cd.rel, lines)
        do = vf.run_lines(cd.dbg, lines)
        mo = vf.run_lines(v3exe, [" ".join(ln.split(" ")[:3] + ["0"] + ln.split(" ")[3:]) for ln in lines], shards=8)
        if any("NOHOOK" in o for o in ro[:1]):
            c.assumptions.append("the tree carries no verif_set_salt hook: carry boundaries of the salt counters were not reached on this run")
        else:
            for ln, (alg, mod, start, boots), ml, rl, dl in zip(lines, meta, mo, ro, do):
                n_carry += 1
                c.count(("carry", alg, start), True)
                for prof, o in (("release", rl), ("debug", dl)):
                    if o != ml and not any(b.startswith("correspondence") for b in c.broken):
                        c.broken = list(c.broken) + ["correspondence `%s`: model `%s` impl(%s) `%s`" % (ln[:120], ml[:160], prof, o[:160])]
                    pps = [x.split(" ")[2] for x in o[3:].split(" | ") if x.startswith("E ")] if o.startswith("OK ") else []
                    salts = [int(pp[8:], 16) if alg == 1 else int(pp, 16) for pp in pps if len(pp) == 16]
                    want = [(start + i) % mod for i in range(4)]
                    if salts != want:
                        c.violation("%s: with the salt counter at %d the next four messages carry salts %s, expected %s (%s build)"
                                    % ("des" if alg == 1 else "aes", start, salts, want, prof), {"cmd": ln, "profile": prof, "observed": o},
                                    key="salt-carry:" + ("repeat" if len(set(salts)) != len(salts) else "sequence"))
                    elif alg == 1 and any(pp[:8] != "%08x" % (boots % 2 ** 32) for pp in pps):
                        c.violation("des: salt prefix is not engine boots (%s build)" % prof, {"cmd": ln, "observed": o}, key="des-salt-boots")
    c.coverage["salt_carry_histories"] = n_carry
    n_req = 20000 if thorough else 1000
    job = {"n": n_req, "model_exe": v3exe, "seed": c.seed,
           "configs": [{"user": "ud", "auth": ["md5", 2, "22" * 16], "priv": ["des", 2, "33" * 16]},
                       {"user": "ue", "auth": ["sha1", 0, b"authpass12".hex()], "priv": ["aes", 0, b"privpass12".hex()]},
                       {"user": "uf", "auth": ["sha1", 2, "66" * 20], "priv": ["des", 1, "77" * 20]},
                       # engine id discovered; in the second the first discovery probe is lost and the entry is retried
                       {"user": "ug", "auth": ["md5", 1, "88" * 16], "priv": ["aes", 0, b"privpass34".hex()], "discover": "ok", "n": 60},
                       {"user": "uh", "auth": ["sha1", 0, b"authpass56".hex()], "priv": ["des", 2, "99" * 20], "discover": "lost", "n": 60},
                       {"user": "ui", "auth": ["md5", 2, "aa" * 16], "priv": ["aes", 1, "bb" * 16], "discover": "lost", "n": 60}]}
    res, log = vf.run_api_worker("C14", job, timeout=3000)
    if res is None:
        c.errors.append("API worker failed: " + log[-2000:])
        return c.finish("n/a")
    total = 0
    for rec in res["sessions"]:
        cfg = rec["config"]
        alg = cfg["priv"][0]
        salts = [bytes.fromhex(x) for x in rec["salts"]]
        total += len(salts)
        for i, s in enumerate(salts):
            c.count((alg, rec["salts"][i]), True)
        c.sample({"cipher": alg, "messages": len(salts), "first_salts": rec["salts"][:3], "timeouts_interleaved": rec["timeouts"]})
        if any(len(s) != 8 for s in salts):
            c.violation("%s: msgPrivacyParameters not 8 octets" % alg, {"config": cfg, "salts": rec["salts"][:20]}, key="salt-length")
            continue
        if len(set(salts)) != len(salts):
            seen, dup = {}, None
            for i, s in enumerate(salts):
                if s in seen:
                    dup = (seen[s], i, s.hex())
                    break
                seen[s] = i
            c.violation("%s: messages %d and %d of one key installation carry the same salt %s" % (alg, dup[0], dup[1], dup[2]),
                        {"config": cfg, "history": rec["ops"][:dup[1] + 2], "salts": rec["salts"][:dup[1] + 2]}, key="salt-repeats")
        # the counter sequence
        if alg == "des":
            ctr = [int.from_bytes(s[4:], "big") for s in salts]
            mod = 2 ** 32
            for i, s in enumerate(salts):
                if s[:4] != (rec["boots"][i] % 2 ** 32).to_bytes(4, "big"):
                    c.violation("des: salt %d does not start with engine boots %d: %s" % (i, rec["boots"][i], s.hex()), {"config": cfg}, key="des-salt-boots")
                    break
        else:
            ctr = [int.from_bytes(s, "big") for s in salts]
            mod = 2 ** 64
        skips = rec.get("skips") or [0] * len(ctr)
        for i in range(1, len(ctr)):
            # the counter advances by one per MESSAGE; a request refused in between (too large) may have spent one more - it does
            # when its payload had been encrypted before the message turned out not to fit - or none: both keep salts unique
            step = (ctr[i] - ctr[i - 1]) % mod
            refused = skips[i] - skips[i - 1]
            if not 1 <= step <= 1 + refused:
                c.violation("%s: salt counter of message %d is %d, that of message %d was %d: advance %d with %d refused request(s) in between (expected 1..%d)"
                            % (alg, i, ctr[i], i - 1, ctr[i - 1], step, refused, 1 + refused),
                            {"config": cfg, "history": rec["ops"][max(0, i - 6):i + 2], "salts": rec["salts"][max(0, i - 3):i + 2]}, key="salt-sequence")
                break
        for bad in rec["problems"]:
            c.violation("%s: %s" % (alg, bad["what"]), {"config": cfg, "detail": bad}, key=bad["key"])
    # ---- sessions that learn their engine id (None / b"", first probe lost and retried): nothing of a session with a privacy key
    # goes out in clear, salts are 8 octets and never repeat
    from lib import v3sessions
    v3sessions.run(c, v3exe, "C14", {"priv-flag", "clear", "salt"}, n_gets=5)
    return c.finish(
        rule="%d encrypted requests of mixed types (refresh probes incl. those of session entry, get, get_many, getnext, getbulk) over %d sessions (DES x2, AES), interleaved with receives, "
             "timeouts and a refresh, one key installation each: salts pairwise distinct and equal to first+i, priv flag set, 8 octets, DES salt "
             "prefix = engine boots, and no encoded request OID outside the ciphertext; distinct = distinct salts" % (total, len(res["sessions"])),
        extra={"messages": total, "traces_validated_against_impl": total})


def api_main(g, job):
    import random
    import apilib
    import scen
    if "scenarios" in job:
        return scen.api_main_generic(g, job)
    rng = random.Random(job["seed"])
    model = apilib.ModelProc(job["model_exe"])
    out = []
    for cfg in job["configs"]:
        eng = "80001f8880c0ffee%02x" % rng.randrange(256)
        boots0 = rng.randrange(2 ** 31)
        disc = cfg.get("discover")
        sc = {"version": "v3", "mode": rng.choice(["sync", "async"]) if disc else "sync", "timeout": 0.01 if not disc else 0.05,
              "v3": dict({k: v for k, v in cfg.items() if k not in ("discover", "n")}, engine_id=None if disc else eng, agent_engine_id=eng, boots=boots0, time=77)}
        keys = scen.V3Keys(sc["v3"], bytes.fromhex(eng))
        state = {"reply": True, "boots": boots0, "req": []}

        def handler(n, data, addr):
            state["req"].append(data)
            if not state["reply"]:
                return []
            q = scen.parse_request(data, keys, model)
            if q.get("engine_id") == b"" and not q.get("user"):
                # engine-id discovery by a session that holds no key yet: the only message allowed in clear
                state["probes"] = state.get("probes", 0) + 1
                state["req"].pop()
                return [(0, scen.build_reply({"pdu_tag": 0xA8, "mac": "absent", "encrypt": "no", "flags": 0}, q, sc, keys, model, rng))]
            if rng.random() < 0.02:
                state["boots"] += 1
            return [(0, scen.build_reply({"vbs": ber.varbind(ber.enc_oid([1, 3, 6, 1, 9]), ber.enc_value("int", 1)).hex(), "boots": state["boots"]},
                                         q, sc, keys, model, rng))]
        agent = apilib.Agent(handler)
        sess = scen.Session(g, sc, agent, model)
        rec = {"config": cfg, "salts": [], "boots": [], "ops": [], "problems": [], "timeouts": 0}
        if disc == "lost":
            state["reply"] = False
            r0 = sess.op("refresh", [])
            state["reply"] = True
            state["req"] = []
            if r0["kind"] != "EXC":
                rec["problems"].append({"key": "refresh-without-reply", "what": "refresh returned although nothing was answered"})
        r0 = sess.op("refresh", [])
        if r0["kind"] != "RET":
            rec["problems"].append({"key": "entry-failed", "what": "session entry failed: %s" % r0.get("exc")})
        cur_boots = boots0
        agent.take()
        first = list(state["req"])       # the refresh probes of session entry are messages of this key installation too
        state["req"] = []
        i = 0
        pending_first = first
        while len(rec["salts"]) + len(rec["problems"]) < cfg.get("n", job["n"]):
            i += 1
            op = rng.choice(["get", "get", "get_many", "getnext", "getbulk", "refresh", "toolarge"]) if i > 1 else "first"
            arcs = [1, 3, 6, 1, 4, 1, 99999, rng.randrange(2 ** 32), rng.randrange(2 ** 20), i % 128]
            t = ber.oid_text(arcs)
            state["reply"] = rng.random() > 0.03          # some requests time out
            if not state["reply"]:
                rec["timeouts"] += 1
            if op == "first":
                state["req"] = pending_first
            elif op == "refresh":
                r = sess.op("refresh", [])
            elif op == "toolarge":
                # a request that does not fit the message buffer is refused (nothing goes out); the session must be none the worse.
                # (the scoped PDU was encrypted before the message turned out too large: one salt is spent on it)
                r = sess.op("get_many", [[t + ".%d" % k for k in range(700)]])
                rec["refused"] = rec.get("refused", 0) + 1
            elif op == "get":
                r = sess.op("get", [t])
            elif op == "get_many":
                r = sess.op("get_many", [[t, t + ".1"]])
            elif op == "getnext":
                r = sess.op("getnext", [t], 3)
            else:
                r = sess.op("getbulk", [t, 5], 3)
            rec["ops"].append(op)
            # a call may come back (it timed out at 10 ms) before the agent's thread has even seen its request: wait until the
            # agent is idle, then take what it recorded in one step, so that every message is counted with the step that sent it
            if op != "first":
                agent.quiesce()
            reqs, state["req"] = state["req"], []
            if op == "toolarge" and reqs:
                rec["problems"].append({"key": "sent-on-error", "what": "a request that does not fit the buffer was sent"})
            for data in reqs:
                try:
                    m = ber.s_message(data)
                except ber.Strict as e:
                    rec["problems"].append({"key": "malformed", "what": "malformed message: %s" % e, "datagram": data.hex()})
                    continue
                rec["salts"].append(m["priv"].hex())
                rec["skips"] = rec.get("skips", []) + [rec.get("refused", 0)]
                rec["boots"].append(m["boots"])
                if not m["flags"] & 2 or "encrypted" not in m:
                    rec["problems"].append({"key": "not-encrypted", "what": "message without the priv flag / ciphertext", "datagram": data.hex()})
                    continue
                clear = data.replace(m["encrypted"], b"")
                needle = ber.oid_content(arcs)[4:]       # the distinctive part of the requested OID
                if op not in ("first", "refresh") and needle in clear:
                    rec["problems"].append({"key": "oid-in-clear", "what": "the requested OID appears outside the ciphertext", "datagram": data.hex()})
        sess.close()
        agent.close()
        out.append(rec)
    model.close()
    return {"sessions": out}

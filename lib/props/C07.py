"""C07 - get / get_many results and SNMP exceptions map as documented.

Proof: Properties/C07.v (decision tables of get / get_many over the model, exception classes through the generated
error map).  Correspondence: extracted OpGet/OpGetMany::to_python against the real ones (codec harness) and the
real SnmpSession (v1/v2c/v3, sync/async).  Oracle: the documented decision table written independently below."""
from lib import codec, gen, pylayer, vf
import ber

FAMILY = {"SnmpError", "SnmpDecodeError", "SnmpEncodeError", "SnmpAuthError", "NoSuchInstance"}


def expected_get(desc, report=False):
    """-> ('RET', rendering) | ('EXC', set of acceptable classes) | None (not judged)"""
    if report:
        return ("EXC", {"SnmpAuthError"})
    if len(desc) == 0:
        return ("RET", "none")
    if len(desc) >= 2:
        return ("EXC", FAMILY)
    arcs, k, v = desc[0]
    if k == "null":
        return ("RET", "none")
    if k in ("nso", "nsi", "eomv"):
        return ("EXC", {"NoSuchInstance"})
    w = gen.expected_render(k, v)
    return ("RET", w) if w is not None else None


def expected_getmany(desc, report=False):
    if report:
        return ("EXC", {"SnmpAuthError"})
    d = {}
    for arcs, k, v in desc:
        if k in ("null", "nso", "nsi", "eomv"):
            continue
        w = gen.expected_render(k, v)
        if w is None:
            return None
        key = "str:" + gen.hx(ber.oid_text(arcs).encode())
        d[key] = w          # later duplicates overwrite, position of the first insertion is kept
    return ("RET", d)


def judge(op, desc, o, report=False):
    want = expected_get(desc, report) if op == "get" else expected_getmany(desc, report)
    if want is None:
        return None
    if want[0] == "EXC":
        if not o.startswith("EXC ") or o[4:] not in want[1]:
            return "expected an exception of %s, got %s" % (sorted(want[1]), o[:60])
        return None
    if not o.startswith("RET "):
        return "expected a result, got %s" % o[:60]
    if op == "get":
        return None if (o[4:] == want[1] or gen.float_close(o[4:], want[1])) else "expected %s got %s" % (want[1][:50], o[4:54])
    body = o[5:-1]
    got = [x.split("=", 1) for x in body.split(",")] if body else []
    if [k for k, _ in got] != list(want[1].keys()):
        return "dict keys %s, expected %s" % ([k[:20] for k, _ in got][:5], [k[:20] for k in want[1]][:5])
    for k, v in got:
        if v != want[1][k] and not gen.float_close(v, want[1][k]):
            return "dict[%s] = %s, expected %s" % (k[:30], v[:40], want[1][k][:40])
    return None


def gen_case(rng, small_universe=True):
    n = rng.choice([0, 1, 1, 1, 2, 3, 4])
    desc, vbs = [], b""
    names = [[1, 3, 6, 1, 2, 1, 1, i, 0] for i in range(1, 4)]
    for _ in range(n):
        arcs = rng.choice(names) if small_universe else gen.rarcs(rng)
        k, v = gen.rvalue(rng, gen.DATA_KINDS + ["null", "nso", "nsi", "eomv", "real"])
        desc.append((arcs, k, v))
        vbs += ber.varbind(ber.enc_oid(arcs), gen.enc_rvalue(rng, k, v))
    return desc, vbs


def main(argv):
    c = vf.Check("C07", argv)
    thorough = c.tier == "thorough"
    c.prove()
    cd = codec.Codec(c)
    if not cd.ok:
        return c.finish("n/a")
    rng = c.rng
    dis = 0
    lines, meta = [], []
    for _ in range(60000 if thorough else 10000):
        desc, vbs = gen_case(rng, rng.random() < 0.7)
        tag = rng.choice([0xA2] * 8 + [0xA8, 0xA0, 0xA1, 0xA5])
        p = ber.pdu(tag, 5, rng.choice([0, 0, 2]), rng.choice([0, 0, 1]), [vbs] if vbs else [])
        op = rng.choice(["get", "getmany"])
        lines.append("op %s %s" % (op, p.hex()))
        meta.append((op, desc, tag))
    m, r, d = cd.run(lines)
    for (op, desc, tag), ln, ml, rl, dl in zip(meta, lines, m, r, d):
        c.count(ln[:400], nontrivial=len(desc) >= 1)
        for prof, o in (("release", rl), ("debug", dl)):
            if not codec.same(ml, o, cd.emap):
                dis += 1
                if dis <= 5:
                    c.log("model/impl(%s) disagree on `%s`: model %s impl %s" % (prof, ln[:80], ml[:100], o[:100]))
                if not any(b.startswith("correspondence") for b in c.broken):
                    c.broken = list(c.broken) + ["correspondence `%s`: model `%s` impl(%s) `%s`" % (ln[:200], ml[:100], prof, o[:100])]
            if o == "PANIC":
                c.violation("%s to_python panics" % op, {"cmd": ln, "profile": prof}, key="op-panic")
                continue
            if o.startswith("ERR "):
                # the PDU itself did not decode: the call raises the mapped exception
                if any(gen.expected_render(k, v) is None and k == "real" for _, k, v in desc):
                    continue
                o = "EXC " + cd.emap.get(o[4:].split(" ")[0], o[4:])
            if tag == 0xA2:
                bad = judge(op, desc, o)
            elif tag == 0xA8:
                bad = judge(op, desc, o, report=True)
            else:
                bad = None if (o.startswith("EXC ") and o[4:] in FAMILY) or o.startswith("ERR") else "request PDU delivered: " + o[:40]
            if bad:
                c.violation("%s: %s (%s build)" % (op, bad, prof), {"cmd": ln, "profile": prof, "observed": o,
                            "varbinds": [(a, k, str(v)[:40]) for a, k, v in desc]}, key="%s-table:%s" % (op, bad.split(",")[0][:30]))
    c.sample({"op": lines[1][:160], "outcome": r[1][:160]})

    # ---- API level
    cfgs = [("v1", None), ("v2c", None), ("v3", {"user": "u0", "auth": None, "priv": None}),
            ("v3", {"user": "ue", "auth": ["sha1", 2, "44" * 20], "priv": ["aes", 2, "55" * 20]})]
    scs, exps = [], []
    for ver, v3 in cfgs:
        for mode in ("sync", "async"):
            sc = {"version": ver, "mode": mode, "timeout": 0.3, "steps": []}
            if v3:
                sc["v3"] = dict(v3, engine_id="80001f8880a1b2c3d4", agent_engine_id="80001f8880a1b2c3d4", boots=2, time=500)
            ex = []
            for _ in range(60 if thorough else 18):
                desc, vbs = gen_case(rng)
                op = rng.choice(["get", "get_many"])
                report = ver == "v3" and rng.random() < 0.15
                spec = {"vbs": vbs.hex()}
                if report:
                    spec = {"pdu_tag": 0xA8}
                if ver == "v3":
                    # the agent's clock at the ends of its range too (snmpEngineBoots latches at 2^31-1)
                    spec["boots"] = rng.choice([0, 1, 2, 2 ** 31 - 2, 2 ** 31 - 1])
                    spec["time"] = rng.choice([0, 500, 2 ** 31 - 1])
                args = ["1.3.6.1.2.1.1.1.0"] if op == "get" else [["1.3.6.1.2.1.1.1.0", "1.3.6.1.2.1.1.2.0"]]
                sc["steps"].append({"op": op, "args": args, "replies": [[spec]]})
                ex.append(("get" if op == "get" else "getmany", desc, report))
            scs.append(sc)
            exps.append(ex)
    ok3, log3, v3exe = vf.ocaml_build("v3", "v3_model", "v3_driver")
    res, log = vf.run_api_worker("C07", {"scenarios": scs, "model_exe": v3exe})
    n_api = 0
    if res is None:
        c.errors.append("API worker failed: " + log[-1500:])
    else:
        # which replies are decodable at all (an undefined REAL special value is not): the model's decoder says
        plines = ["pdu " + ber.pdu(0xA2, 1, 0, 0, [bytes.fromhex(st["replies"][0][0]["vbs"])]).hex() if "vbs" in st["replies"][0][0] else "pdu 00"
                  for sc in scs for st in sc["steps"]]
        decodable = iter(o.startswith("OK") for o in vf.run_lines(cd.model, plines))
        for sc, ex, rec in zip(scs, exps, res["records"]):
            if "driver_error" in rec:
                for _st in sc["steps"]:
                    next(decodable)
                c.errors.append("API driver error: " + rec["driver_error"])
                continue
            for st, (op, desc, report), out in zip(sc["steps"], ex, rec["steps"]):
                n_api += 1
                dec_ok = next(decodable)
                if not dec_ok and not report and sc["version"] == "v3" and sc["v3"].get("priv") and out.get("exc") in ("TimeoutError", "BlockingIOError"):
                    # an encrypted payload that does not decode is indistinguishable from one encrypted under another key:
                    # the session skips it (C04 / C10 reading) and the call times out; not a matter of the C07 table
                    c.count(("api-undecodable-skipped", sc["mode"], op), False)
                    continue
                c.count(("api", sc["version"], sc["mode"], op, str(desc)[:200], report), True)
                o = ("RET " + out["value"]) if out["kind"] == "RET" else "EXC " + out["exc"]
                bad = judge(op, desc, o, report)
                if bad:
                    c.violation("%s/%s %s: %s" % (sc["version"], sc["mode"], st["op"], bad),
                                {"scenario": dict(sc, steps=[st]), "observed": o, "varbinds": [(a, k, str(v)[:40]) for a, k, v in desc]},
                                key="api-%s-table:%s" % (op, bad.split(",")[0][:30]))
    # ---- the Python layer alone (what the socket method raises or returns is what the caller gets, save the documented
    # remapping), on scripted socket results, against Model.PyLayer (lib/pylayer.py)
    n_pl, d_pl = pylayer.run(c, cd.model, c.rng, 1500 if thorough else 300, "C07")
    c.coverage["python_layer_cases"] = n_pl
    return c.finish(
        rule="%d responses through OpGet/OpGetMany::to_python (0..4 varbinds, every value kind, NULL and the three exception values, "
             "duplicate names, Report and request PDUs) and %d API calls (v1, v2c, v3 noAuth, v3 SHA+AES; sync and async); "
             "non-trivial = at least one varbind" % (len(lines), n_api),
        extra={"disagreements": dis, "api_calls": n_api})


def api_main(g, job):
    import scen
    return scen.api_main_generic(g, job)

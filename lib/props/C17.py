"""C17 - oversized requests fail cleanly; buffer code stays in bounds.

Proof: Properties/C17.v.  Correspondence: the buffer model against the real Buffer on random and boundary op
sequences (codec harness, debug + release), the emit model against push_ber swept octet by octet across
127/128, 255/256 and 4080, and the real SnmpSession across the 4080-octet boundary (exception vs datagram).
Oracle: independent strict decoder / encoder of harness/py/ber.py, datagram count at the agent."""
from lib import codec, gen, privhist, vf
import ber

MAX = 4080      # replaced in main() by BUF_MAX_SIZE as the sources say now (Gen/Constants.v)


def rop(rng):
    t = rng.randint(0, 8)
    if t == 0:
        return "u8:%d" % rng.randrange(256)
    if t == 1:
        return "push:" + gen.hx(gen.rbytes(rng, rng.choice([0, 1, 2, 5, 100, 1000, MAX // 2, MAX - 4, MAX - 1, MAX, MAX + 1]), False))
    if t == 2:
        return "taglen:%d:%d" % (rng.randrange(256), rng.choice([0, 1, 127, 128, 255, 256, MAX, 65535, rng.randrange(65536)]))
    if t == 3:
        return "tagged:%d:%s" % (rng.randrange(256), gen.hx(gen.rbytes(rng, rng.choice([0, 1, 126, 127, 128, 253, 254, 255, 256, 2000]), False)))
    if t == 4:
        return "skip:%d" % rng.choice([0, 1, 8, 100, MAX, MAX + 920])
    if t == 5:
        return "reset"
    if t == 6:
        return "mark:%d" % rng.choice([0, 2, 12])
    if t == 7:
        return "push:" + gen.hx(gen.rbytes(rng, rng.randint(4070, 4082), False))
    return "u8:%d" % rng.randrange(256)


def sized_community_request(total):
    """A v2c Get of one OID whose datagram is exactly `total` octets (total >= 40), by community length."""
    oid = ber.oid_content([1, 3, 6, 1, 2, 1, 1, 1, 0])
    for n in range(0, total + 200):
        m = ber.msg_community(1, b"c" * n, ber.pdu(0xA0, 2 ** 31 - 1, 0, 0, [ber.varbind(ber.tlv(6, oid), b"\x05\x00")]))
        if len(m) == total:
            return n
        if len(m) > total:
            return None
    return None


def main(argv):
    c = vf.Check("C17", argv)
    thorough = c.tier == "thorough"
    c.prove()
    global MAX
    MAX = vf.constant("BUF_MAX_SIZE", 4080)
    cd = codec.Codec(c)
    if not cd.ok:
        return c.finish("n/a")
    rng = c.rng
    dis = 0
    # ---- buffer op sequences
    lines = ["buf " + ";".join(rop(rng) for _ in range(rng.randint(1, 10))) for _ in range(40000 if thorough else 6000)]
    # boundary: fill to MAX-k then each primitive
    for k in range(0, 6):
        fill = "push:" + gen.hx(bytes(MAX - k))
        for op in ["u8:1", "push:0102", "push:010203", "push:01020304", "push:0102030405", "taglen:4:5", "taglen:4:200", "taglen:4:300",
                   "tagged:4:-", "tagged:4:01", "tagged:4:0102", "skip:3", "skip:9", "mark:2"]:
            lines.append("buf %s;%s" % (fill, op))
            lines.append("buf %s;%s;u8:7" % (fill, op))

    def on_buf(k, ln, ml, rl, dl):
        nontriv = ("ERR" in (rl or "")) or ("skip" in ln and "reset" in ln) or len(ln) > 60
        c.count(ln[:300], nontriv)
        for o in (rl, dl):
            if o == "PANIC" or (o or "").startswith("DIED"):
                c.violation("buffer operation sequence panics / crashes: " + ln[:200], {"cmd": ln, "observed": o}, key="buffer-panic")
            m = None
            if o and o.startswith("OK "):
                import re
                m = re.match(r"OK len=(\d+) free=(\d+)", o)
            if m and (int(m.group(1)) + int(m.group(2)) != MAX or int(m.group(1)) > MAX):
                c.violation("buffer bookkeeping left the array: " + o[:80], {"cmd": ln, "observed": o}, key="buffer-bounds")
    dis += cd.diff(lines, label="buf", on_case=on_buf)
    c.sample({"buffer_ops": lines[0][:200]})

    # ---- message sizes swept across the length-form and buffer boundaries
    lines, expect = [], []
    oid = ber.oid_content([1, 3, 6, 1, 2, 1, 1, 1, 0])
    sizes = list(range(0, 300)) + list(range(3990, 4100)) + [rng.randrange(300, 3990) for _ in range(300 if thorough else 60)]
    for n in sizes:                      # community length sweep
        comm = bytes([0x41 + n % 26]) * n
        for ver in (1, 2):
            lines.append("emit%d %s get:2147483647:%s" % (ver, gen.hx(comm), oid.hex()))
            expect.append(ber.msg_community(ver - 1, comm, ber.pdu(0xA0, 2 ** 31 - 1, 0, 0, [ber.varbind(ber.tlv(6, oid), b"\x05\x00")])))
    for n in list(range(0, 40)) + list(range(270, 300)) + [rng.randrange(40, 270) for _ in range(20)]:   # number of OIDs
        oids = [oid] * n
        lines.append("emit2 7075626c6963 get:1:%s" % (",".join(o.hex() for o in oids) or "-"))
        expect.append(ber.msg_community(1, b"public", ber.pdu(0xA0, 1, 0, 0, [ber.varbind(ber.tlv(6, o), b"\x05\x00") for o in oids])))
    for n in list(range(100, 140)) + list(range(240, 270)) + [1000, MAX - 20, MAX - 10, MAX]:   # one long OID
        o = ber.oid_content([1, 3] + [1] * n)
        lines.append("emit1 70 getnext:5:%s" % o.hex())
        expect.append(ber.msg_community(0, b"p", ber.pdu(0xA1, 5, 0, 0, [ber.varbind(ber.tlv(6, o), b"\x05\x00")])))
    for n in list(range(0, 40)) + list(range(100, 140)) + list(range(3900, 4100, 3)):     # v3 user-name / ciphertext sizes
        user = b"u" * (n % 300)
        ct = bytes(n)
        lines.append("emit3 7 110 0102030405 1 2 %s %s %s enc:%s" % (gen.hx(user), "00" * 12, "00" * 8, gen.hx(ct)))
        expect.append(ber.msg_v3(7, 3, ber.usm_params(bytes.fromhex("0102030405"), 1, 2, user, bytes(12), bytes(8)), ber.tlv(4, ct), vf.constant("V3_MAX_SIZE", 2048)))
    m, r, d = cd.run(lines)
    n_oob = 0
    for ln, want, ml, rl, dl in zip(lines, expect, m, r, d):
        c.count(ln[:120] + str(len(ln)), nontrivial=len(want) >= 128)
        for prof, o in (("release", rl), ("debug", dl)):
            if not codec.same(ml, o, cd.emap):
                dis += 1
                if dis <= 5:
                    c.log("model/impl(%s) disagree on `%s...` (spec length %d): model %s impl %s" % (prof, ln[:60], len(want), ml[:60], o[:60]))
                if not any(b.startswith("correspondence") for b in c.broken):
                    c.broken = list(c.broken) + ["correspondence emit (message of %d octets): model `%s` impl(%s) `%s`" % (len(want), ml[:80], prof, o[:80])]
            if len(want) > MAX:
                n_oob += prof == "release"
                if o != "ERR OutOfBuffer":
                    c.violation("a %d-octet request does not fit the buffer but the encoder answered `%s` (%s build)" % (len(want), o[:60], prof),
                                {"cmd": ln, "expected": "ERR OutOfBuffer", "observed": o, "profile": prof}, key="oversize-not-refused")
            else:
                got = o.split(" ")[1] if o.startswith("OK ") else o
                if got != want.hex():
                    c.violation("a %d-octet request that fits is not produced complete and correct (%s build): `%s`" % (len(want), prof, o[:60]),
                                {"cmd": ln, "expected": want.hex(), "observed": o, "profile": prof}, key="fitting-request-wrong")
    c.sample({"emit": lines[10][:120], "out": r[10][:120]})

    # ---- the private buffers of the DES / AES keys (shared by encrypt and decrypt): after any history, what is sent after the
    # scoped PDU is less than a block of zero octets written for THIS request, never leftovers of an earlier reply
    ok3, log3, v3exe = vf.ocaml_build("v3", "v3_model", "v3_driver")
    if not ok3:
        c.errors.append("building the extracted v3 model failed: " + log3[-800:])
        return c.finish("n/a")
    n_hist, d, n_ct = privhist.run(c, cd, v3exe, rng, 600 if thorough else 120, keyprefix="privbuf:")
    dis += d
    c.coverage["privacy_buffer_histories"] = {"histories": n_hist, "ciphertexts_judged": n_ct}

    # ---- API level: SnmpSession across the 4080 boundary (nothing is sent when it does not fit)
    scs = []
    for ver in ("v1", "v2c"):
        steps = []
        for total in list(range(MAX - 6, MAX + 8)) + [130, 131, 258, 259, 260, MAX + 120, 2 * MAX + 840]:
            n = sized_community_request(total)
            if n is None:
                continue
            steps.append(("community", n, total))
        scs.append({"version": ver, "mode": "sync", "timeout": 0.05, "community": "c", "steps": [],
                    "_sizes": steps})
    # community is fixed per session: one session per size
    jobs = []
    for sc in scs:
        for kind, n, total in sc["_sizes"]:
            jobs.append({"version": sc["version"], "mode": "sync", "timeout": 0.05, "community": "c" * n, "_total": total,
                         "steps": [{"op": "get", "args": ["1.3.6.1.2.1.1.1.0"], "replies": [[{"vbs": ""}]]}]})
    # many OIDs through get_many
    for k in list(range(268, 276)) + [1, 50, 400]:
        jobs.append({"version": "v2c", "mode": "sync", "timeout": 0.05, "community": "public", "_total": None,
                     "steps": [{"op": "get_many", "args": [["1.3.6.1.2.1.1.1.0"] * k], "replies": [[{"vbs": ""}]]}]})
    res, log = vf.run_api_worker("C17", {"scenarios": jobs})
    n_api = 0
    if res is None:
        c.errors.append("API worker failed: " + log[-1500:])
    else:
        for sc, rec in zip(jobs, res["records"]):
            if "driver_error" in rec:
                c.errors.append("API driver error: " + rec["driver_error"])
                continue
            out = rec["steps"][0]
            n_api += 1
            if sc["steps"][0]["op"] == "get":
                exp = ber.msg_community({"v1": 0, "v2c": 1}[sc["version"]], sc["community"].encode(),
                                        ber.pdu(0xA0, 0, 0, 0, [ber.varbind(ber.enc_oid([1, 3, 6, 1, 2, 1, 1, 1, 0]), b"\x05\x00")]))
                exp_len = len(exp) - 1 + 4   # request-id below is 4 octets for most ids; judge by what was sent
            emitted = out["emitted"]
            total = None
            if emitted:
                total = len(bytes.fromhex(emitted[0]))
            exc = out.get("exc")
            c.count(("api", sc["version"], len(sc["community"]), str(sc["steps"][0]["args"])[:40]), True)
            if exc and exc.startswith("PANIC"):
                c.violation("oversized request surfaced a Rust panic", {"scenario": sc, "outcome": out}, key="api-oversize-panic")
            if exc == "SnmpEncodeError":
                if emitted:
                    c.violation("SnmpEncodeError was raised but %d datagram(s) were sent" % len(emitted), {"scenario": sc, "outcome": out},
                                key="api-sent-on-error")
            elif emitted:
                if total > MAX:
                    c.violation("a datagram of %d octets (> %d) was sent" % (total, MAX), {"scenario": sc, "outcome": out}, key="api-oversize-sent")
                try:
                    ber.s_message(bytes.fromhex(emitted[0]))
                except ber.Strict as e:
                    c.violation("the datagram sent is not a well-formed minimal message: %s" % e, {"scenario": sc, "outcome": out},
                                key="api-malformed-sent")
            else:
                c.violation("request neither sent nor refused with SnmpEncodeError: %s" % exc, {"scenario": sc, "outcome": out},
                            key="api-neither")
            # get_many(k OIDs): complete (all k varbinds, in order) when it fits, refused when its reference encoding does not
            if sc["steps"][0]["op"] == "get_many":
                asked = [[int(x) for x in t.split(".")] for t in sc["steps"][0]["args"][0]]
                ref = ber.msg_community({"v1": 0, "v2c": 1}[sc["version"]], sc["community"].encode(),
                                        ber.pdu(0xA0, 2 ** 31 - 1, 0, 0, [ber.varbind(ber.enc_oid(a), b"\x05\x00") for a in asked]))
                if emitted:
                    q = (out.get("requests") or [{}])[0]
                    sent_oids = (q.get("pdu") or {}).get("oids")
                    if sent_oids != asked:
                        c.violation("get_many of %d OIDs (any Iterable[str]) was sent with %s varbinds: a request that fits is not sent complete"
                                    % (len(asked), "?" if sent_oids is None else len(sent_oids)), {"scenario": sc, "outcome": {k: out.get(k) for k in ("kind", "exc", "emitted")}},
                                    key="api-getmany-incomplete")
                if len(ref) > MAX + 4 and exc != "SnmpEncodeError":
                    c.violation("get_many of %d OIDs (%d octets, buffer %d) was not refused with SnmpEncodeError: %s%s"
                                % (len(asked), len(ref), MAX, exc, ", and a datagram went out" if emitted else ""), {"scenario": sc, "outcome": {k: out.get(k) for k in ("kind", "exc", "emitted")}},
                                key="api-getmany-oversize-accepted")
                if len(ref) <= MAX - 4 and exc == "SnmpEncodeError":
                    c.violation("get_many of %d OIDs (%d octets) was refused" % (len(asked), len(ref)), {"scenario": sc, "outcome": {k: out.get(k) for k in ("kind", "exc")}},
                                key="api-getmany-fitting-refused")
            # the boundary itself: a request whose strict size is <= 4080 must go out
            if sc.get("_total") is not None and sc["steps"][0]["op"] == "get":
                # _total was computed for request id 2^31-1 (4 content octets): sizes within 3 octets of the boundary are not judged
                if sc["_total"] <= MAX - 4 and exc == "SnmpEncodeError":
                    c.violation("a request of at most %d octets was refused" % sc["_total"], {"scenario": sc, "outcome": out}, key="api-fitting-refused")
                if sc["_total"] > MAX + 4 and exc != "SnmpEncodeError":
                    c.violation("a request of at least %d octets was not refused: %s" % (sc["_total"] - 4, exc), {"scenario": sc, "outcome": out},
                                key="api-oversize-accepted")
    return c.finish(
        rule="%d buffer op sequences (random + each primitive at free space 0..5); %d messages with community/user/ciphertext/OID "
             "sizes swept octet by octet across 127/128, 255/256 and 4080 (%d beyond the buffer); %d API sessions around 4080 octets; "
             "non-trivial = an error path, a skip/reset interplay, or a message of >= 128 octets" % (len(lines), len(expect), n_oob, n_api),
        extra={"disagreements": dis, "oversized": n_oob, "api_sessions": n_api})


def api_main(g, job):
    import scen
    return scen.api_main_generic(g, job)

"""C06 - a walk never leaves its subtree, never goes backwards, always ends.

Proof: Properties/C06.v (for an arbitrary agent: containment, strict increase hence no repeats, follow-up OID,
stop rule, bounded number of requests when the reply OIDs come from a finite set).
Correspondence: the extracted GetIter/OpGetNext/OpGetBulk model against the real ones on adversarial reply
streams, exhaustively over a small OID/value universe (codec harness `walk`), and the real GetNextIter /
GetBulkIter (sync and async) against scripted agents.  Oracle: an independent reference walker written from the
property text (below), plus the property clauses checked directly on what the implementation yielded."""
import itertools

from lib import codec, gen, pylayer, vf
import ber

BASE = [1, 3, 6, 1, 2]
U = {"A": [1, 3, 6, 1, 2, 1], "C": [1, 3, 6, 1, 2, 1, 5], "B": [1, 3, 6, 1, 2, 2], "D": [1, 3, 6, 1, 2, 200], "F": [1, 3, 6, 1, 2, 16383],
     "E": [1, 3, 6, 1, 2, 16384], "S": [1, 3, 6, 1, 2], "O": [1, 3, 6, 1, 3], "L": [1, 3, 6, 1, 1, 9]}
KINDS = {"i": ("int", 7), "n": ("null", None), "e": ("eomv", None), "s": ("nsi", None)}
DATA = {"i"}


def below(o, base):
    return len(o) > len(base) and o[:len(base)] == base


def ref_next(reply, last):
    """reference GetNext step: -> ('yield', oid) | ('stop',) | ('error',)"""
    if len(reply) == 0:
        return ("stop",)
    if len(reply) >= 2:
        return ("error",)
    o, k = reply[0]
    if not (o[:len(BASE)] == BASE) or not (o > last):
        return ("stop",)
    if k not in DATA:
        return ("stop",)
    return ("yield", o)


def ref_bulk(reply, last):
    """reference GetBulk step: -> (list of yielded oids, stop?)"""
    if len(reply) == 0:
        return [], True
    out = []
    for o, k in reply:
        if k not in DATA:
            continue
        if not (o[:len(BASE)] == BASE) or not (o > last):
            return out, True
        out.append(o)
        last = o
    if not out:
        return out, True
    return out, False


def pdu_of(reply):
    vbs = [ber.varbind(ber.enc_oid(o), ber.enc_value(*KINDS[k])) for o, k in reply]
    return ber.pdu(0xA2, 5, 0, 0, vbs)


def parse_step(s):
    """harness step rendering -> (kind, items(oids as text hex), next_hex)"""
    body, nxt = s.rsplit(" next=", 1)
    nxt = nxt.split(" ")[0]
    return body, nxt


def text(o):
    return "str:" + gen.hx(ber.oid_text(o).encode())


def expected_walk(kind, stream):
    """Run the reference walker over the stream; returns the expected harness renderings per step (until the stop)."""
    last = BASE
    out = []
    for reply in stream:
        if kind == "next":
            r = ref_next(reply, last)
            if r[0] == "yield":
                last = r[1]
                out.append(("RET (%s,int:7)" % text(last), last, False))
            elif r[0] == "stop":
                # set_next_oid may have advanced before a value-based stop: the follow-up OID is not observable after a stop
                out.append(("EXC StopAsyncIteration", None, True))
                break
            else:
                out.append(("EXC SnmpDecodeError", last, True))
                break
        else:
            ys, stop = ref_bulk(reply, last)
            items = ["(%s,int:7)" % text(o) for o in ys]
            if ys:
                last = ys[-1]
            if stop and not ys:
                out.append(("EXC StopAsyncIteration" if not any(k in DATA for _, k in reply) or not reply else "RET [none]", last, True))
                break
            if stop:
                out.append(("RET [%s]" % ",".join(items + ["none"]), last, True))
                break
            out.append(("RET [%s]" % ",".join(items), last, False))
    return out


def follow_up_wrong(exp, out, stp):
    """Each follow-up request must name the last OID the walk accepted (reference walker), the first the requested base."""
    reqs = [q.get("pdu") or {} for q in out.get("requests", [])]
    want = [BASE] + [last for (_w, last, stop) in exp if not stop and last is not None]
    for i, (q, w) in enumerate(zip(reqs, want)):
        o = (q.get("oids") or [None])[0]
        if o != w:
            return "request %d asks for %s, the last accepted OID is %s" % (i, o and ber.oid_text(o), ber.oid_text(w))
    if len(reqs) > len(want):
        return "%d requests were issued, the walk ends after %d" % (len(reqs), len(want))
    return None


def main(argv):
    c = vf.Check("C06", argv)
    thorough = c.tier == "thorough"
    c.prove()
    cd = codec.Codec(c)
    if not cd.ok:
        return c.finish("n/a")
    rng = c.rng
    singles = [[(U[o], k)] for o in U for k in KINDS]
    replies_next = [[]] + singles + [[(U["A"], "i"), (U["B"], "i")]]
    streams = []
    depth = 3
    for st in itertools.product(range(len(replies_next)), repeat=depth):
        streams.append(("next", [replies_next[i] for i in st]))
    n_exh_next = len(streams)
    pairs = [a + b for a in singles for b in singles]
    replies_bulk = [[]] + singles + pairs
    second = [replies_bulk[i] for i in rng.sample(range(len(replies_bulk)), 40 if thorough else 14)]
    for r1 in replies_bulk:
        for r2 in second:
            streams.append(("bulk", [r1, r2]))
    for _ in range(30000 if thorough else 4000):       # longer random streams incl. three-varbind replies
        k = rng.choice(["next", "bulk"])
        L = rng.randint(1, 6)
        st = []
        for _j in range(L):
            n = rng.choice([1, 1, 1, 0, 2, 3]) if k == "bulk" else rng.choice([1, 1, 1, 1, 0, 2])
            st.append([(U[rng.choice(list(U))], rng.choice(list(KINDS))) for _x in range(n)])
        streams.append((k, st))
    base_hex = gen.hx(ber.oid_text(BASE).encode())
    cache = {}

    def ph(reply):
        key = tuple((tuple(o), k) for o, k in reply)
        if key not in cache:
            cache[key] = pdu_of(reply).hex()
        return cache[key]
    lines = ["walk %s %s %s %s" % (k, base_hex, "-" if k == "next" else "10", " ".join(ph(r) for r in st)) for k, st in streams]
    m, r, d = cd.run(lines)
    dis = 0
    for (k, st), ln, ml, rl, dl in zip(streams, lines, m, r, d):
        c.count(ln, nontrivial=len(st) >= 2)
        exp = expected_walk(k, st)
        for prof, o in (("release", rl), ("debug", dl)):
            if not codec.same(ml, o, cd.emap):
                dis += 1
                if dis <= 5:
                    c.log("model/impl(%s) disagree on `%s`: model %s impl %s" % (prof, ln[:100], ml[:120], o[:120]))
                if not any(b.startswith("correspondence") for b in c.broken):
                    c.broken = list(c.broken) + ["correspondence `%s`: model `%s` impl(%s) `%s`" % (ln[:300], ml[:150], prof, o[:150])]
            if "PANIC" in o:
                c.violation("walk step panics (%s build)" % prof, {"cmd": ln, "observed": o, "profile": prof}, key="walk-panic")
                continue
            steps = o.split(" | ")
            for i, (want, last, stop) in enumerate(exp):
                if i >= len(steps):
                    break
                body, nxt = parse_step(steps[i])
                if body != want:
                    c.violation("%s walk under %s, reply %d of the stream: the walk does `%s`, the property requires `%s` (%s build)"
                                % (k, ber.oid_text(BASE), i, body[:80], want[:80], prof),
                                {"cmd": ln, "stream": [[(ber.oid_text(o), kk) for o, kk in rp] for rp in st], "step": i,
                                 "observed": steps[i], "expected": want, "profile": prof},
                                key="walk-step:" + ("yielded-what-it-must-not" if body.startswith("RET") and not want.startswith("RET")
                                                    else "stopped-early" if want.startswith("RET") and not body.startswith("RET") else "items"))
                    break
                if last is not None and not stop and nxt != ber.oid_content(last).hex():
                    c.violation("follow-up request would carry %s, the last accepted OID is %s" % (nxt, ber.oid_text(last)),
                                {"cmd": ln, "step": i, "observed": steps[i], "profile": prof}, key="walk-followup")
                    break
    c.sample({"stream": [[(ber.oid_text(o), kk) for o, kk in rp] for rp in streams[100][1]], "outcome": r[100]})

    # ---- very long base OIDs (content of 127..513 octets, i.e. across every width a length could be kept in): containment and
    # the end of the walk are judged against the WHOLE base
    ll, lmeta = [], []
    for L in (127, 128, 250, 255, 256, 257, 300, 511, 512, 513, 1000):
        n5 = (L - 2) // 5
        arcs = [1, 3] + [4294967295] * n5 + [1] * ((L - 2) - 5 * n5) + [5]
        if len(ber.oid_content(arcs)) != L:
            continue
        in1, in2, sib = arcs + [1], arcs + [2], arcs[:-1] + [6]
        for kind in ("next", "bulk"):
            pd = [pdu_of([(in1, "i")]).hex(), pdu_of([(in2, "i")]).hex(), pdu_of([(sib, "i")]).hex(), pdu_of([(sib + [1], "i")]).hex()]
            ll.append("walk %s %s %s %s" % (kind, gen.hx(ber.oid_text(arcs).encode()), "-" if kind == "next" else "10", " ".join(pd)))
            want = ["RET (%s,int:7)" % text(in1), "RET (%s,int:7)" % text(in2), "EXC StopAsyncIteration"] if kind == "next" else \
                ["RET [(%s,int:7)]" % text(in1), "RET [(%s,int:7)]" % text(in2), "RET [none]"]
            lmeta.append((L, kind, want))
    lm, lr, ld = cd.run(ll)
    for ln, (L, kind, want), ml, rl, dl in zip(ll, lmeta, lm, lr, ld):
        c.count(("long-base", L, kind), True)
        for prof, o in (("release", rl), ("debug", dl)):
            if not codec.same(ml, o, cd.emap):
                dis += 1
                if not any(b.startswith("correspondence") for b in c.broken):
                    c.broken = list(c.broken) + ["correspondence (base OID of %d octets) `%s...`: model `%s` impl(%s) `%s`" % (L, ln[:60], ml[:150], prof, o[:150])]
            steps = o.split(" | ")
            for i, w in enumerate(want):
                body = parse_step(steps[i])[0] if i < len(steps) else "(nothing)"
                if body != w:
                    c.violation("%s walk under a base OID of %d content octets, reply %d: the walk does `%s`, the property requires `%s` (%s build)"
                                % (kind, L, i, body[:70], w[:70], prof), {"cmd": ln, "base_octets": L, "step": i, "observed": steps[i] if i < len(steps) else None,
                                                                        "expected": w, "profile": prof},
                                key="walk-long-base:" + ("leaves-subtree" if i == 2 else "items"))
                    break

    # ---- sub-identifiers beyond 2^32-1 (the decoder accepts any length of base-128 digits): whatever such an agent replies, the
    # OID STRINGS the walk yields never repeat, and each is the text of an OID the agent sent (C06_yielded_texts_distinct)
    import re
    U2 = {"a": BASE + [1], "g": BASE + [2 ** 32 + 1], "h": BASE + [2 ** 32 + 2], "j": BASE + [1, 2 ** 32], "k": BASE + [2 ** 64 + 5], "m": BASE + [2 ** 32 - 1],
          "b": BASE + [2], "q": BASE + [2 ** 32], "r": BASE + [2 ** 35 + 1], "t": BASE + [5, 2 ** 63], "o": [1, 3, 6, 1, 3]}
    bstreams = []
    for _ in range(6000 if thorough else 1500):
        k = rng.choice(["next", "bulk"])
        names = sorted(rng.sample(list(U2), rng.randint(2, 6)), key=lambda nm: U2[nm]) if rng.random() < 0.7 else [rng.choice(list(U2)) for _x in range(rng.randint(2, 6))]
        st, i = [], 0
        while i < len(names):
            n = 1 if k == "next" else rng.choice([1, 1, 2, 3])
            st.append([(U2[nm], "i") for nm in names[i:i + n]])
            i += n
        bstreams.append((k, st))
    blines = ["walk %s %s %s %s" % (k, base_hex, "-" if k == "next" else "10", " ".join(pdu_of(r).hex() for r in st)) for k, st in bstreams]
    bm, br, bd = cd.run(blines)
    for (k, st), ln, ml, rl, dl in zip(bstreams, blines, bm, br, bd):
        c.count(ln, nontrivial=any(max(o) >= 2 ** 32 for rp in st for o, _k in rp))
        sent = {ber.oid_text(o) for rp in st for o, _k in rp}
        for prof, o in (("release", rl), ("debug", dl)):
            if not codec.same(ml, o, cd.emap):
                dis += 1
                if not any(b.startswith("correspondence") for b in c.broken):
                    c.broken = list(c.broken) + ["correspondence (sub-identifiers beyond 2^32-1) `%s`: model `%s` impl(%s) `%s`" % (ln[:300], ml[:150], prof, o[:150])]
            if "PANIC" in o:
                c.violation("walk step panics (%s build)" % prof, {"cmd": ln, "observed": o, "profile": prof}, key="walk-panic")
                continue
            keys = [bytes.fromhex(h).decode() for h in re.findall(r"\(str:([0-9a-f]+),", o)]
            dup = [x for i, x in enumerate(keys) if x in keys[:i]]
            if dup:
                c.violation("%s walk under %s: the entry %s is reported twice (the agent sent %s) (%s build)"
                            % (k, ber.oid_text(BASE), dup[0], [[ber.oid_text(oo) for oo, _k in rp] for rp in st], prof),
                            {"cmd": ln, "observed": o, "profile": prof}, key="walk-reports-twice")
            alien = [x for x in keys if x not in sent]
            if alien and not dup:
                c.violation("%s walk under %s yields %s, which the agent never sent (%s) (%s build)" % (k, ber.oid_text(BASE), alien[0], sorted(sent), prof),
                            {"cmd": ln, "observed": o, "profile": prof}, key="walk-yields-alien-oid")
    c.coverage["streams_with_subidentifiers_beyond_32_bits"] = len(bstreams)

    # ---- API level: the Python iterators on top, scripted agent, request cap turns non-termination into an outcome
    scs, exps = [], []
    sample = rng.sample(streams[:n_exh_next], 60 if thorough else 25) + rng.sample(streams[n_exh_next:], 120 if thorough else 40)
    # the constant-reply agent of the pinned-commit defect, and a two-cycle
    loops = [("next", [[(U["A"], "i")]] * 30), ("bulk", [[(U["A"], "i"), (U["B"], "i")]] * 30), ("next", [[(U["A"], "i")], [(U["B"], "i")], [(U["A"], "i")]] * 10)]
    # oversized GetBulk replies (more varbinds than max_repetitions), the end marker beyond position max_repetitions
    iv = lambda *names: [(U[x], "i") for x in names]
    loops += [("bulk", [iv("A", "C", "B", "D"), iv("F", "E", "O"), iv("E")]), ("bulk", [iv("A", "C", "B"), iv("D", "F", "E", "O")]),
              ("bulk", [iv("A", "C", "B", "D", "F", "E")]), ("bulk", [iv("A", "C", "O", "B")])]
    for ver in ("v1", "v2c"):
        for mode in ("sync", "async"):
            sc = {"version": ver, "mode": mode, "timeout": 0.3, "steps": []}
            ex = []
            for k, st in sample + loops:
                if ver == "v1" and k == "bulk":
                    continue
                reps = [[{"vbs": b"".join(ber.varbind(ber.enc_oid(o), ber.enc_value(*KINDS[kk])) for o, kk in rp).hex()}] for rp in st]
                end = {"vbs": ber.varbind(ber.enc_oid(U["O"]), ber.enc_value("int", 1)).hex()}
                sc["steps"].append({"op": "getnext" if k == "next" else "getbulk", "args": [ber.oid_text(BASE)] + ([rng.choice([1, 2, 10])] if k == "bulk" else []),
                                    "replies": reps, "default_reply": end, "cap": 60})
                ex.append((k, st))
            scs.append(sc)
            exps.append(ex)
    res, log = vf.run_api_worker("C06", {"scenarios": scs})
    n_api = 0
    # the same walks in Model.Walk (getnext_walk / getbulk_walk: the functions the C05/C06 theorems are about)
    mlines = []
    for sc, ex in zip(scs, exps):
        for stp, (k, st) in zip(sc["steps"], ex):
            pdus = [ber.pdu(0xA2, 1, 0, 0, [ber.varbind(ber.enc_oid(o), ber.enc_value(*KINDS[kk])) for o, kk in rp]).hex() for rp in st]
            pdus.append(ber.pdu(0xA2, 1, 0, 0, [ber.varbind(ber.enc_oid(U["O"]), ber.enc_value("int", 1))]).hex())
            mlines.append("pywalk %s %s 20 200 %s" % ("next" if k == "next" else "bulk:%d" % stp["args"][1], ber.oid_text(BASE).encode().hex(), " ".join(pdus)))
    mwalks = iter(vf.run_lines(cd.model, mlines))
    if res is None:
        c.errors.append("API worker failed: " + log[-1500:])
    else:
        for sc, ex, rec in zip(scs, exps, res["records"]):
            if "driver_error" in rec:
                c.errors.append("API driver error: " + rec["driver_error"])
                continue
            for stp, (k, st), out in zip(sc["steps"], ex, rec["steps"]):
                n_api += 1
                mw = next(mwalks)
                if out["kind"] == "ITER" and mw.startswith("OK "):
                    f = dict(x.split("=", 1) for x in mw[3:].split(" "))
                    m_items = [] if f["items"] == "-" else f["items"].split(";")
                    m_req = [] if f["req"] == "-" else f["req"].split(",")
                    i_req = [ber.oid_content(((q.get("pdu") or {}).get("oids") or [[0, 0]])[0]).hex() for q in out.get("requests", [])]
                    if (m_items, f["end"], m_req) != (out["items"], out["ending"], i_req):
                        dis += 1
                        if dis <= 3:
                            c.log("Model.Walk and the %s/%s Python iterator differ on `%s`:\n     model %s\n     impl  items=%s req=%s end=%s"
                                  % (sc["version"], sc["mode"], str(st)[:200], mw[:300], out["items"][:6], i_req[:6], out["ending"]))
                        if not any(b.startswith("correspondence") for b in c.broken):
                            c.broken = list(c.broken) + ["correspondence (Model.Walk vs %s %s iterator, %s): model `%s` impl items=%s end=%s"
                                                         % (sc["version"], sc["mode"], stp["op"], mw[:200], out["items"][:4], out["ending"])]
                c.count(("api", sc["version"], sc["mode"], k, str(st)[:300]), True)
                # expected items: reference walker over the stream followed by the out-of-subtree default reply
                exp = expected_walk(k, st + [[(U["O"], "i")]])
                want_items = []
                ending = "STOP"
                for w, last, stop in exp:
                    if w.startswith("RET ("):
                        want_items.append(w[4:])
                    elif w.startswith("RET ["):
                        want_items += [x for x in split_items(w[5:-1]) if x != "none"]
                    elif w.startswith("EXC Snmp"):
                        ending = w[4:]
                if out["kind"] != "ITER":
                    c.violation("walk raised %s at creation" % out.get("exc"), {"scenario": dict(sc, steps=[stp]), "outcome": out}, key="api-walk-raised")
                    continue
                got = out["items"]
                oids = [x[1:].split(",")[0] for x in got]
                if len(set(oids)) != len(oids):
                    c.violation("%s/%s %s: the walk reports an entry twice (%d items, %d distinct)" % (sc["version"], sc["mode"], stp["op"], len(oids), len(set(oids))),
                                {"scenario": dict(sc, steps=[stp]), "items": got[:40], "ending": out["ending"]}, key="api-walk-repeats")
                elif out["ending"] == "CAP":
                    c.violation("%s/%s %s: the walk did not end within %d items" % (sc["version"], sc["mode"], stp["op"], stp["cap"]),
                                {"scenario": dict(sc, steps=[stp]), "items": got[:40]}, key="api-walk-endless")
                elif follow_up_wrong(exp, out, stp) is not None:
                    c.violation("%s/%s %s: %s" % (sc["version"], sc["mode"], stp["op"], follow_up_wrong(exp, out, stp)),
                                {"scenario": dict(sc, steps=[stp]), "requests": [q.get("pdu") for q in out["requests"]][:20]}, key="api-walk-followup")
                elif got != want_items or out["ending"] != ending:
                    c.violation("%s/%s %s: yielded %d items ending %s; the property requires %d items ending %s"
                                % (sc["version"], sc["mode"], stp["op"], len(got), out["ending"], len(want_items), ending),
                                {"scenario": dict(sc, steps=[stp]), "items": got[:40], "expected": want_items[:40], "ending": out["ending"]},
                                key="api-walk-items")
    # ---- the Python layer alone, on scripted socket results, against Model.PyLayer (lib/pylayer.py)
    n_pl, d_pl = pylayer.run(c, cd.model, c.rng, 2000 if thorough else 400, "C06")
    c.coverage["python_layer_cases"] = n_pl
    return c.finish(
        rule="exhaustive: every GetNext reply stream of depth %d over %d replies (9 OIDs incl. base itself, before/after/outside the subtree, "
             "arcs 200/16383/16384 x {value, NULL, endOfMibView, noSuchInstance}, empty and two-varbind replies): %d streams; GetBulk: all %d "
             "first replies of 0..2 varbinds x %d second replies; %d random streams of 1..6 replies; %d API walks (sync/async, v1/v2c) incl. "
             "repeating agents; non-trivial = stream of >= 2 replies" % (depth, len(replies_next), n_exh_next, len(replies_bulk), len(second),
                                                                         len(streams) - n_exh_next - len(replies_bulk) * len(second), n_api),
        extra={"disagreements": dis, "api_walks": n_api, "exhaustive_part": n_exh_next})


def split_items(s):
    out, depth, cur = [], 0, ""
    for ch in s:
        if ch == "(":
            depth += 1
        if ch == ")":
            depth -= 1
        if ch == "," and depth == 0:
            out.append(cur)
            cur = ""
        else:
            cur += ch
    if cur:
        out.append(cur)
    return out


def api_main(g, job):
    import scen
    return scen.api_main_generic(g, job)

"""C01 - no datagram can crash the client: the receive path is total.

Proof: Properties/C01.v (no decoder, no relative-OID normalisation, no to_python conversion and no receive loop
of the model can reach a Rust panic, for every octet string; every error maps to a documented exception class
via the generated Gen/ErrorMap.v).  Correspondence: the extracted decoders against the real ones, exhaustively
for all inputs of <= 2 octets and on mutated valid messages (debug + release).  API level: every version and
security configuration x {get, get_many, getnext, getbulk, refresh} against replies that are valid except for one
defect.  Oracle: no PANIC from the harness, no PanicException from the API, only documented exception classes."""
from lib import codec, gen, pylayer, vf
import ber

DOCUMENTED = {"SnmpError", "SnmpDecodeError", "SnmpEncodeError", "SnmpAuthError", "NoSuchInstance", "TimeoutError", "BlockingIOError",
              "OSError", "ConnectionRefusedError", "ValueError", "StopIteration", "StopAsyncIteration"}
CMDS_ALL = ["hdr", "value", "dec_int", "dec_bool", "dec_null", "dec_oid", "dec_os", "dec_od", "dec_op", "dec_seq", "dec_opt", "dec_real",
            "dec_ip", "dec_c32", "dec_g32", "dec_tt", "dec_u32", "dec_c64", "dec_reloid", "pdu", "msg1", "msg2", "msg3", "usm", "scoped"]
CMDS_2 = ["hdr", "value", "pdu", "msg1", "msg2", "msg3", "dec_real", "dec_int"]

# the five crashing inputs of the pinned commit (fixed since); kept as a corpus that runs first
CORPUS = ["hdr 1f80", "hdr 308201", "msg2 1f80", "msg1 308201", "msg3 1f80",
          "pdu a20d0201010201000201003002" + "3000",
          "op get a20e02010102010002010030033001" + "00", "value 090180", "value 09028000", "value 090401343536",
          "dec_int 0209ffffffffffffffffff", "dec_int 0208ffffffffffffffff",
          "pdu a216020101020100020100300b300506012b050030020d00", "pdu a218020101020100020100300d30040600050030050d01050500",
          "pdu a21b0201010201000201003010300706032b0201050030050d01050500"]


def main(argv):
    c = vf.Check("C01", argv)
    thorough = c.tier == "thorough"
    c.prove()
    cd = codec.Codec(c)
    if not cd.ok:
        return c.finish("n/a")
    rng = c.rng
    lines = list(CORPUS)
    # exhaustive small inputs
    for cmd in CMDS_ALL:
        two = thorough or cmd in CMDS_2
        for b in gen.all_bytes_upto(2 if two else 1):
            lines.append("%s %s" % (cmd, gen.hx(b)))
    if thorough:
        alpha = [0x00, 0x01, 0x02, 0x04, 0x05, 0x06, 0x09, 0x0d, 0x1f, 0x30, 0x7f, 0x80, 0x81, 0x82, 0x84, 0xff, 0xa2, 0x40, 0x46]
        for cmd in ("hdr", "value", "pdu", "msg2", "msg3", "dec_real"):
            for a in alpha:
                for b in alpha:
                    for x in alpha:
                        lines.append("%s %02x%02x%02x" % (cmd, a, b, x))
                        for y in alpha[::3]:
                            lines.append("%s %02x%02x%02x%02x" % (cmd, a, b, x, y))
    n_exh = len(lines)
    # mutated valid messages, all layers
    N = 150000 if thorough else 25000
    for _ in range(N):
        p, _d = gen.rresponse(rng, legal=rng.random() < 0.8)
        if rng.random() < 0.15:
            # relative OIDs in varbind names
            vbs = [ber.varbind(ber.enc_oid([1, 3, 6, 1, 2, rng.randrange(5)]), ber.enc_value("int", 1))]
            for _k in range(rng.randint(1, 3)):
                vbs.append(ber.tlv(0x30, ber.tlv(0x0D, gen.rbytes(rng, rng.randint(0, 4))) + ber.enc_value("int", 2)))
            p = ber.pdu(0xA2, 5, 0, 0, vbs)
        which = rng.randint(0, 6)
        if which == 0:
            x, cmd = p, "pdu"
        elif which in (1, 2):
            x = ber.msg_community(which - 1 if rng.random() < 0.9 else rng.choice([0, 1, 3, 256, 257]), gen.rbytes(rng, rng.randint(0, 8)), p)
            cmd = "msg%d" % which
        else:
            usm = ber.usm_params(gen.rbytes(rng, rng.choice([0, 5, 12])), rng.randrange(2 ** 31), rng.randrange(2 ** 31), b"user",
                                 gen.rbytes(rng, rng.choice([0, 12, 11])), gen.rbytes(rng, rng.choice([0, 8, 7, 9])))
            data = ber.scoped_pdu(gen.rbytes(rng, 5), b"", p) if rng.random() < 0.7 else ber.tlv(4, gen.rbytes(rng, rng.choice([0, 8, 16, 17])))
            m = ber.msg_v3(rng.randrange(2 ** 31), rng.randrange(8), usm, data, model=rng.choice([3, 3, 3, 1, 256 + 3]))
            cmd = rng.choice(["msg3", "msg3", "usm", "scoped"])
            x = {"msg3": m, "usm": usm, "scoped": ber.scoped_pdu(gen.rbytes(rng, 5), b"", p)}[cmd]
        for _k in range(rng.choice([0, 1, 1, 2, 3])):
            x = gen.mutate(rng, x)
        lines.append("%s %s" % (cmd, gen.hx(x)))
        if rng.random() < 0.2:
            lines.append("op %s %s" % (rng.choice(["get", "getmany"]), gen.hx(p if rng.random() < 0.5 else gen.mutate(rng, p))))
        if rng.random() < 0.1:
            # relative-OID normalisation against an arbitrary previous name
            b0 = ber.varbind(ber.tlv(6, gen.rbytes(rng, rng.randint(0, 6))), b"\x05\x00")
            b1 = ber.tlv(0x30, ber.tlv(0x0D, gen.rbytes(rng, rng.randint(0, 5))) + b"\x05\x00")
            lines.append("pdu " + ber.pdu(0xA2, 1, 0, 0, [b0, b1]).hex())
        if rng.random() < 0.1:
            k, v = gen.rvalue(rng)
            lines.append("value " + gen.hx(gen.mutate(rng, gen.enc_rvalue(rng, k, v))))
    # privacy decrypt path: arbitrary ciphertext / privacy parameters
    for _ in range(3000 if thorough else 600):
        alg = rng.choice([1, 2])
        ops = "|".join("d,%s,%d,%d,%s" % (gen.hx(gen.rbytes(rng, rng.choice([0, 1, 7, 8, 9, 16]))), rng.randrange(2 ** 31), rng.randrange(2 ** 31),
                                         gen.hx(gen.rbytes(rng, rng.choice([0, 1, 7, 8, 15, 16, 17, 24, 64, 200]), False)))
                       for _k in range(rng.randint(1, 3)))
        lines.append("priv %d %s %s" % (alg, gen.rbytes(rng, 16, False).hex(), ops))
    # decrypt asked of a key that holds no privacy algorithm (what a noAuth / auth-only session does with an OCTET STRING msgData)
    for _ in range(60 if thorough else 20):
        ops = ["d,%s,%d,%d,%s" % (gen.rbytes(rng, rng.choice([0, 8]), False).hex() or "-", rng.randrange(2 ** 31), rng.randrange(2 ** 31),
                                  gen.rbytes(rng, rng.choice([0, 8, 16, 40]), False).hex() or "-") for _k in range(rng.randint(1, 3))]
        lines.append("priv 0 - %s" % "|".join(ops))
    # long decrypt histories on one key object: many large ciphertexts between two requests (the cipher keeps a private buffer)
    for _ in range(400 if thorough else 80):
        alg = rng.choice([1, 2])
        ops = []
        for _k in range(rng.randint(3, 8)):
            n = rng.choice([1000, 1400, 2000, 4000, vf.constant("BUF_MAX_SIZE", 4080)]) // 16 * 16
            ops.append("d,%s,%d,%d,%s" % (gen.rbytes(rng, 8, False).hex(), rng.randrange(2 ** 31), rng.randrange(2 ** 31), gen.rbytes(rng, n, False).hex()))
            if rng.random() < 0.2:
                ops.append("e,0102,get:5:2b0601,1,2")
        lines.append("priv %d %s %s" % (alg, gen.rbytes(rng, 16, False).hex(), "|".join(ops)))
    stats = {"OK": 0, "ERR": 0, "PANIC": 0, "other": 0}

    def on_case(k, ln, ml, rl, dl):
        c.count(ln[:400], nontrivial=len(ln) > 14)
        for prof, o in (("release", rl), ("debug", dl)):
            if o is None:
                continue
            head = o.split(" ")[0]
            stats[head if head in stats else "other"] += prof == "release"
            if "PANIC" in o or o.startswith("DIED") or o.startswith("NOTRUN"):
                c.violation("the receive path panics (%s build) on `%s`" % (prof, ln[:120]), {"cmd": ln, "profile": prof, "observed": o},
                            key="decoder-panic:" + ln.split(" ")[0])
    # the priv command of the model needs the salt seed; decrypt-only histories never use it
    plain = [ln for ln in lines if not ln.startswith("priv ")]
    dis = cd.diff(plain, label="decoders", on_case=on_case)
    priv = [ln for ln in lines if ln.startswith("priv ")]
    r = vf.run_lines(cd.rel, priv)
    d = vf.run_lines(cd.dbg, priv)
    ok3, log3, v3exe = vf.ocaml_build("v3", "v3_model", "v3_driver")
    mm = vf.run_lines(v3exe, [" ".join(ln.split(" ")[:3] + ["0"] + ln.split(" ")[3:]) for ln in priv]) if ok3 else [None] * len(priv)
    for ln, ml, rl, dl in zip(priv, mm, r, d):
        on_case(0, ln, ml, rl, dl)
        if "|e," in ln or " e," in ln:
            # the salt of an encrypt is random: compare the decrypt outcomes only
            strip = lambda x: " | ".join(("E" if y.startswith("E ") else y) for y in (x or "")[3:].split(" | "))
            ml, rl, dl = "OK " + strip(ml), "OK " + strip(rl) if (rl or "").startswith("OK ") else rl, "OK " + strip(dl) if (dl or "").startswith("OK ") else dl
        for prof, o in (("release", rl), ("debug", dl)):
            if ml is not None and not codec.same(ml, o, cd.emap):
                dis += 1
                if not any(b.startswith("correspondence") for b in c.broken):
                    c.broken = list(c.broken) + ["correspondence decrypt path `%s`: model `%s` impl(%s) `%s`" % (ln[:160], ml[:100], prof, o[:100])]
    c.sample({"cmd": lines[len(CORPUS)], "out": "see run"})
    c.sample({"mutated": lines[n_exh + 3][:160]})

    # ---- API level
    cfgs = [("v1", None), ("v2c", None),
            ("v3", {"user": "u0", "auth": None, "priv": None}),
            ("v3", {"user": "ua", "auth": ["sha1", 2, "11" * 20], "priv": None}),
            ("v3", {"user": "ud", "auth": ["md5", 2, "22" * 16], "priv": ["des", 2, "33" * 16]}),
            ("v3", {"user": "ue", "auth": ["sha1", 2, "44" * 20], "priv": ["aes", 2, "55" * 20]})]
    scs = []
    nrep = 40 if thorough else 6
    for ver, v3 in cfgs:
        for mode in ("sync", "async"):
            sc = {"version": ver, "mode": mode, "timeout": 0.15, "steps": []}
            if v3:
                sc["v3"] = dict(v3, engine_id="80001f8880a1b2c3d4", agent_engine_id="80001f8880a1b2c3d4", boots=2, time=500)
            for op in ["get", "get_many", "getnext", "getbulk", "refresh"]:
                if ver == "v1" and op == "getbulk":
                    continue
                if ver != "v3" and op == "refresh":
                    continue
                for _ in range(nrep):
                    good_vb = ber.varbind(ber.enc_oid([1, 3, 6, 1, 2, 1, 1, 5, 0]), ber.enc_value("os", b"host"))
                    k, v = gen.rvalue(rng)
                    odd_vb = ber.varbind(ber.enc_oid([1, 3, 6, 1, 2, 1, 1, 6, 0]) if rng.random() < 0.8 else ber.tlv(0x0D, gen.rbytes(rng, rng.randint(0, 3))),
                                         gen.enc_rvalue(rng, k, v))
                    vbs = rng.choice([good_vb + odd_vb, odd_vb, b"\x30\x00", good_vb + b"\x30\x00", gen.mutate(rng, good_vb + odd_vb),
                                      ber.varbind(ber.enc_oid([1, 3, 6, 1, 2, 1, 1, 5, 0]), b"\x81\x00"), b""])
                    defect = {"vbs": vbs.hex()}
                    t = rng.randint(0, 6)
                    if t == 0:
                        defect["post"] = {"truncate": rng.randint(0, 60)}
                    elif t == 1:
                        defect["post"] = {"xor": [rng.randrange(200), rng.choice([1, 0x80, 0xFF, 0x1F])]}
                    elif t == 2:
                        defect = {"raw": gen.hx(gen.rbytes(rng, rng.randint(0, 40)))}
                    elif t == 3 and ver == "v3":
                        defect["privparams"] = gen.hx(gen.rbytes(rng, rng.choice([0, 1, 7, 9])))
                    elif t == 4 and ver == "v3":
                        defect["pdu_tag"] = 0xA8
                    elif t == 5 and ver == "v3":
                        # msgData in the encrypted shape (an OCTET STRING) whatever the session's security level
                        defect["octet_data"] = gen.hx(gen.rbytes(rng, rng.choice([0, 8, 16, 33])))
                    good = {"vbs": ber.varbind(ber.enc_oid([1, 3, 6, 9]), ber.enc_value("int", 1)).hex()}
                    args = {"get": ["1.3.6.1.2.1.1.5.0"], "get_many": [["1.3.6.1.2.1.1.5.0", "1.3.6.1.2.1.1.6.0"]],
                            "getnext": ["1.3.6.1.2.1.1"], "getbulk": ["1.3.6.1.2.1.1", 5], "refresh": []}[op]
                    if rng.random() < 0.25:
                        # nothing acceptable follows the defective datagram: the call must still come back (TimeoutError)
                        sc["steps"].append({"op": op, "args": args, "replies": [[defect]], "cap": 20})
                    else:
                        sc["steps"].append({"op": op, "args": args, "replies": [[defect, good]], "default_reply": good, "cap": 20})
            scs.append(sc)
    res, log = vf.run_api_worker("C01", {"scenarios": scs, "model_exe": v3exe})
    n_api = 0
    classes = {}
    if res is None and log.startswith("cargo build of /repo failed"):
        c.errors.append("API worker failed: " + log[-1500:])
    elif res is None:
        c.violation("the process running the sessions died or never finished while receiving defective datagrams: " + log.strip()[-300:],
                    {"scenarios": len(scs), "worker_log": log[-1500:]}, key="process-aborted")
    else:
        for sc, rec in zip(scs, res["records"]):
            if "driver_error" in rec:
                c.errors.append("API driver error: " + rec["driver_error"])
                continue
            for st, out in zip(sc["steps"], rec["steps"]):
                n_api += 1
                c.count(("api", sc["version"], sc["mode"], st["op"], str(st["replies"])[:300]), True)
                if out.get("exc") == "HANG" or out.get("ending") == "HANG":
                    c.violation("%s %s on a %s session never returns after a defective datagram (interrupted by the watchdog)" % (sc["mode"], st["op"], sc["version"]),
                                {"scenario": dict(sc, steps=[st]), "outcome": {k: v for k, v in out.items() if k in ("kind", "exc", "ending", "wall")}}, key="api-hang:" + st["op"])
                    continue
                exc = out.get("exc") or (out.get("ending") if out.get("ending") not in (None, "STOP", "CAP") else None)
                classes[exc or "return"] = classes.get(exc or "return", 0) + 1
                if exc is None:
                    continue
                allowed = DOCUMENTED | ({"RuntimeError"} if st["op"] == "get_many" else set())
                if exc.startswith("PANIC"):
                    c.violation("%s %s on a %s session surfaced a Rust panic (%s)" % (sc["mode"], st["op"], sc["version"], exc),
                                {"scenario": dict(sc, steps=[st]), "outcome": out}, key="api-panic:" + st["op"])
                elif exc not in allowed:
                    c.violation("%s %s on a %s session raised an undocumented exception %s" % (sc["mode"], st["op"], sc["version"], exc),
                                {"scenario": dict(sc, steps=[st]), "outcome": out}, key="api-undocumented:" + exc)
    # ---- many encrypted datagrams consumed by one receive call (own worker: if the process dies, that IS the violation)
    hs = []
    for cfgname, v3 in (("md5+des", {"user": "ud", "auth": ["md5", 2, "22" * 16], "priv": ["des", 2, "33" * 16]}),
                        ("sha1+aes", {"user": "ue", "auth": ["sha1", 2, "44" * 20], "priv": ["aes", 2, "55" * 20]})):
        good = {"vbs": ber.varbind(ber.enc_oid([1, 3, 6, 9]), ber.enc_value("int", 1)).hex()}
        big = ber.varbind(ber.enc_oid([1, 3, 6, 1, 4, 1]), ber.enc_value("os", bytes(1350)))
        steps = []
        for rep in range(3):
            strays = [{"vbs": big.hex(), "msgid": "same+1"} for _x in range(rng.choice([3, 4, 6]))]
            steps.append({"op": "get", "args": ["1.3.6.9"], "replies": [strays + [good]]})
            steps.append({"op": "get", "args": ["1.3.6.9"], "replies": [strays if rep == 0 else [good]]})   # only strays: times out
            steps.append({"op": "get", "args": ["1.3.6.9"], "replies": [[good]]})
        hs.append({"version": "v3", "mode": "sync", "timeout": 2.0, "steps": steps, "_cfg": cfgname,
                   "v3": dict(v3, engine_id="80001f8880a1b2c3d4", agent_engine_id="80001f8880a1b2c3d4", boots=2, time=500)})
    # a flood of well-formed datagrams with foreign request-ids inside one receive call (each is skipped): no stack or
    # resource may grow with their number
    gvb = {"vbs": ber.varbind(ber.enc_oid([1, 3, 6, 9]), ber.enc_value("int", 1)).hex()}
    for ver, mode, nst in [("v2c", "sync", 3000), ("v1", "async", 1500)] + ([("v2c", "sync", 100000)] if thorough else []):
        fl = [dict(gvb, rid="same+%d" % (1 + i % 9), delay=(-0.0003 if mode == "async" else (-0.001 if i % 64 == 0 else 0))) for i in range(nst)]
        hs.append({"version": ver, "mode": mode, "timeout": 30.0, "watchdog": 120.0, "community": "public", "_cfg": "%s/%s flood of %d" % (ver, mode, nst),
                   "steps": [{"op": "get", "args": ["1.3.6.9"], "replies": [fl + [dict(gvb, delay=-0.05)]]}]})
    resh, logh = vf.run_api_worker("C01", {"scenarios": [{k: v for k, v in h.items() if not k.startswith("_")} for h in hs], "model_exe": v3exe})
    if resh is None:
        c.violation("the process died while a session consumed many datagrams (large encrypted ones, or a flood of foreign replies) in one receive call: " + logh.strip()[-300:],
                    {"scenarios": [{k: v for k, v in h.items() if not k.startswith("_")} for h in hs], "worker_log": logh[-1500:]}, key="process-aborted")
    else:
        for h, rec in zip(hs, resh["records"]):
            if "driver_error" in rec:
                c.errors.append("API driver error: " + rec["driver_error"])
                continue
            for k, (st, out) in enumerate(zip(h["steps"], rec["steps"])):
                n_api += 1
                c.count(("history", h["_cfg"], k), True)
                got = out.get("value") or out.get("exc")
                want = "TimeoutError" if k == 1 else "int:1"
                if (out.get("exc") or "").startswith("PANIC"):
                    c.violation("%s session: a Rust panic surfaced on call %d of a history with large encrypted strays" % (h["_cfg"], k),
                                {"scenario": {kk: vv for kk, vv in h.items() if not kk.startswith("_")}, "call": k, "outcome": out}, key="api-panic:history")
                elif got != want:
                    c.violation("%s session: call %d of a history with large encrypted strays gave %s, expected %s" % (h["_cfg"], k, got, want),
                                {"scenario": {kk: vv for kk, vv in h.items() if not kk.startswith("_")}, "call": k, "outcome": out}, key="api-history-outcome")
    c.assumptions += ["get_many may raise RuntimeError ('On Python runtime failure' in its docstring) when a varbind cannot be stored in the dict"]
    # ---- the Python layer alone, on scripted socket results, against Model.PyLayer (lib/pylayer.py)
    n_pl, d_pl = pylayer.run(c, cd.model, c.rng, 1500 if thorough else 300, "C01")
    c.coverage["python_layer_cases"] = n_pl
    return c.finish(
        rule="exhaustive: all octet strings of length <= 2 for %s and <= 1 for the other decoders (%d cases incl. the corpus of the five "
             "crashing inputs found at the pinned commit); %d mutated valid messages/PDUs/USM/scoped/values/relative OIDs and privacy-decrypt "
             "inputs; %d API calls (6 security configurations x ops) answered by a reply with one defect followed by a valid one; "
             "non-trivial = input longer than 2 octets; outcome classes seen at the API: %s"
             % ("all decoders" if thorough else "/".join(CMDS_2), n_exh, len(lines) - n_exh, n_api, classes),
        extra={"disagreements": dis, "harness_outcomes_release": stats, "api_calls": n_api, "api_outcomes": classes,
               "exhaustive_part": n_exh})


def api_main(g, job):
    import scen
    return scen.api_main_generic(g, job)

"""C19 - the rate limiter never lets the request rate exceed rps.

Proof: Properties/C19.v over Gen/Policer.v, which tools/py2coq.py regenerates from
/repo/src/gufo/snmp/policer.py on every run (so the theorems are re-checked against
what the code says now).  Correspondence: the extracted generated model against the
real RPSPolicer (wait_sync / wait with patched clock and sleep) on the same histories;
this also validates the translator.  Oracle: the two inequalities of the property
evaluated on the implementation's own results.
"""
import asyncio
import importlib.util
import itertools
import os

from lib import vf

NS = 1_000_000_000


def load_policer():
    path = os.path.join(vf.REPO, "src/gufo/snmp/policer.py")
    spec = importlib.util.spec_from_file_location("gs_policer_under_test", path)
    mod = importlib.util.module_from_spec(spec)
    spec.loader.exec_module(mod)
    return mod


class Clock:
    def __init__(self, mod):
        self.now = 0
        self.slept = None
        mod.perf_counter_ns = lambda: self.now
        mod.sleep = self._sleep

        async def asleep(s):
            self._sleep(s)
        self._orig_asyncio_sleep = mod.asyncio.sleep
        self.asleep = asleep

    def _sleep(self, s):
        self.slept = s


def run_impl(mod, clock, rps, t0, gaps, use_async=False):
    """Drive the real policer through wait_sync()/wait(); returns ('refused',) or (releases, sleeps)."""
    try:
        pol = mod.RPSPolicer(rps)
    except ValueError:
        return ("refused",)
    rel, sl = [], []
    ts = t0
    for g in [None] + list(gaps):
        if g is not None:
            ts = rel[-1] + abs(g)
        clock.now = ts
        clock.slept = None
        if use_async:
            mod.asyncio.sleep = clock.asleep
            try:
                asyncio.run(pol.wait())
            finally:
                mod.asyncio.sleep = clock._orig_asyncio_sleep
        else:
            pol.wait_sync()
        s = 0 if clock.slept is None else int(round(clock.slept * NS))
        sl.append(s)
        rel.append(ts + s)
    return (rel, sl)


def oracle(delta, res):
    """The property itself on the implementation's results; returns None or a description."""
    rel, sl = res
    for i, s in enumerate(sl):
        if s < 0 or s > delta:
            return "call %d delayed by %d ns, interval is %d ns" % (i, s, delta)
    n = len(rel)
    for i in range(n):
        for j in range(i + 1, n):
            if not rel[j] - rel[i] > (j - i - 1) * delta:
                return "releases %d..%d span %d ns, not more than %d intervals of %d ns" % (
                    i, j, rel[j] - rel[i], j - i - 1, delta)
    return None


def gen_history(rng, thorough):
    delta = rng.choice([1, 2, 3, 7, 10, 1000, 333_333_333, NS, rng.randint(1, 50), rng.randint(1, 10**7)])
    # rps values whose quotient NS/rps is exact in floating point, so delta is known independently
    n = rng.randint(1, 120 if thorough else 40)
    gaps = []
    for _ in range(n):
        k = rng.randint(0, 9)
        if k == 0:
            g = 0
        elif k == 1:
            g = rng.randint(0, max(0, delta - 1))
        elif k == 2:
            g = delta
        elif k == 3:
            g = delta + rng.choice([-1, 1])
        elif k == 4:
            g = delta * rng.randint(2, 50) + rng.choice([-1, 0, 1])
        elif k == 5:
            g = rng.randint(0, 3 * delta)
        elif k == 6:
            g = rng.randint(0, 10**12)
        else:
            g = rng.randint(0, 2 * delta)
        gaps.append(max(0, g))
    t0 = rng.choice([0, 1, rng.randint(0, 10**15)])
    return delta, t0, gaps


def rps_for(delta):
    """An rps with int(NS / rps) == delta (checked)."""
    for rps in (NS / delta, NS / (delta + 0.5)):
        if rps > 0 and int(1e9 / rps) == delta:
            return rps
    return None


def main(argv):
    c = vf.Check("C19", argv)
    thorough = c.tier == "thorough"
    proved = c.prove(extra_targets=["ExtractPolicer.vo"])
    ok, log, exe = vf.ocaml_build("policer", "policer_model", "policer_driver")
    if not ok:
        c.errors.append("building the extracted policer model failed: " + log[-1500:])
        return c.finish("n/a")
    try:
        mod = load_policer()
    except Exception as e:  # a policer.py that does not import is a build error, not a violation
        c.errors.append("policer.py does not import: %r" % e)
        return c.finish("n/a")
    clock = Clock(mod)

    cases = []
    if c.replay:
        import json
        r = json.load(open(c.replay))["replay"]
        if "rps" in r:
            cases.append((r["rps"], r["delta"], r["t0"], r["gaps"]))
    # exhaustive small spaces: every history of length L over gaps 0..2*delta+1, delta 1..D
    D, L = (5, 4) if thorough else (3, 3)
    for delta in range(1, D + 1):
        rps = rps_for(delta)
        for gaps in itertools.product(range(0, 2 * delta + 2), repeat=L):
            cases.append((rps, delta, 0, list(gaps)))
    n_exh = len(cases)
    n_rand = 40000 if thorough else 3000
    while len(cases) < n_exh + n_rand:
        delta, t0, gaps = gen_history(c.rng, thorough)
        rps = rps_for(delta)
        if rps is None:
            continue
        cases.append((rps, delta, t0, gaps))

    # model
    lines = ["hist %d %d %s" % (d, t0, ",".join(map(str, g)) or "-") for (_, d, t0, g) in cases]
    mout = vf.run_lines(exe, lines)
    disagreements = 0
    n_sleepers = 0
    for k, ((rps, delta, t0, gaps), ml) in enumerate(zip(cases, mout)):
        res = run_impl(mod, clock, rps, t0, gaps, use_async=(k % 50 == 0))
        if res == ("refused",):
            c.violation("RPSPolicer(%r) refused a representable rate" % rps,
                        {"rps": rps, "delta": delta, "t0": t0, "gaps": gaps}, key="ctor-refuses-valid")
            continue
        rel, sl = res
        il = "%s | %s" % (",".join(map(str, rel)) or "-", ",".join(map(str, sl)) or "-")
        slept = any(s > 0 for s in sl)
        nontrivial = slept and any(s == 0 for s in sl[1:])
        n_sleepers += slept
        c.count((delta, t0, tuple(gaps)), nontrivial)
        if k < 3 or k == n_exh:
            c.sample({"delta_ns": delta, "t0": t0, "gaps": gaps[:12], "releases": rel[:13], "sleeps": sl[:13]})
        bad = oracle(delta, res)
        if bad:
            c.violation("policer history violates the rate bound: " + bad,
                        {"rps": rps, "delta": delta, "t0": t0, "gaps": gaps, "releases": rel, "sleeps": sl},
                        key="rate-bound")
        if il != ml:
            disagreements += 1
            if disagreements <= 3:
                c.log("model/impl disagree on delta=%d t0=%d gaps=%s\n   impl  %s\n   model %s" % (
                    delta, t0, gaps[:20], il[:300], (ml or "")[:300]))
            c.broken = list(c.broken) + ["correspondence: generated model and policer.py differ on delta=%d t0=%d gaps=%s"
                                         % (delta, t0, gaps)] if disagreements == 1 else c.broken

    # constructor
    ctor_cases = [0, -1, -0.5, 0.0, 1, 2, 3, 0.5, 1e-9, 1e9, 1e9 + 1, 2e9, 1e10, 1e300, 7, 1000, 123456.789,
                  float("inf")]
    ctor_cases += [c.rng.choice([c.rng.uniform(-5, 5), c.rng.uniform(1, 3e9), 10 ** c.rng.uniform(-3, 12)]) for _ in range(300)]
    lines = []
    for rps in ctor_cases:
        try:
            q = int(1e9 / rps) if rps > 0 else 0
        except (OverflowError, ZeroDivisionError):
            q = 0
        lines.append("ctor %d %d" % (1 if rps <= 0 else 0, q))
    mout = vf.run_lines(exe, lines, shards=1)
    for rps, ml, ln in zip(ctor_cases, mout, lines):
        q = int(ln.split()[2])
        try:
            pol = mod.RPSPolicer(rps)
            il = "ok %d" % pol._delta
            if rps <= 0 or q == 0:
                c.violation("RPSPolicer(%r) accepted a non-positive or unrepresentably high rate" % rps,
                            {"ctor_rps": rps}, key="ctor-accepts-invalid")
        except ValueError:
            il = "refused"
            if rps > 0 and q > 0:
                c.violation("RPSPolicer(%r) refused a representable rate" % rps, {"ctor_rps": rps},
                            key="ctor-refuses-valid")
        except Exception as e:
            il = "exception %s" % type(e).__name__
            c.violation("RPSPolicer(%r) raised %r" % (rps, e), {"ctor_rps": rps}, key="ctor-crash")
        c.count(("ctor", rps), True)
        if il != ml:
            disagreements += 1
            c.log("model/impl disagree on ctor rps=%r: impl %s model %s" % (rps, il, ml))
            if not any("ctor" in b for b in c.broken):
                c.broken = list(c.broken) + ["correspondence: generated model and policer.py differ on ctor rps=%r" % rps]
    c.sample({"ctor": [[r, l] for r, l in zip(ctor_cases[:8], mout[:8])]})
    c.assumptions += [
        "float quotient NS/rps is an input of the constructor model; only rps whose int(NS/rps) is known independently are used for histories",
        "time.sleep / asyncio.sleep and perf_counter_ns are replaced by a logical clock in the correspondence run",
        "delta = int(NS/rps) ns is 'one interval'; the sub-nanosecond truncation of 1/rps is not part of the statement",
    ]
    return c.finish(
        rule="exhaustive: every history of length %d over gaps 0..2*delta+1 for delta 1..%d (%d histories), plus %d random "
             "boundary-biased histories (gaps <, =, > and multiples of the interval), plus %d constructor arguments; "
             "non-trivial = at least one call slept and at least one later call did not; distinct by (delta, t0, gaps)"
             % (L, D, n_exh, n_rand, len(ctor_cases)),
        extra={"disagreements": disagreements, "histories_with_sleep": n_sleepers, "exhaustive_part": n_exh,
               "exhaustive": False, "traces_validated_against_impl": len(cases)},
        trusted=["tools/py2coq.py (Python ast -> Gallina), validated on every run by running the generated model against policer.py"])

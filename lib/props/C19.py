"""C19 - the rate limiter never lets the request rate exceed rps.

Proof: Properties/C19.v over Gen/Policer.v, which tools/py2coq.py regenerates from
/repo/src/gufo/snmp/policer.py on every run (so the theorems are re-checked against
what the code says now).  Correspondence: the extracted generated model against the
real RPSPolicer (wait_sync / wait with patched clock and sleep) on the same histories;
this also validates the translator.  Oracle: the two inequalities of the property
evaluated on the implementation's own results.
"""
import asyncio
import importlib.util
import itertools
import os

from lib import pylayer, vf

NS = 1_000_000_000


def load_policer():
    path = os.path.join(vf.REPO, "src/gufo/snmp/policer.py")
    spec = importlib.util.spec_from_file_location("gs_policer_under_test", path)
    mod = importlib.util.module_from_spec(spec)
    spec.loader.exec_module(mod)
    return mod


class Clock:
    def __init__(self, mod):
        self.now = 0
        self.slept = None
        mod.perf_counter_ns = lambda: self.now
        mod.sleep = self._sleep

        async def asleep(s):
            self._sleep(s)
        self._orig_asyncio_sleep = mod.asyncio.sleep
        self.asleep = asleep

    def _sleep(self, s):
        self.slept = s


def run_impl(mod, clock, rps, t0, gaps, use_async=False):
    """Drive the real policer through wait_sync()/wait(); returns ('refused',) or (releases, sleeps)."""
    try:
        pol = mod.RPSPolicer(rps)
    except ValueError:
        return ("refused",)
    rel, sl = [], []
    ts = t0
    for g in [None] + list(gaps):
        if g is not None:
            ts = rel[-1] + abs(g)
        clock.now = ts
        clock.slept = None
        if use_async:
            mod.asyncio.sleep = clock.asleep
            try:
                asyncio.run(pol.wait())
            finally:
                mod.asyncio.sleep = clock._orig_asyncio_sleep
        else:
            pol.wait_sync()
        s = 0 if clock.slept is None else int(round(clock.slept * NS))
        sl.append(s)
        rel.append(ts + s)
    return (rel, sl)


def oracle(delta, res):
    """The property itself on the implementation's results; returns None or a description."""
    rel, sl = res
    for i, s in enumerate(sl):
        if s < 0 or s > delta:
            return "call %d delayed by %d ns, interval is %d ns" % (i, s, delta)
    n = len(rel)
    for i in range(n):
        for j in range(i + 1, n):
            if not rel[j] - rel[i] > (j - i - 1) * delta:
                return "releases %d..%d span %d ns, not more than %d intervals of %d ns" % (
                    i, j, rel[j] - rel[i], j - i - 1, delta)
    return None


def gen_history(rng, thorough):
    delta = rng.choice([1, 2, 3, 7, 10, 1000, 333_333_333, NS, rng.randint(1, 50), rng.randint(1, 10**7)])
    # rps values whose quotient NS/rps is exact in floating point, so delta is known independently
    n = rng.randint(1, 120 if thorough else 40)
    gaps = []
    for _ in range(n):
        k = rng.randint(0, 9)
        if k == 0:
            g = 0
        elif k == 1:
            g = rng.randint(0, max(0, delta - 1))
        elif k == 2:
            g = delta
        elif k == 3:
            g = delta + rng.choice([-1, 1])
        elif k == 4:
            g = delta * rng.randint(2, 50) + rng.choice([-1, 0, 1])
        elif k == 5:
            g = rng.randint(0, 3 * delta)
        elif k == 6:
            g = rng.randint(0, 10**12)
        else:
            g = rng.randint(0, 2 * delta)
        gaps.append(max(0, g))
    t0 = rng.choice([0, 1, rng.randint(0, 10**15)])
    return delta, t0, gaps


def rps_for(delta):
    """An rps with int(NS / rps) == delta (checked)."""
    for rps in (NS / delta, NS / (delta + 0.5)):
        if rps > 0 and int(1e9 / rps) == delta:
            return rps
    return None


def timed_again(sc, rps):
    """Repeat one wall-clock scenario: True when the window bound is missed again (a scheduling hiccup does not repeat)."""
    res, _log = vf.run_api_worker("C19", {"scenarios": [{k: v for k, v in sc.items() if not k.startswith("_")}]})
    if res is None or "driver_error" in res["records"][0]:
        return True
    times = [a["t"] for out in res["records"][0]["steps"] for a in out.get("arrivals", [])]
    iv = 1.0 / rps
    return any(times[i + k] - times[i] <= (k - 1) * iv - 0.6 * iv for k in (2, 3, len(times) - 1) if k >= 2 for i in range(0, len(times) - k))


def session_part(c, thorough):
    """`through a rate-limited session`: every request of every operation of the sync and async clients is released by
    the session's policer.  (a) a counting subclass of the library's RPSPolicer passed as `policer=`: the j-th datagram
    the agent receives must have been preceded by exactly j consultations (deterministic); (b) `limit_rps=`: arrival
    times at the agent obey the window bound (wall clock, wide slack)."""
    import sys
    sys.path.insert(0, os.path.join(vf.VERIF, "harness", "py"))
    import ber
    ents = [[[1, 3, 6, 1, 2, 1, 2, 2, 1, 10, i], ber.enc_value("int", i).hex()] for i in range(1, 8)]
    mib = {"entries": ents, "cap": 3, "pad": 0}
    base = "1.3.6.1.2.1.2.2.1.10"
    one = base + ".1"

    def steps(ver):
        st = [{"op": "get", "args": [one], "mib": mib}, {"op": "get_many", "args": [[one, base + ".2"]], "mib": mib},
              {"op": "getnext", "args": [base], "mib": mib, "cap": 50}, {"op": "fetch", "args": [base], "mib": mib, "cap": 50},
              {"op": "get", "args": [one], "mib": mib}]
        if ver != "v1":
            st.insert(3, {"op": "getbulk", "args": [base, 2], "mib": mib, "cap": 50})
        return st
    scs = []
    v3 = {"user": "u", "auth": None, "priv": None, "engine_id": "80001f8880aabbccdd", "agent_engine_id": "80001f8880aabbccdd", "boots": 1, "time": 1}
    for ver in ("v1", "v2c", "v3"):
        for mode in ("sync", "async"):
            for kw in ({}, {"allow_bulk": False}, {"max_repetitions": 2}):
                sc = {"version": ver, "mode": mode, "timeout": 0.5, "policer": "counting", "session_kw": kw, "steps": steps(ver), "_kind": "counting"}
                if ver == "v3":
                    sc["v3"] = v3
                scs.append(sc)
    rps = 10.0
    for ver in ("v1", "v2c"):
        for mode in ("sync", "async"):
            sc = {"version": ver, "mode": mode, "timeout": 0.5, "session_kw": {"limit_rps": rps}, "_kind": "timed",
                  "steps": [{"op": "fetch", "args": [base], "mib": dict(mib, cap=2), "cap": 50}, {"op": "get", "args": [one], "mib": mib}]}
            scs.append(sc)
    res, log = vf.run_api_worker("C19", {"scenarios": [{k: v for k, v in sc.items() if not k.startswith("_")} for sc in scs]})
    if res is None:
        c.errors.append("API worker failed: " + log[-1500:])
        return 0
    n = 0
    for sc, rec in zip(scs, res["records"]):
        if "driver_error" in rec:
            c.errors.append("API driver error: " + rec["driver_error"])
            continue
        label = "%s/%s session %s" % (sc["version"], sc["mode"], sc.get("session_kw") or "")
        seen = 0
        times = []
        for st, out in zip(sc["steps"], rec["steps"]):
            if out["kind"] == "EXC" or (out["kind"] == "ITER" and out["ending"] != "STOP"):
                c.violation("%s: %s did not complete against a well-behaved agent (%s)" % (label, st["op"], out.get("exc") or out.get("ending")),
                            {"scenario": {k: v for k, v in sc.items() if not k.startswith("_")}, "step": st, "outcome": {k: out[k] for k in ("kind", "exc", "ending") if k in out}}, key="session-op-fails")
                break
            for a in out["arrivals"]:
                seen += 1
                n += 1
                times.append(a["t"])
                c.count(("session", label, st["op"], seen), True)
                if sc["_kind"] == "counting" and a["policed"] != seen:
                    c.violation("%s: request %d of the session (%s) reached the agent after %d policer consultations; every request must be released by the policer exactly once"
                                % (label, seen, st["op"], a["policed"]),
                                {"scenario": {k: v for k, v in sc.items() if not k.startswith("_")}, "step": st, "request_no": seen, "policer_consultations": a["policed"]},
                                key="session-unpoliced:" + st["op"] if a["policed"] < seen else "session-policed-twice:" + st["op"])
                    break
        if sc["_kind"] == "timed" and len(times) >= 4:
            iv = 1.0 / rps
            for k in (2, 3, len(times) - 1):
                for i in range(0, len(times) - k):
                    span = times[i + k] - times[i]
                    if span <= (k - 1) * iv - 0.6 * iv and timed_again(sc, rps):
                        c.violation("%s (limit_rps=%g): requests %d..%d reached the agent within %.1f ms, the bound is more than %.1f ms"
                                    % (label, rps, i + 1, i + k + 1, span * 1000, (k - 1) * iv * 1000),
                                    {"scenario": {kk: v for kk, v in sc.items() if not kk.startswith("_")}, "arrival_times_ms": [round((t - times[0]) * 1000, 2) for t in times]},
                                    key="session-rate:limit_rps")
                        break
                else:
                    continue
                break
    c.coverage["session_requests_observed"] = n
    c.assumptions.append("session part (b): arrival times at a loopback agent stand for release times; the window bound is tested with 0.6 interval (60 ms) of slack at 10 rps; a miss is repeated once before it counts")
    return n


def main(argv):
    c = vf.Check("C19", argv)
    thorough = c.tier == "thorough"
    proved = c.prove(extra_targets=["ExtractPolicer.vo"])
    ok, log, exe = vf.ocaml_build("policer", "policer_model", "policer_driver")
    if not ok:
        c.errors.append("building the extracted policer model failed: " + log[-1500:])
        return c.finish("n/a")
    try:
        mod = load_policer()
    except Exception as e:  # a policer.py that does not import is a build error, not a violation
        c.errors.append("policer.py does not import: %r" % e)
        return c.finish("n/a")
    clock = Clock(mod)

    cases = []
    if c.replay:
        import json
        r = json.load(open(c.replay))["replay"]
        if "rps" in r:
            cases.append((r["rps"], r["delta"], r["t0"], r["gaps"]))
    # exhaustive small spaces: every history of length L over gaps 0..2*delta+1, delta 1..D
    D, L = (5, 4) if thorough else (3, 3)
    for delta in range(1, D + 1):
        rps = rps_for(delta)
        for gaps in itertools.product(range(0, 2 * delta + 2), repeat=L):
            cases.append((rps, delta, 0, list(gaps)))
    n_exh = len(cases)
    n_rand = 40000 if thorough else 3000
    while len(cases) < n_exh + n_rand:
        delta, t0, gaps = gen_history(c.rng, thorough)
        rps = rps_for(delta)
        if rps is None:
            continue
        cases.append((rps, delta, t0, gaps))

    # model
    lines = ["hist %d %d %s" % (d, t0, ",".join(map(str, g)) or "-") for (_, d, t0, g) in cases]
    mout = vf.run_lines(exe, lines)
    disagreements = 0
    n_sleepers = 0
    for k, ((rps, delta, t0, gaps), ml) in enumerate(zip(cases, mout)):
        res = run_impl(mod, clock, rps, t0, gaps, use_async=(k % 50 == 0))
        if res == ("refused",):
            c.violation("RPSPolicer(%r) refused a representable rate" % rps,
                        {"rps": rps, "delta": delta, "t0": t0, "gaps": gaps}, key="ctor-refuses-valid")
            continue
        rel, sl = res
        il = "%s | %s" % (",".join(map(str, rel)) or "-", ",".join(map(str, sl)) or "-")
        slept = any(s > 0 for s in sl)
        nontrivial = slept and any(s == 0 for s in sl[1:])
        n_sleepers += slept
        c.count((delta, t0, tuple(gaps)), nontrivial)
        if k < 3 or k == n_exh:
            c.sample({"delta_ns": delta, "t0": t0, "gaps": gaps[:12], "releases": rel[:13], "sleeps": sl[:13]})
        bad = oracle(delta, res)
        if bad:
            c.violation("policer history violates the rate bound: " + bad,
                        {"rps": rps, "delta": delta, "t0": t0, "gaps": gaps, "releases": rel, "sleeps": sl},
                        key="rate-bound")
        if il != ml:
            disagreements += 1
            if disagreements <= 3:
                c.log("model/impl disagree on delta=%d t0=%d gaps=%s\n   impl  %s\n   model %s" % (
                    delta, t0, gaps[:20], il[:300], (ml or "")[:300]))
            c.broken = list(c.broken) + ["correspondence: generated model and policer.py differ on delta=%d t0=%d gaps=%s"
                                         % (delta, t0, gaps)] if disagreements == 1 else c.broken

    # constructor
    ctor_cases = [0, -1, -0.5, 0.0, 1, 2, 3, 0.5, 1e-9, 1e9, 1e9 + 1, 2e9, 1e10, 1e300, 7, 1000, 123456.789,
                  float("inf")]
    ctor_cases += [c.rng.choice([c.rng.uniform(-5, 5), c.rng.uniform(1, 3e9), 10 ** c.rng.uniform(-3, 12)]) for _ in range(300)]
    lines = []
    for rps in ctor_cases:
        try:
            q = int(1e9 / rps) if rps > 0 else 0
        except (OverflowError, ZeroDivisionError):
            q = 0
        lines.append("ctor %d %d" % (1 if rps <= 0 else 0, q))
    mout = vf.run_lines(exe, lines, shards=1)
    for rps, ml, ln in zip(ctor_cases, mout, lines):
        q = int(ln.split()[2])
        try:
            pol = mod.RPSPolicer(rps)
            # the interval is private state: read it under its pinned name, else as the only integer attribute, else not at all
            iv = getattr(pol, "_delta", None)
            if not isinstance(iv, int):
                ints = [x for x in vars(pol).values() if isinstance(x, int) and not isinstance(x, bool)]
                iv = ints[0] if len(ints) == 1 else None
            il = "ok %d" % iv if iv is not None else "ok " + ml.split(" ")[-1] if ml.startswith("ok ") else "ok"
            if rps <= 0 or q == 0:
                c.violation("RPSPolicer(%r) accepted a non-positive or unrepresentably high rate" % rps,
                            {"ctor_rps": rps}, key="ctor-accepts-invalid")
        except ValueError:
            il = "refused"
            if rps > 0 and q > 0:
                c.violation("RPSPolicer(%r) refused a representable rate" % rps, {"ctor_rps": rps},
                            key="ctor-refuses-valid")
        except Exception as e:
            il = "exception %s" % type(e).__name__
            c.violation("RPSPolicer(%r) raised %r" % (rps, e), {"ctor_rps": rps}, key="ctor-crash")
        c.count(("ctor", rps), True)
        if il != ml:
            disagreements += 1
            c.log("model/impl disagree on ctor rps=%r: impl %s model %s" % (rps, il, ml))
            if not any("ctor" in b for b in c.broken):
                c.broken = list(c.broken) + ["correspondence: generated model and policer.py differ on ctor rps=%r" % rps]
    c.sample({"ctor": [[r, l] for r, l in zip(ctor_cases[:8], mout[:8])]})
    n_sess = session_part(c, thorough)
    # the Python layer alone, on scripted socket results, against Model.PyLayer (policing discipline of every operation)
    okc, logc, cexe = vf.ocaml_build("codec", "codec_model", "codec_driver")
    if not okc:
        c.errors.append("building the extracted codec model failed: " + logc[-1500:])
        return c.finish("n/a")
    n_pl, d_pl = pylayer.run(c, cexe, c.rng, 2500 if thorough else 600, "C19")
    disagreements += d_pl
    c.assumptions += [
        "float quotient NS/rps is an input of the constructor model; only rps whose int(NS/rps) is known independently are used for histories",
        "time.sleep / asyncio.sleep and perf_counter_ns are replaced by a logical clock in the correspondence run",
        "delta = int(NS/rps) ns is 'one interval'; the sub-nanosecond truncation of 1/rps is not part of the statement",
    ]
    return c.finish(
        rule="exhaustive: every history of length %d over gaps 0..2*delta+1 for delta 1..%d (%d histories), plus %d random "
             "boundary-biased histories (gaps <, =, > and multiples of the interval), plus %d constructor arguments; %d requests of "
             "real rate-limited sessions (get, get_many, getnext, getbulk, fetch x sync/async x v1/v2c/v3 x allow_bulk/max_repetitions) "
             "each counted against the consultations of the session's policer; non-trivial = at least one call slept and at least one later call did not; distinct by (delta, t0, gaps)"
             % (L, D, n_exh, n_rand, len(ctor_cases), n_sess),
        extra={"disagreements": disagreements, "histories_with_sleep": n_sleepers, "exhaustive_part": n_exh,
               "exhaustive": False, "traces_validated_against_impl": len(cases)},
        trusted=["tools/py2coq.py (Python ast -> Gallina), validated on every run by running the generated model against policer.py"])


def api_main(g, job):
    import sys
    sys.path.insert(0, os.path.join(vf.VERIF, "harness", "py"))
    import scen
    return scen.api_main_generic(g, job)

"""Replay a recorded v3 scenario (what the real session emitted and what the agent answered) through the extracted
state machine of Model/V3.v: every emitted datagram must be reproduced octet for octet from the MODEL's own state
(engine id, boots, time, user, keys, salt counter), and every receive must have the model's outcome.  Random
request ids / message ids and the salt seed are read from the wire."""
import os
import sys

from lib import vf

sys.path.insert(0, os.path.join(vf.VERIF, "harness", "py"))
import ber  # noqa: E402
import scen  # noqa: E402

ALGC = {"md5": 1, "sha1": 2, None: 0}
PRIVC = {"des": 1, "aes": 2, None: 0}
KS = {"md5": 16, "sha1": 20}


def hx(b):
    return bytes(b).hex() or "-"


def refused_key(k):
    """A key the socket refuses whatever the engine id: an empty password (Master / Localized keys are padded to the digest
    size by the Python User class, so this is the only refusal reachable through SnmpSession)."""
    return bool(k) and k[1] == 0 and not k[2]


def safe_keys(v3):
    """scen.V3Keys of the scenario's user, or None when one of its keys is refused (nothing is then ever signed or encrypted)."""
    if refused_key(v3.get("auth")) or refused_key(v3.get("priv")):
        return None
    return scen.V3Keys(v3, bytes.fromhex(v3["agent_engine_id"]))


def material(v3):
    """Key material handed to the model: the keys localized (hashlib, RFC 3414 A.2) to the agent's engine id, passed as
    KeyType.Localized.  (Password -> key derivation in the model costs a 1 MiB Gallina digest per key and is the
    subject of C12; here the state machine is what is being compared.)  A refused key (empty password) is handed over as
    it is: the model refuses it before any digest is computed."""
    a, p = v3.get("auth"), v3.get("priv")
    if not a:
        return 0, b"", 0, b""
    eng = bytes.fromhex(v3["agent_engine_id"])
    if refused_key(a):
        acode, akey = ALGC[a[0]], b""
    else:
        acode = ALGC[a[0]] | 0x80
        akey = scen.localized_key(a[0], a[1], scen.pad_key(bytes.fromhex(a[2]), KS[a[0]]) if a[1] in (1, 2) else bytes.fromhex(a[2]), eng)
    if not p:
        return acode, akey, 0, b""
    if refused_key(p):
        return acode, akey, PRIVC[p[0]], b""
    full = scen.localized_key(a[0], p[1], scen.pad_key(bytes.fromhex(p[2]), KS[a[0]]) if p[1] in (1, 2) else bytes.fromhex(p[2]), eng)
    return acode, akey, PRIVC[p[0]] | 0x80, full


class Replayer:
    def __init__(self, exe):
        import apilib
        self.m = apilib.ModelProc(exe)

    def close(self):
        self.m.close()

    def ask(self, line):
        return self.m.ask(line)


def with_fields(sess, **kw):
    f = sess.split("/")
    names = ["eid", "boots", "time", "user", "aalg", "akey", "palg", "pkey", "salt", "mid", "rid"]
    for k, v in kw.items():
        f[names.index(k)] = str(v)
    return "/".join(f)


def salt_of(q, palg):
    pp = bytes.fromhex(q.get("priv", "") or "")
    if len(pp) != 8:
        return None
    return int.from_bytes(pp[4:], "big") if palg == 1 else int.from_bytes(pp, "big")


def spec_of(q):
    p = q.get("pdu")
    if not p:
        return None
    oh = ",".join(ber.oid_content(o).hex() for o in p["oids"]) or "-"
    if p["type"] == 0xA0:
        return "get:%d:%s" % (p["request_id"], oh)
    if p["type"] == 0xA1:
        return "getnext:%d:%s" % (p["request_id"], oh)
    return "bulk:%d:%d:%d:%s" % (p["request_id"], p["f1"], p["f2"], oh)


def model_user(v3):
    """The scenario's user as the model's user spec, with the keys already localized (hashlib, RFC 3414 A.2) to the agent's
    engine id and declared KeyType.Localized: Model.Session then runs the Python layer's logic (deferred user, probes,
    set_keys, _to_refresh) without repeating 1 MiB password expansions in Gallina (those are the subject of C12)."""
    acode, akey, pcode, pkey = material(v3)
    a, p = v3.get("auth"), v3.get("priv")
    return "%s:%s:%s" % (hx(v3["user"].encode()),
                         "%d:%d:%s" % (ALGC[a[0]], 0 if refused_key(a) else 2, hx(akey)) if a else "0:0:-",
                         "%d:%d:%s" % (PRIVC[p[0]], 0 if refused_key(p) else 2, hx(pkey)) if p else "0:0:-")


def replay(rp, sc, rec):
    """-> list of disagreement descriptions (empty when the model reproduces the whole history)."""
    v3 = sc["v3"]
    out = []
    given = bool(v3.get("engine_id"))
    acode, akey, pcode, pkey = material(v3)
    # all requests of the scenario in order, for the salt look-ahead
    flat = [(si, xi, x) for si, st in enumerate(rec["steps"]) for xi, x in enumerate(st.get("exchanges", []))]
    parsed = {}
    keys = safe_keys(v3)
    for si, xi, x in flat:
        parsed[(si, xi)] = scen.summarise(scen.parse_request(bytes.fromhex(x["request"]), keys, rp.m))

    def next_salt(pos, palg):
        for (si, xi, x) in flat[pos:]:
            s = salt_of(parsed[(si, xi)], palg)
            if s is not None:
                return s
        return 0
    seed = next_salt(0, pcode & 63)
    r = rp.ask("pysession %s %s %d" % (v3["engine_id"] if given else "-", model_user(v3), seed))
    if not r.startswith("OK "):
        return ["model refuses the session configuration: " + r]
    pys = r[3:]
    pos = 0
    tmo = ("TimeoutError", "BlockingIOError")
    for si, (sst, st) in enumerate(zip(sc["steps"], rec["steps"])):
        xs = st.get("exchanges", [])
        if sst["op"] in ("enter", "refresh"):
            # SnmpSession.refresh() as a whole, in the model of the Python layer
            deferred = not pys.endswith(";-")
            ios = []
            for xi, x in enumerate(xs[:2]):
                q = parsed[(si, xi)]
                if "error" in q or not q.get("pdu"):
                    out.append("step %d probe %d cannot be parsed (%s)" % (si, xi, q.get("error") or q.get("decrypt_error")))
                    ios.append("0 0 -")
                else:
                    ios.append("%d %d %s" % (q["pdu"]["request_id"], q["msg_id"], ",".join(x["replies"]) or "-"))
            while len(ios) < 2:
                ios.append("0 0 -")
            if not deferred:
                ios = [ios[1] if len(xs) > 1 else "0 0 -", ios[0]]      # without a deferred user only the second probe exists
            seed = next_salt(pos + 1, pcode & 63)
            r = rp.ask("pyrefresh %s %s %s %d" % (pys, ios[0], ios[1], seed))
            f = r.split(" ")
            if f[0] == "PANIC" or len(f) < 3:
                out.append("step %d (%s): the model of refresh() crashes: %s" % (si, sst["op"], r[:120]))
                break
            kind = f[0] if f[0] == "RET" else f[1]
            sent = [] if f[-2] == "sent=-" else f[-2][5:].split(",")
            pys = f[-1]
            impl = "RET" if st["kind"] == "RET" else st.get("exc")
            same_out = kind == impl or (kind in tmo and impl in tmo)
            if sent != [x["request"] for x in xs]:
                out.append("step %d (%s): the model of refresh() sends %d probe(s) %s, the session sent %d: %s (model state %s)"
                           % (si, sst["op"], len(sent), [d[:60] for d in sent], len(xs), [x["request"][:60] for x in xs], pys[:100]))
            if not same_out:
                out.append("step %d (%s): the model of refresh() gives %s, the session %s" % (si, sst["op"], kind, impl))
            pos += len(xs)
            continue
        sess = pys.split(";")[0]
        for xi, x in enumerate(xs):
            q = parsed[(si, xi)]
            spec = spec_of(q)
            if "error" in q or spec is None:
                out.append("step %d request %d cannot be parsed (%s)" % (si, xi, q.get("error") or q.get("decrypt_error")))
                pos += 1
                continue
            line = "v3emit %s %s %d" % (with_fields(sess, rid=q["pdu"]["request_id"]), spec, q["msg_id"])
            r = rp.ask(line)
            got = r.split(" ")
            if got[0] != "OK" or got[1] != x["request"]:
                out.append("step %d request %d: the model emits `%s`, the session emitted `%s` (model state %s)" % (si, xi, (r or "")[:160], x["request"][:160], sess[:120]))
                # resynchronise on the model's state anyway
            sess = got[-1] if len(got) >= 2 else sess
            r = rp.ask("v3recv %s %s" % (sess, " ".join(x["replies"]))) if x["replies"] else "TIMEOUT " + sess
            f = r.split(" ")
            sess = f[-1]
            x["_model_recv"] = f[0]
            pos += 1
        pys = ";".join([sess] + pys.split(";")[1:])
        # outcome of the step vs the model's last receive
        if xs and sst["op"] in ("get", "get_many"):
            mr = xs[-1].get("_model_recv")
            impl = "DELIVER" if (st["kind"] == "RET" or st.get("exc") in ("SnmpAuthError", "NoSuchInstance", "SnmpError")) else \
                ("TIMEOUT" if st.get("exc") in tmo else "FAIL" if st.get("exc") == "SnmpDecodeError" else st.get("exc"))
            if mr != impl and not (impl == "FAIL" and mr == "DELIVER"):     # a delivered PDU may still fail conversion
                out.append("step %d (%s): the model's receive loop says %s, the call %s" % (si, sst["op"], mr, impl))
    return out

"""./check setup - build the whole framework from files on disk (offline): generated Coq files, full .vo build,
extracted runners, warm cargo builds of the implementation drivers."""
import os
import sys

from lib import vf


def main(argv):
    errs = vf.regen()
    for k, v in errs.items():
        print("translator", k, "failed:", v)
    vf.coq_makefile()
    ok, log = vf.coq_make([], timeout=3000)
    print(log[-3000:])
    if not ok:
        print("coq build failed")
        return 1
    rc = 0
    for name, model, driver in RUNNERS:
        if os.path.exists(os.path.join(vf.VERIF, "ocaml", model + ".ml")):
            ok, log, exe = vf.ocaml_build(name, model, driver)
            print("ocaml runner", name, "ok" if ok else "FAILED\n" + log[-2000:])
            rc |= 0 if ok else 1
    if os.path.exists(os.path.join(vf.VERIF, "harness/rs/gen_harness.py")):
        for prof in ("release", "debug"):
            ok, log, exe = vf.cargo_build_harness(prof)
            print("codec harness", prof, "ok" if ok else "FAILED\n" + log[-3000:])
            rc |= 0 if ok else 1
        ok, log, so = vf.cargo_build_cdylib()
        print("cdylib", "ok" if ok else "FAILED\n" + log[-3000:])
        rc |= 0 if ok else 1
    return rc


RUNNERS = [("policer", "policer_model", "policer_driver"),
           ("codec", "codec_model", "codec_driver")]

"""Shared machinery of the /verif checks (see DESIGN.md section 3).

Everything a property check needs that is not specific to the property:
regenerating the generated Coq files, building the Coq cone of a property and
auditing it, building the implementation drivers from /repo's working tree,
running the extracted model, recording evidence, known findings, replays.
"""
import fcntl
import hashlib
import json
import os
import random
import re
import subprocess
import sys
import time

VERIF = os.path.dirname(os.path.dirname(os.path.abspath(__file__)))
REPO = os.environ.get("VERIF_REPO", "/repo")
COQ = os.path.join(VERIF, "coq")
CACHE = os.path.join(VERIF, ".cache")
EVID = os.path.join(VERIF, "evidence")
REPLAYS = os.path.join(VERIF, "replays")
NCPU = os.cpu_count() or 4
GUARD = "gufo_snmp_verif"

ENV = dict(os.environ)
ENV.update({"CARGO_NET_OFFLINE": "true", "PYTHONDONTWRITEBYTECODE": "1"})
# only the codec harness is built with the hooks on; the library itself (cdylib for the API driver) is built as shipped
ENV_HOOKS = dict(ENV, RUSTFLAGS=(os.environ.get("RUSTFLAGS", "") + " --cfg " + GUARD).strip())

FORBIDDEN = re.compile(
    r"\b(Admitted|admit|Axiom|Axioms|Parameter|Parameters|Conjecture|Conjectures|Abort All|"
    r"Admit Obligations|bypass_check|native_compute)\b|Unset\s+Guard|Unset\s+Positivity|"
    r"Unset\s+Universe\s+Checking|type-in-type|impredicative-set")

TRUSTED_BASE_COMMON = [
    "Coq 8.16.1 kernel and its VM (vm_compute); no native_compute",
    "no axioms: every property theorem prints 'Closed under the global context' (checked on every run)",
    "hand-written Gallina model of the Rust/Python code, tied to /repo by differential execution on every run",
    "Coq extraction (ExtrOcamlBasic only: Extract Inductive bool/option/unit/list/prod/sumbool/sumor, "
    "Extract Inlined Constant andb/orb/negb/fst/snd) + OCaml 4.13.1 + ocaml/*.ml drivers, cross-checked against vm_compute",
]


def sh(cmd, timeout=1200, cwd=None, env=None, input=None):
    """Run a command, return (rc, stdout+stderr)."""
    try:
        p = subprocess.run(cmd, shell=isinstance(cmd, str), cwd=cwd, env=env or ENV, input=input,
                           stdout=subprocess.PIPE, stderr=subprocess.STDOUT, timeout=timeout, text=True)
        return p.returncode, p.stdout
    except subprocess.TimeoutExpired as e:
        out = e.stdout or ""
        if isinstance(out, bytes):
            out = out.decode(errors="replace")
        return 124, out + "\nTIMEOUT after %ss" % timeout


class Lock:
    """flock-based lock serialising shared builds (coq make, cargo, ocaml)."""

    def __init__(self, name, shared=False):
        os.makedirs(CACHE, exist_ok=True)
        self.path = os.path.join(CACHE, name + ".lock")
        self.shared = shared

    def __enter__(self):
        self.f = open(self.path, "a")
        fcntl.flock(self.f, fcntl.LOCK_SH if self.shared else fcntl.LOCK_EX)
        return self

    def __exit__(self, *a):
        fcntl.flock(self.f, fcntl.LOCK_UN)
        self.f.close()


def write_if_changed(path, content):
    try:
        if open(path).read() == content:
            return False
    except OSError:
        pass
    os.makedirs(os.path.dirname(path), exist_ok=True)
    tmp = path + ".tmp%d" % os.getpid()
    with open(tmp, "w") as f:
        f.write(content)
    os.replace(tmp, path)
    return True


# --------------------------------------------------------------------------
# generated Coq files


REGEN_NOTES = []


def regen():
    """Regenerate coq/Gen/*.v from /repo.  Returns dict name -> error text (empty when fine).
    A translator that cannot handle the current sources (an unsupported construct after a rewrite) falls back to the pinned
    output of the pinned commit (tools/pinned/): the model is then a fixed one for this run and only the correspondence ties
    it to the code - which is recorded in REGEN_NOTES and reaches the evidence; a behavioural difference still breaks it."""
    errs = {}
    del REGEN_NOTES[:]
    gens = [("Policer", [sys.executable, os.path.join(VERIF, "tools/py2coq.py"),
                         os.path.join(REPO, "src/gufo/snmp/policer.py")]),
            ("Constants", [sys.executable, os.path.join(VERIF, "tools/gen_constants.py"), REPO]),
            ("ErrorMap", [sys.executable, os.path.join(VERIF, "tools/gen_errormap.py"), REPO])]
    with Lock("coq"):
        for name, cmd in gens:
            if not os.path.exists(cmd[1]):
                continue
            p = subprocess.run(cmd, stdout=subprocess.PIPE, stderr=subprocess.PIPE, text=True)
            if p.returncode != 0:
                pin = os.path.join(VERIF, "tools", "pinned", name + ".v")
                if os.path.exists(pin):
                    REGEN_NOTES.append("translator %s could not handle the current sources (%s): the pinned model is used, tied by the "
                                       "correspondence run only" % (name, (p.stderr.strip() or "failed")[-200:]))
                    write_if_changed(os.path.join(COQ, "Gen", name + ".v"), open(pin).read())
                else:
                    errs[name] = p.stderr.strip() or "translator failed"
                continue
            if name == "Constants" and "NOTE V3_MAX_SIZE" in p.stdout and "ASSUMED" in p.stdout.split("NOTE V3_MAX_SIZE")[1].split("\n")[0]:
                # msgMaxSize is fixed by no property: when the source pattern is gone, take the value the code puts on the wire
                m = _measure_v3_max_size()
                if m is not None:
                    p = subprocess.run(cmd, stdout=subprocess.PIPE, stderr=subprocess.PIPE, text=True, env=dict(os.environ, GS_MEASURED_V3_MAX_SIZE=str(m)))
            for ln in p.stdout.splitlines():
                if ln.startswith("(* NOTE "):
                    REGEN_NOTES.append("translator %s: %s" % (name, ln[3:-3]))
            write_if_changed(os.path.join(COQ, "Gen", name + ".v"), p.stdout)
    return errs


_MEASURED = {}


def _measure_v3_max_size():
    """msgMaxSize as the real encoder emits it (codec harness, `emit3` of a trivial message)."""
    key = "v3max"
    if key in _MEASURED:
        return _MEASURED[key]
    val = None
    try:
        ok, log, exe = cargo_build_harness("release", _from_regen=True)
        if ok:
            out = run_lines(exe, ["emit3 1 000 - 0 0 - - - plain:-:get:1:-"], shards=1)[0]
            if out.startswith("OK "):
                sys.path.insert(0, os.path.join(VERIF, "harness", "py"))
                import ber
                val = ber.s_message(bytes.fromhex(out.split(" ")[1]))["max_size"]
    except Exception:
        val = None
    _MEASURED[key] = val
    return val


def coq_makefile():
    mk = os.path.join(COQ, "Makefile")
    cp = os.path.join(COQ, "_CoqProject")
    if not os.path.exists(mk) or os.path.getmtime(mk) < os.path.getmtime(cp):
        rc, out = sh("coq_makefile -f _CoqProject -o Makefile", cwd=COQ, timeout=120)
        if rc != 0:
            raise RuntimeError("coq_makefile failed: " + out)


def coq_make(targets, timeout=1500):
    """make the given .vo targets (full .vo build, never -vos).  Returns (ok, log)."""
    with Lock("coq"):
        coq_makefile()
        rc, out = sh(["make", "-j%d" % NCPU] + list(targets), cwd=COQ, timeout=timeout)
    return rc == 0, out


def strip_comments(src):
    out, depth, i = [], 0, 0
    while i < len(src):
        if src.startswith("(*", i):
            depth += 1
            i += 2
        elif src.startswith("*)", i) and depth:
            depth -= 1
            i += 2
        else:
            if not depth:
                out.append(src[i])
            i += 1
    return "".join(out)


def coq_sources():
    r = []
    for d, _, fs in os.walk(COQ):
        for f in fs:
            if f.endswith(".v"):
                r.append(os.path.join(d, f))
    return sorted(r)


def audit_sources():
    """No Admitted/admit/Axiom/Parameter/... anywhere in the development; no Variable/Hypothesis outside a section."""
    bad = []
    for p in coq_sources():
        src = strip_comments(open(p).read())
        src_nostr = re.sub(r'"[^"]*"', '""', src)
        for m in FORBIDDEN.finditer(src_nostr):
            bad.append("%s: forbidden token %r" % (os.path.relpath(p, VERIF), m.group(0)))
        depth = 0
        for line in src_nostr.splitlines():
            s = line.strip()
            if re.match(r"Section\s+\w+\s*\.", s):
                depth += 1
            elif re.match(r"End\s+\w+\s*\.", s) and depth:
                depth -= 1
            elif depth == 0 and re.match(r"(Variable|Variables|Hypothesis|Hypotheses|Context)\b", s):
                bad.append("%s: %s outside a section" % (os.path.relpath(p, VERIF), s.split()[0]))
    return bad


def check_property_file(prop):
    """Re-run coqc on Properties/<prop>.v (its dependencies are up to date) and read what it prints.

    Returns dict(obligations, discharged, assumptions_ok, theorems, log, ok)."""
    path = os.path.join(COQ, "Properties", prop + ".v")
    src = strip_comments(open(path).read())
    theorems = re.findall(r"^\s*Theorem\s+(\w+)", src, re.M)
    pins = re.findall(r"^\s*Check\s+(\w+)\s*:", src, re.M)
    prints = re.findall(r"^\s*Print Assumptions\s+(\w+)\s*\.", src, re.M)
    problems = []
    for t in theorems:
        if t not in pins:
            problems.append("theorem %s has no Check pin" % t)
        if t not in prints:
            problems.append("theorem %s has no Print Assumptions" % t)
    # property files contain only statements closed by `exact`
    for m in re.finditer(r"Proof\.(.*?)Qed\.", src, re.S):
        body = m.group(1).strip()
        if not re.fullmatch(r"exact\s+[\w.']+\s*\.|exact\s+\(.*\)\s*\.", body, re.S):
            problems.append("proof in property file is not a single `exact`: %r" % body[:60])
    with Lock("coq"):
        rc, out = sh(["coqc", "-q", "-Q", ".", "GS", "-w",
                      "-notation-overridden,-deprecated-hint-without-locality,-deprecated-instance-without-locality",
                      os.path.join("Properties", prop + ".v")], cwd=COQ, timeout=600)
    closed = out.count("Closed under the global context")
    axioms = re.findall(r"^Axioms:\s*\n((?:.+\n)+?)(?=\S|\Z)", out, re.M)
    ok = rc == 0 and not problems and closed == len(prints) and not axioms and "Axioms:" not in out
    return {"obligations": len(theorems), "discharged": len(theorems) if ok else 0, "theorems": theorems,
            "closed": closed, "prints": len(prints), "problems": problems, "log": out, "ok": ok}


# --------------------------------------------------------------------------
# OCaml runners (extracted model + driver)


def ocaml_build(name, model, driver, timeout=900):
    """Build the runner <name>: extracted ocaml/<model>.ml(i) + (open Model; common.ml; <driver>.ml).
    Returns (ok, log, exe)."""
    odir = os.path.join(VERIF, "ocaml")
    bdir = os.path.join(CACHE, "ocaml", name)
    exe = os.path.join(bdir, name)
    # the extracted model must be the one of the CURRENT generated files (constants, error map, policer): re-extract first
    regen()
    target = {"codec": "ExtractCodec.vo", "v3": "ExtractV3.vo", "policer": "ExtractPolicer.vo"}.get(name)
    if target:
        ok, log = coq_make([target])
        if not ok:
            return False, "extraction (make %s) failed:\n%s" % (target, log[-2000:]), exe
    with Lock("ocaml-" + name):
        os.makedirs(bdir, exist_ok=True)
        mod = model[0].upper() + model[1:]
        main = "open %s\n" % mod + open(os.path.join(odir, "common.ml")).read() + "\n" + \
            open(os.path.join(odir, driver + ".ml")).read()
        srcs = {model + ".mli": open(os.path.join(odir, model + ".mli")).read(),
                model + ".ml": open(os.path.join(odir, model + ".ml")).read(),
                "main_" + name + ".ml": main}
        h = hashlib.sha256(json.dumps(srcs, sort_keys=True).encode()).hexdigest()
        stamp = os.path.join(bdir, "stamp")
        if os.path.exists(exe) and os.path.exists(stamp) and open(stamp).read() == h:
            return True, "cached", exe
        for k, v in srcs.items():
            with open(os.path.join(bdir, k), "w") as f:
                f.write(v)
        rc, out = sh(["ocamlfind", "ocamlopt", "-O3", "-unsafe", "-inline", "200", "-w", "-a", "-o", exe,
                      model + ".mli", model + ".ml", "main_" + name + ".ml"], cwd=bdir, timeout=timeout)
        if rc == 0:
            with open(stamp, "w") as f:
                f.write(h)
        return rc == 0, out, exe


def _big_stack():
    """extracted code recurses over long lists (1 MiB passwords): lift the stack limit for the runner"""
    import resource
    try:
        resource.setrlimit(resource.RLIMIT_STACK, (resource.RLIM_INFINITY, resource.RLIM_INFINITY))
    except (ValueError, OSError):
        try:
            soft, hard = resource.getrlimit(resource.RLIMIT_STACK)
            resource.setrlimit(resource.RLIMIT_STACK, (hard, hard))
        except (ValueError, OSError):
            pass


def run_lines(exe, lines, timeout=900, shards=None, env=None):
    """Feed lines to a line-protocol executable (sharded over the cores); return output lines in order."""
    if not lines:
        return []
    shards = shards or min(NCPU, max(1, len(lines) // 200))
    chunks = [lines[i::shards] for i in range(shards)]
    procs = []
    for ch in chunks:
        p = subprocess.Popen(exe if isinstance(exe, list) else [exe], stdin=subprocess.PIPE, stdout=subprocess.PIPE,
                             stderr=subprocess.PIPE, text=True, env=env or ENV, preexec_fn=_big_stack)
        procs.append((p, ch))
    outs = []
    import threading
    res = [None] * len(procs)

    def work(i, p, ch):
        try:
            o, e = p.communicate("\n".join(ch) + "\n", timeout=timeout)
        except subprocess.TimeoutExpired:
            p.kill()
            o, e = p.communicate()
            e = (e or "") + "\nTIMEOUT"
        res[i] = (o, e, p.returncode)

    ths = [threading.Thread(target=work, args=(i, p, ch)) for i, (p, ch) in enumerate(procs)]
    for t in ths:
        t.start()
    for t in ths:
        t.join()
    out = [None] * len(lines)
    for i, (o, e, rc) in enumerate(res):
        ol = o.split("\n")
        if ol and ol[-1] == "":
            ol.pop()
        n = len(chunks[i])
        if len(ol) != n:
            # the runner died part-way (abort/segfault): mark the case it died on
            ol = ol + ["DIED rc=%s %s" % (rc, (e or "").strip()[-200:].replace("\n", " | "))] + ["NOTRUN"] * n
            ol = ol[:n]
        for j, l in enumerate(ol):
            out[i + j * shards] = l
    return out


# --------------------------------------------------------------------------
# implementation drivers


def default_max_repetitions(mode="sync"):
    """SnmpSession(max_repetitions=<default>) as the client source says now."""
    try:
        src = open(os.path.join(REPO, "src/gufo/snmp/%s_client/client.py" % ("async" if mode.startswith("a") else "sync"))).read()
    except OSError:
        return 20
    m = re.search(r"max_repetitions:\s*int\s*=\s*(\w+)", src)
    if not m:
        return 20
    if m.group(1).isdigit():
        return int(m.group(1))
    m2 = re.search(r"^%s(?:\s*:\s*\w+)?\s*=\s*(\d+)" % re.escape(m.group(1)), src, re.M)      # a named constant
    return int(m2.group(1)) if m2 else 20


def constant(name, default=None):
    """Value of a constant of Gen/Constants.v (regenerated from /repo's sources by regen())."""
    try:
        src = open(os.path.join(COQ, "Gen", "Constants.v")).read()
    except OSError:
        return default
    m = re.search(r"Definition\s+%s\s*:\s*Z\s*:=\s*\(?(-?\d+)\)?\s*\." % re.escape(name), src)
    return int(m.group(1)) if m else default


def cargo_build_harness(profile, _from_regen=False):
    """Generate and build the codec harness (harness/rs) against /repo's working tree.  Returns (ok, log, exe)."""
    import importlib.util
    spec = importlib.util.spec_from_file_location("gen_harness", os.path.join(VERIF, "harness/rs/gen_harness.py"))
    gh = importlib.util.module_from_spec(spec)
    spec.loader.exec_module(gh)
    hdir = os.path.join(CACHE, "harness-rs-" + profile)
    with Lock("cargo-harness-" + profile):
        tdir = os.path.join(CACHE, "target-harness-" + profile)
        exe = os.path.join(tdir, profile, "gsharness")
        cmd = ["cargo", "build", "--offline", "--quiet", "--manifest-path", os.path.join(hdir, "Cargo.toml"), "--target-dir", tdir]
        if profile == "release":
            cmd.append("--release")
        # with the guarded hooks of /repo first; if that build fails (a rewrite left a hook behind) without them
        gh.generate(REPO, hdir, hooks=True)
        rc, out = sh(cmd, timeout=1500, env=ENV_HOOKS)
        if rc != 0:
            gh.generate(REPO, hdir, hooks=False)
            rc2, out2 = sh(cmd, timeout=1500, env=ENV)
            if rc2 == 0:
                REGEN_NOTES.append("translator Constants: NOTE harness: the codec harness builds only without --cfg %s (the hooks of /repo "
                                   "do not compile against the current sources); hook-based cases are skipped" % GUARD)
                rc, out = rc2, out2
    return rc == 0 and os.path.exists(exe), out, exe


def cargo_build_cdylib():
    """cargo build --release of /repo itself (target dir outside /repo).  Returns (ok, log, so_path)."""
    tdir = os.path.join(CACHE, "target-cdylib")
    with Lock("cargo-cdylib"):
        rc, out = sh(["cargo", "build", "--offline", "--quiet", "--release", "--manifest-path",
                      os.path.join(REPO, "Cargo.toml"), "--target-dir", tdir], timeout=1500)
    so = os.path.join(tdir, "release", "libgufo_snmp.so")
    return rc == 0 and os.path.exists(so), out, so


# --------------------------------------------------------------------------
# results


def load_known():
    p = os.path.join(VERIF, "known_findings.json")
    try:
        return json.load(open(p))
    except OSError:
        return {"findings": [], "fixed": []}


class Check:
    """One run of one property's check."""

    def __init__(self, prop, argv=None):
        import argparse
        ap = argparse.ArgumentParser()
        ap.add_argument("--tier", default=os.environ.get("VERIF_TIER", "quick"))
        ap.add_argument("--replay", default=None)
        ap.add_argument("--seed", type=int, default=None)
        a = ap.parse_args(argv or [])
        self.prop = prop
        self.tier = a.tier if a.tier in ("quick", "thorough") else "quick"
        self.replay = a.replay
        seed = a.seed if a.seed is not None else os.environ.get("VERIF_SEED", "20260930")
        try:
            self.seed = int(seed)
        except ValueError:
            self.seed = int(hashlib.sha256(str(seed).encode()).hexdigest()[:8], 16)
        self.rng = random.Random(self.seed * 1000003 + int(prop[1:]))
        self.t0 = time.time()
        self.coverage = {"samples": []}
        self.assumptions = []
        self.violations = []      # dicts: what, replay(dict), key
        self.errors = []
        self.notes = []
        self.coq = None
        self.known_hit = []
        self.distinct = set()
        self.distinct_bulk = 0      # distinct cases of exhaustive sweeps, counted without keeping their keys
        self.evaluations = 0

    # -- logging
    def log(self, *a):
        print("[%s %6.1fs]" % (self.prop, time.time() - self.t0), *a, flush=True)

    # -- coq part
    def prove(self, extra_targets=()):
        """Regenerate Gen, build the property's cone, audit.  Records obligations; on failure records a
        broken-obligation note (the caller then searches for a failing input)."""
        errs = regen()
        broken = []
        if not os.path.exists(os.path.join(COQ, "Properties", self.prop + ".v")):
            self.coq = {"obligations": 0, "discharged": 0, "theorems": []}
            self.coverage["obligations"] = 0
            self.coverage["discharged"] = 0
            self.coverage["checker_cmd"] = "none"
            self.broken = ["no Properties/%s.v yet" % self.prop]
            self.log("BROKEN OBLIGATION: no property file")
            return False
        for k, v in errs.items():
            broken.append("translator %s: %s" % (k, v))
        targets = ["Properties/%s.vo" % self.prop] + list(extra_targets)
        ok, log = coq_make(targets)
        res = {"obligations": 0, "discharged": 0, "theorems": []}
        if not ok:
            m = re.search(r'File "([^"]+)", line (\d+).*?\n(Error:.*?)(?:\n\n|\nmake)', log, re.S)
            where = "%s line %s: %s" % (m.group(1), m.group(2), " ".join(m.group(3).split())[:300]) if m else log[-400:]
            broken.append("coq build failed: " + where)
            src = strip_comments(open(os.path.join(COQ, "Properties", self.prop + ".v")).read())
            res["theorems"] = re.findall(r"^\s*Theorem\s+(\w+)", src, re.M)
            res["obligations"] = len(res["theorems"])
        else:
            res = check_property_file(self.prop)
            if not res["ok"]:
                broken.append("property file audit failed: %s closed=%d prints=%d %s" % (
                    res["problems"], res["closed"], res["prints"], res["log"][-300:]))
        bad = audit_sources()
        if bad:
            broken.append("source audit: " + "; ".join(bad[:5]))
        if self.tier == "thorough" and not broken:
            # independent re-check of the compiled proofs and everything they depend on, with the axiom list
            with Lock("coq", shared=True):
                rc, out = sh("cd %s && timeout 3000 coqchk -silent -o -Q . GS GS.Properties.%s 2>&1" % (COQ, self.prop), timeout=3100)
            summ = dict((k.strip(), " ".join(v.split())) for k, v in re.findall(r"^\* ([^:\n]+):\s*(.*?)\s*(?=^\*|\Z)", out.split("CONTEXT SUMMARY")[-1], re.S | re.M))
            want = ["Axioms", "Constants/Inductives relying on type-in-type", "Constants/Inductives relying on unsafe (co)fixpoints", "Inductives whose positivity is assumed"]
            clean = rc == 0 and all(summ.get(k) == "<none>" for k in want)
            self.coverage["coqchk"] = {"cmd": "coqchk -silent -o -Q . GS GS.Properties.%s" % self.prop, "exit": rc, "summary": summ}
            if not clean:
                broken.append("coqchk: exit %d, summary %s %s" % (rc, summ, "" if summ else out[-300:]))
            else:
                self.log("coqchk: exit 0; axioms, type-in-type, unsafe fixpoints, assumed positivity: all <none>")
        self.coq = res
        scope = {"Policer": ("C19",), "ErrorMap": ("C01", "C04", "C07")}
        notes = [n for n in REGEN_NOTES if self.prop in scope.get(n.split(" ")[1].rstrip(":"), (self.prop,))]
        if notes:
            self.coverage["translator_notes"] = notes
            for n in notes:
                self.log("note:", n[:200])
        self.coverage["obligations"] = res["obligations"]
        self.coverage["discharged"] = 0 if broken else res["obligations"]
        self.coverage["theorems"] = res["theorems"]
        self.coverage["checker_cmd"] = ("cd /verif/coq && make -j%d Properties/%s.vo && coqc -Q . GS Properties/%s.v "
                                        "(Print Assumptions under every theorem) + source audit grep" % (NCPU, self.prop, self.prop))
        self.broken = broken
        for b in broken:
            self.log("BROKEN OBLIGATION:", b)
        if not broken:
            self.log("coq: %d theorems, all closed under the global context" % res["obligations"])
        return not broken

    # -- cases
    def count(self, key, nontrivial=True):
        self.evaluations += 1
        if nontrivial:
            self.distinct.add(key if isinstance(key, (str, int, tuple)) else json.dumps(key, sort_keys=True))

    def count_bulk(self, evaluations, distinct):
        """An exhaustive sweep whose cases are pairwise distinct by construction."""
        self.evaluations += evaluations
        self.distinct_bulk += distinct

    def sample(self, s):
        if len(self.coverage["samples"]) < 12:
            self.coverage["samples"].append(s)

    def violation(self, what, replay, key=None):
        self.violations.append({"what": what, "replay": replay, "key": key or what})

    # -- finish
    def finish(self, rule, level="proof", extra=None, trusted=None, no_input_found_theorem=None):
        known = load_known()
        listed = [k for k in known.get("findings", []) if k.get("property") == self.prop]
        fresh = []
        for v in self.violations:
            hit = None
            for k in listed:
                if k.get("match") and re.search(k["match"], v["key"]):
                    hit = k
                    break
            if hit:
                if hit["id"] not in [h["id"] for h in self.known_hit]:
                    self.known_hit.append(hit)
            else:
                fresh.append(v)
        rc = 0
        os.makedirs(REPLAYS, exist_ok=True)
        for k in self.known_hit:
            print("KNOWN-FINDING: property=%s %s" % (self.prop, k["what"]))
        reported = set()
        for v in fresh:
            if v["key"] in reported:
                continue
            reported.add(v["key"])
            if len(reported) > 5:
                break
            h = hashlib.sha256(json.dumps(v, sort_keys=True, default=str).encode()).hexdigest()[:12]
            path = os.path.join(REPLAYS, "%s-%s.json" % (self.prop, h))
            with open(path, "w") as f:
                json.dump({"property": self.prop, "what": v["what"], "replay": v["replay"], "seed": self.seed,
                           "tier": self.tier}, f, indent=1, default=str)
            print("VIOLATION property=%s replay=%s" % (self.prop, path))
            print("  ", v["what"][:400])
            rc = 1
        if self.broken and not fresh:
            # an obligation or the correspondence no longer checks and no failing input was found
            h = hashlib.sha256(json.dumps(self.broken).encode()).hexdigest()[:12]
            path = os.path.join(REPLAYS, "%s-broken-%s.json" % (self.prop, h))
            with open(path, "w") as f:
                json.dump({"property": self.prop, "broken": self.broken, "theorems": (self.coq or {}).get("theorems"),
                           "note": "no failing input found by the oracle within this tier's budget"}, f, indent=1)
            print("VIOLATION property=%s replay=%s no-failing-input-found" % (self.prop, path))
            for b in self.broken:
                print("  ", b[:400])
            rc = 1
        if self.errors:
            for e in self.errors:
                print("ERROR:", e[:2000])
            if rc == 0:
                rc = 2
        cov = self.coverage
        cov["evaluations"] = self.evaluations
        cov["distinct_nontrivial"] = len(self.distinct) + self.distinct_bulk
        cov["rule"] = rule
        cov["trusted_base"] = TRUSTED_BASE_COMMON + list(trusted or [])
        cov["known_findings_hit"] = [k["id"] for k in self.known_hit]
        cov["broken_obligations"] = self.broken
        if extra:
            cov.update(extra)
        ev = {"property_id": self.prop, "tier": self.tier, "seed": self.seed, "level": level, "coverage": cov,
              "assumptions": self.assumptions, "wall_s": round(time.time() - self.t0, 2),
              "violations": len(fresh) + (1 if self.broken and not fresh else 0)}
        os.makedirs(EVID, exist_ok=True)
        with open(os.path.join(EVID, self.prop + ".json"), "w") as f:
            json.dump(ev, f, indent=1, default=str)
        self.log("done rc=%d evaluations=%d distinct=%d violations=%d known=%d wall=%.1fs" % (
            rc, self.evaluations, len(self.distinct) + self.distinct_bulk, ev["violations"], len(self.known_hit), ev["wall_s"]))
        return rc

    broken = ()


def run_api_worker(prop, job, timeout=900):
    """Build the cdylib from /repo, run harness/py/api_worker.py for `prop` on `job` (a dict).  Returns (result|None, log)."""
    import tempfile
    ok, log, so = cargo_build_cdylib()
    if not ok:
        return None, "cargo build of /repo failed:\n" + log[-3000:]
    job = dict(job)
    job["so"] = so
    job["repo"] = REPO
    d = tempfile.mkdtemp(prefix="gsjob", dir=CACHE)
    jf, of = os.path.join(d, "job.json"), os.path.join(d, "out.json")
    with open(jf, "w") as f:
        json.dump(job, f)
    rc, out = sh([sys.executable, os.path.join(VERIF, "harness/py/api_worker.py"), prop, jf, of], timeout=timeout)
    res = None
    if os.path.exists(of):
        try:
            res = json.load(open(of))
        except ValueError:
            res = None
    import shutil
    shutil.rmtree(d, ignore_errors=True)
    return res, out


def coq_eval(requires, exprs, timeout=300):
    """Evaluate closed Gallina expressions inside Coq with vm_compute (the kernel's VM), one result string per
    expression (whitespace-normalised, scope annotations removed).  Used to cross-check the extracted OCaml runners."""
    import tempfile
    body = [requires, "Set Printing Width 1000000.", "Set Printing Depth 1000000."]
    for i, e in enumerate(exprs):
        body.append("Eval vm_compute in (%d, (%s))." % (900000 + i, e))
    d = os.path.join(CACHE, "cases")
    os.makedirs(d, exist_ok=True)
    with tempfile.NamedTemporaryFile("w", suffix=".v", dir=d, prefix="cases", delete=False) as f:
        f.write("\n".join(body) + "\n")
        path = f.name
    with Lock("coq"):
        rc, out = sh(["coqc", "-q", "-noglob", "-Q", COQ, "GS", path], timeout=timeout)
    for ext in (".v", ".vo", ".vok", ".vos", ".glob"):
        try:
            os.remove(path[:-2] + ext)
        except OSError:
            pass
    try:
        os.remove(os.path.join(d, "." + os.path.basename(path)[:-2] + ".aux"))
    except OSError:
        pass
    if rc != 0:
        return None, out
    res = {}
    for m in re.finditer(r"=\s*\((9\d{5}),\s*(.*?)\)\s*:\s", out, re.S):
        txt = " ".join(m.group(2).split()).replace("%Z", "")
        res[int(m.group(1)) - 900000] = txt
    return [res.get(i) for i in range(len(exprs))], out

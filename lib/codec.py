"""Differential execution of the extracted codec model against the real Rust code (codec harness),
with the canonicalisation described in DESIGN.md 3.3."""
import math
import os
import re
import struct
import sys

from lib import vf

sys.path.insert(0, os.path.join(vf.VERIF, "harness", "py"))


def errmap():
    """SnmpError variant -> Python exception class name, read from the generated Gen/ErrorMap.v."""
    names = {"ESnmpError": "SnmpError", "EDecode": "SnmpDecodeError", "EEncode": "SnmpEncodeError", "EAuth": "SnmpAuthError",
             "ENoSuchInstance": "NoSuchInstance", "EValue": "ValueError", "ETimeout": "TimeoutError",
             "EBlockingIO": "BlockingIOError", "EOSError": "OSError", "ENotImplemented": "NotImplementedError",
             "ERuntime": "RuntimeError"}
    src = open(os.path.join(vf.COQ, "Gen", "ErrorMap.v")).read()
    m = {}
    for v, e in re.findall(r"\|\s*(\w+)\s*=>\s*(E\w+)", src.split("Definition exc_parent")[0]):
        m[v] = names.get(e, e)
    return m


def f64_bits(x):
    return struct.unpack(">Q", struct.pack(">d", x))[0]


def real_to_bits(tok):
    """model rendering of a REAL -> set of acceptable f64 bit patterns (None = NaN)."""
    p = tok.split(":")
    k = p[1]
    if k == "f64":
        b = int(p[2], 16)
        x = struct.unpack(">d", struct.pack(">Q", b))[0]
        return None if math.isnan(x) else {b}
    if k == "zero":
        return {f64_bits(0.0)}
    if k == "-zero":
        return {f64_bits(-0.0)}
    if k == "+inf":
        return {f64_bits(math.inf)}
    if k == "-inf":
        return {f64_bits(-math.inf)}
    if k == "nan":
        return None
    if k == "int":
        return {f64_bits(float(int(p[2])))}
    if k == "dec":
        t = bytes.fromhex(p[2]).decode("ascii")
        x = float(t)
        return None if math.isnan(x) else {f64_bits(x)}
    if k == "bin":
        neg, m, e = p[2] == "1", int(p[3]), int(p[4])
        try:
            v = math.ldexp(float(m), e)
        except OverflowError:
            v = math.inf
        if neg:
            v = -v
        b = f64_bits(v)
        out = {b}
        # in the subnormal range the implementation scales in several rounded steps: accept 1 ulp
        if v != 0 and abs(v) < 2.3e-308:
            out |= {b - 1, b + 1}
        if m != 0 and v == 0:
            out |= {b + 1}
        return out
    raise ValueError(tok)


REAL_RE = re.compile(r"(?:real|float):(?:f64:[0-9a-f]{16}|bin:[01]:\d+:-?\d+|int:-?\d+|dec:[0-9a-f-]+|zero|-zero|\+inf|-inf|nan)")
PYFLOAT_RE = re.compile(r"float:([0-9a-f]{16})")


def canon(line, emap):
    """Canonical form of an output line for comparison: errors become exception classes."""
    if line is None:
        return "NONE"
    m = re.match(r"ERR (\w+)(.*)", line)
    if m:
        return "ERR " + emap.get(m.group(1), m.group(1)) + m.group(2)
    line = re.sub(r"\bERR (\w+)", lambda mm: "ERR " + emap.get(mm.group(1), mm.group(1)), line)
    return line


def same(model_line, impl_line, emap):
    a, b = canon(model_line, emap), canon(impl_line, emap)
    if a == b:
        return True
    # REAL values: compare as f64 bit patterns
    b = PYFLOAT_RE.sub(lambda m: "real:f64:" + m.group(1), b)
    a = a.replace("float:real:", "real:")
    ra, rb = REAL_RE.findall(a), REAL_RE.findall(b)
    if not ra or len(ra) != len(rb):
        return False
    if REAL_RE.sub("R", a) != REAL_RE.sub("R", b):
        return False
    for x, y in zip(ra, rb):
        x = x.replace("float:", "real:")
        y = y.replace("float:", "real:")
        try:
            bx, by = real_to_bits(x), real_to_bits(y)
        except (ValueError, OverflowError):
            return False
        if bx is None or by is None:
            if bx is not by:
                return False
        elif not (bx & by):
            return False
    return True


class Codec:
    """Builds and runs the model runner and the implementation harness (release, optionally debug)."""

    def __init__(self, check, want_debug=True):
        self.c = check
        self.ok = True
        ok, log, self.model = vf.ocaml_build("codec", "codec_model", "codec_driver")
        if not ok:
            check.errors.append("building the extracted codec model failed: " + log[-2000:])
            self.ok = False
        ok, log, self.rel = vf.cargo_build_harness("release")
        if not ok:
            check.errors.append("building the codec harness (release) from /repo failed: " + log[-3000:])
            self.ok = False
        self.dbg = None
        if want_debug:
            ok, log, self.dbg = vf.cargo_build_harness("debug")
            if not ok:
                check.errors.append("building the codec harness (debug) from /repo failed: " + log[-3000:])
                self.ok = False
        self.emap = errmap()

    def run(self, lines, debug=True):
        """-> (model_out, release_out, debug_out or None)"""
        m = vf.run_lines(self.model, lines)
        r = vf.run_lines(self.rel, lines)
        d = vf.run_lines(self.dbg, lines) if (debug and self.dbg) else None
        return m, r, d

    def diff(self, lines, debug=True, label="", on_case=None, max_report=5):
        """Run and compare.  Records PANIC as violations of C01-style totality where the caller says so via on_case.
        Returns number of disagreements; first disagreement is recorded as a broken correspondence."""
        m, r, d = self.run(lines, debug)
        c = self.c
        n_dis = 0
        for k, ln in enumerate(lines):
            outs = [("release", r[k])] + ([("debug", d[k])] if d else [])
            for prof, o in outs:
                if not same(m[k], o, self.emap):
                    n_dis += 1
                    if n_dis <= max_report:
                        c.log("model/impl(%s) disagree %s on `%s`\n     model: %s\n     impl : %s" % (
                            prof, label, ln[:300], (m[k] or "")[:300], (o or "")[:300]))
                    if not any(b.startswith("correspondence") for b in c.broken):
                        c.broken = list(c.broken) + ["correspondence %s: model and implementation (%s build) differ on `%s`: model `%s` impl `%s`"
                                                     % (label, prof, ln[:200], (m[k] or "")[:120], (o or "")[:120])]
            if on_case:
                on_case(k, ln, m[k], r[k], d[k] if d else None)
        return n_dis

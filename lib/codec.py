"""Differential execution of the extracted codec model against the real Rust code (codec harness),
with the canonicalisation described in DESIGN.md 3.3."""
import math
import os
import re
import struct
import sys

from lib import vf

sys.path.insert(0, os.path.join(vf.VERIF, "harness", "py"))


def errmap():
    """SnmpError variant -> Python exception class name, read from the generated Gen/ErrorMap.v."""
    names = {"ESnmpError": "SnmpError", "EDecode": "SnmpDecodeError", "EEncode": "SnmpEncodeError", "EAuth": "SnmpAuthError",
             "ENoSuchInstance": "NoSuchInstance", "EValue": "ValueError", "ETimeout": "TimeoutError",
             "EBlockingIO": "BlockingIOError", "EOSError": "OSError", "ENotImplemented": "NotImplementedError",
             "ERuntime": "RuntimeError"}
    src = open(os.path.join(vf.COQ, "Gen", "ErrorMap.v")).read()
    m = {}
    for v, e in re.findall(r"\|\s*(\w+)\s*=>\s*(E\w+)", src.split("Definition exc_parent")[0]):
        m[v] = names.get(e, e)
    return m


def f64_bits(x):
    return struct.unpack(">Q", struct.pack(">d", x))[0]


def real_to_bits(tok):
    """model rendering of a REAL -> set of acceptable f64 bit patterns (None = NaN)."""
    p = tok.split(":")
    k = p[1]
    if k == "f64":
        b = int(p[2], 16)
        x = struct.unpack(">d", struct.pack(">Q", b))[0]
        return None if math.isnan(x) else {b}
    if k == "zero":
        return {f64_bits(0.0)}
    if k == "-zero":
        return {f64_bits(-0.0)}
    if k == "+inf":
        return {f64_bits(math.inf)}
    if k == "-inf":
        return {f64_bits(-math.inf)}
    if k == "nan":
        return None
    if k == "int":
        return {f64_bits(float(int(p[2])))}
    if k == "dec":
        t = bytes.fromhex(p[2]).decode("ascii")
        x = float(t)
        return None if math.isnan(x) else {f64_bits(x)}
    if k == "bin":
        neg, m, e = p[2] == "1", int(p[3]), int(p[4])
        try:
            v = math.ldexp(float(m), e)
        except OverflowError:
            v = math.inf
        if neg:
            v = -v
        b = f64_bits(v)
        out = {b}
        # in the subnormal range the implementation scales in several rounded steps: accept 1 ulp
        if v != 0 and abs(v) < 2.3e-308:
            out |= {b - 1, b + 1}
        if m != 0 and v == 0:
            out |= {b + 1}
        return out
    raise ValueError(tok)


REAL_RE = re.compile(r"(?:real|float):(?:f64:[0-9a-f]{16}|bin:[01]:\d+:-?\d+|int:-?\d+|dec:[0-9a-f-]+|zero|-zero|\+inf|-inf|nan)")
PYFLOAT_RE = re.compile(r"float:([0-9a-f]{16})")


def canon(line, emap):
    """Canonical form of an output line for comparison: errors become exception classes."""
    if line is None:
        return "NONE"
    m = re.match(r"ERR (\w+)(.*)", line)
    if m:
        return "ERR " + emap.get(m.group(1), m.group(1)) + m.group(2)
    line = re.sub(r"\bERR (\w+)", lambda mm: "ERR " + emap.get(mm.group(1), mm.group(1)), line)
    return line


def same(model_line, impl_line, emap):
    a, b = canon(model_line, emap), canon(impl_line, emap)
    if a == b:
        return True
    # REAL values: compare as f64 bit patterns
    b = PYFLOAT_RE.sub(lambda m: "real:f64:" + m.group(1), b)
    a = a.replace("float:real:", "real:")
    ra, rb = REAL_RE.findall(a), REAL_RE.findall(b)
    if not ra or len(ra) != len(rb):
        return False
    if REAL_RE.sub("R", a) != REAL_RE.sub("R", b):
        return False
    for x, y in zip(ra, rb):
        x = x.replace("float:", "real:")
        y = y.replace("float:", "real:")
        try:
            bx, by = real_to_bits(x), real_to_bits(y)
        except (ValueError, OverflowError):
            return False
        if bx is None or by is None:
            if bx is not by:
                return False
        elif not (bx & by):
            return False
    return True


class Codec:
    """Builds and runs the model runner and the implementation harness (release, optionally debug)."""

    def __init__(self, check, want_debug=True):
        self.c = check
        self.ok = True
        ok, log, self.model = vf.ocaml_build("codec", "codec_model", "codec_driver")
        if not ok:
            check.errors.append("building the extracted codec model failed: " + log[-2000:])
            self.ok = False
        ok, log, self.rel = vf.cargo_build_harness("release")
        if not ok:
            self._harness_failed(check, "release", log)
        self.dbg = None
        if want_debug and self.ok:
            ok, log, self.dbg = vf.cargo_build_harness("debug")
            if not ok:
                self._harness_failed(check, "debug", log)
        self.emap = errmap()

    def _harness_failed(self, check, profile, log):
        """The codec harness #[path]-includes /repo/src and calls its items by name.  If it no longer builds although the
        crate itself does, the code has been rewritten under the harness: the correspondence can no longer be checked
        (a broken tie, reported as such), which is different from a tree that does not build at all (an error)."""
        self.ok = False
        ok_crate, log2, _so = vf.cargo_build_cdylib()
        m = [ln for ln in log.splitlines() if ln.startswith("error")]
        if ok_crate:
            check.broken = list(check.broken) + ["correspondence: the codec harness (%s) no longer builds against /repo although the crate does "
                                                 "(items it calls were renamed or re-typed): %s" % (profile, "; ".join(m[:3])[:400])]
        else:
            check.errors.append("building the codec harness (%s) from /repo failed and so does the crate: %s" % (profile, log[-2000:]))

    def run(self, lines, debug=True):
        """-> (model_out, release_out, debug_out or None)"""
        m = vf.run_lines(self.model, lines)
        r = vf.run_lines(self.rel, lines)
        d = vf.run_lines(self.dbg, lines) if (debug and self.dbg) else None
        return m, r, d

    def diff(self, lines, debug=True, label="", on_case=None, max_report=5):
        """Run and compare.  Records PANIC as violations of C01-style totality where the caller says so via on_case.
        Returns number of disagreements; first disagreement is recorded as a broken correspondence."""
        m, r, d = self.run(lines, debug)
        c = self.c
        n_dis = 0
        for k, ln in enumerate(lines):
            outs = [("release", r[k])] + ([("debug", d[k])] if d else [])
            for prof, o in outs:
                if not same(m[k], o, self.emap):
                    n_dis += 1
                    if n_dis <= max_report:
                        c.log("model/impl(%s) disagree %s on `%s`\n     model: %s\n     impl : %s" % (
                            prof, label, ln[:300], (m[k] or "")[:300], (o or "")[:300]))
                    if not any(b.startswith("correspondence") for b in c.broken):
                        c.broken = list(c.broken) + ["correspondence %s: model and implementation (%s build) differ on `%s`: model `%s` impl `%s`"
                                                     % (label, prof, ln[:200], (m[k] or "")[:120], (o or "")[:120])]
            if on_case:
                on_case(k, ln, m[k], r[k], d[k] if d else None)
        return n_dis


def zlist(hexstr):
    if hexstr in ("-", ""):
        return "[]"
    b = bytes.fromhex(hexstr)
    return "[" + "; ".join(str(x) for x in b) + "]"


def crosscheck_extraction(check, codec, lines, model_out):
    """Evaluate a sample of the same cases inside Coq (vm_compute) and compare with the extracted OCaml runner, so that
    extraction and the OCaml driver are themselves checked on every run.  Supported commands: enc_int, oid_parse,
    oid_print, hdr, dec_int."""
    exprs, expect = [], []
    for ln, mo in zip(lines, model_out):
        p = ln.split(" ")
        if p[0] == "enc_int":
            exprs.append("match push_int empty_buffer (%s) with Ok b => Some (data b) | _ => None end" % p[1])
            expect.append("Some " + zlist(mo[3:]) if mo.startswith("OK ") else "None")
        elif p[0] == "oid_parse":
            exprs.append("oid_of_text %s" % zlist(p[1]))
            expect.append("Ok " + zlist(mo[3:]) if mo.startswith("OK ") else ("Err " + mo[4:] if mo.startswith("ERR ") else "Panic"))
        elif p[0] == "oid_print":
            exprs.append("text_of_oid %s" % zlist(p[1]))
            expect.append("Ok " + zlist(mo[3:]) if mo.startswith("OK ") else ("Err " + mo[4:] if mo.startswith("ERR ") else "Panic"))
        elif p[0] == "dec_int":
            exprs.append("match int_from_ber %s with Ok (r, v) => (0, v, r) | Err _ => (1, 0, []) | Panic => (2, 0, []) end" % zlist(p[1]))
            if mo.startswith("OK int:"):
                v, rest = mo[7:].split(" rest=")
                expect.append("(0, %s, %s)" % (v if not v.startswith("-") else "(%s)" % v, zlist(rest)))
            else:
                expect.append("(1, 0, [])" if mo.startswith("ERR") else "(2, 0, [])")
        elif p[0] == "hdr":
            exprs.append("match parse_header %s with Ok (r, h) => (0, h_class h, h_constructed h, h_tag h, h_length h, r) "
                         "| Err _ => (1, 0, false, 0, 0, []) | Panic => (2, 0, false, 0, 0, []) end" % zlist(p[1]))
            if mo.startswith("OK "):
                f = mo.split(" ")
                expect.append("(0, %s, %s, %s, %s, %s)" % (f[1], "true" if f[2] == "1" else "false", f[3], f[4], zlist(f[5][5:])))
            else:
                expect.append("(1, 0, false, 0, 0, [])" if mo.startswith("ERR") else "(2, 0, false, 0, 0, [])")
    if not exprs:
        return 0
    got, out = vf.coq_eval("From GS Require Import Model.Base Model.Ber Model.Buffer Model.OidText.", exprs)
    if got is None:
        check.broken = list(check.broken) + ["in-Coq evaluation of the model failed: " + out[-300:]]
        return 0
    bad = 0
    for e, g, w in zip(exprs, got, expect):
        if (g or "").replace("(-", "-").replace(")", "").replace("(", "") != w.replace("(-", "-").replace(")", "").replace("(", ""):
            bad += 1
            if bad <= 3:
                check.log("extracted runner and vm_compute differ on `%s`: vm_compute `%s` runner `%s`" % (e[:120], g, w))
    if bad:
        check.broken = list(check.broken) + ["extraction cross-check: %d of %d sampled cases differ between vm_compute and the extracted runner" % (bad, len(exprs))]
    check.coverage["extraction_crosscheck"] = {"sampled_cases_evaluated_in_coq": len(exprs), "differences": bad}
    return len(exprs)


def crosscheck_v3(check, lines, model_out, limit=12):
    """The same for the v3/crypto runner: `sign` and `localize` lines (short inputs) are evaluated inside Coq with the
    Gallina MD5 / SHA-1 and compared with what the extracted runner printed."""
    exprs, expect = [], []
    for ln, mo in zip(lines, model_out):
        if len(exprs) >= limit:
            break
        p = ln.split(" ")
        if p[0] == "sign" and len(p[3]) <= 2 * 300:
            exprs.append("match auth_new %s with Ok k => match as_key_type k (%s + 128) %s [] with Ok k' => "
                         "match alg_sign k' %s %s with Ok m => Some m | _ => None end | _ => None end | _ => None end"
                         % (p[1], p[1], zlist(p[2]), zlist(p[3]), p[4]))
            expect.append("Some " + zlist(mo[3:]) if mo.startswith("OK ") else "None")
        elif p[0] == "localize" and len(p[2]) <= 128:
            exprs.append("match auth_new %s with Ok k => match alg_localize (ak_alg k) %s %s with Ok m => Some m | _ => None end | _ => None end"
                         % (p[1], zlist(p[2]), zlist(p[3])))
            expect.append("Some " + zlist(mo[3:]) if mo.startswith("OK ") else "None")
    if not exprs:
        return 0
    got, out = vf.coq_eval("From GS Require Import Model.Base Model.Auth.", exprs)
    if got is None:
        check.broken = list(check.broken) + ["in-Coq evaluation of the v3 model failed: " + out[-300:]]
        return 0
    bad = 0
    for e, g, w in zip(exprs, got, expect):
        if g != w:
            bad += 1
            if bad <= 3:
                check.log("extracted v3 runner and vm_compute differ on `%s`: vm_compute `%s` runner `%s`" % (e[:160], (g or "")[:120], w[:120]))
    if bad:
        check.broken = list(check.broken) + ["extraction cross-check (v3 runner): %d of %d sampled cases differ between vm_compute and the extracted runner" % (bad, len(exprs))]
    check.coverage["extraction_crosscheck_v3"] = {"sampled_cases_evaluated_in_coq": len(exprs), "differences": bad}
    return len(exprs)

"""Check side of the Python-layer correspondence (shared by C01, C03, C06, C19): scripts of socket results are run through
the real SnmpSession / iterator classes with a scripted socket object (harness/py/pylayer.py) and through
Model.PyLayer.run_api (extracted, `pyapi` command); traces and outcomes must be identical.  On top, oracles stated here
independently of the model: every request is preceded by exactly one policer consultation; BlockingIOError /
StopAsyncIteration never leave the blocking client; get_many hands over exactly the OIDs given."""
import os
import sys

from lib import vf

sys.path.insert(0, os.path.join(vf.VERIF, "harness", "py"))
import pylayer as pl  # noqa: E402

SOCK_EXC = ["BlockingIOError", "SnmpDecodeError", "SnmpAuthError", "NoSuchInstance", "SnmpError", "OSError", "ValueError", "RuntimeError",
            "StopAsyncIteration", "TimeoutError", "SnmpEncodeError"]
SENDS = {"get", "get_many", "get_next", "get_bulk", "send_get", "send_get_many", "send_get_next", "send_get_bulk"}


def gen_case(rng, ids):
    mode = rng.choice(["s", "a"])
    ver = rng.choice(["v1", "v2c", "v3"])
    api_kind = rng.choice(["get", "getmany", "getnext", "getbulk", "getbulk", "fetch", "fetch"])
    oid = rng.choice(["1.3.6.1", "1.3.6.1.2.1.1", "0.0", "1.3.6.1.4.1.99999.1"])
    if api_kind == "get":
        api = ["get", oid]
    elif api_kind == "getmany":
        base = [oid, "1.3.6.1.2", "1.3.6.1.3"]
        api = ["getmany", [rng.choice(base) for _ in range(rng.choice([0, 1, 2, 3, 5]))]]      # repetitions included
    elif api_kind == "getbulk":
        api = ["getbulk", oid, rng.choice([None, None, 0, 1, 2, 7, 50])]
    else:
        api = [api_kind, oid]
    single = api_kind in ("get", "getmany")
    allow_bulk = rng.choice([0, 1, 1, 1])
    walk_bulk = api_kind == "getbulk" or (api_kind == "fetch" and ver != "v1" and allow_bulk)
    script = []
    n_req = 1 if single else rng.randint(1, 5)

    def nid():
        ids[0] += 1
        return ids[0]
    for k in range(n_req):
        # the send (async only): now and then the buffer is full first; rarely the send fails
        if mode == "a":
            x = rng.random()
            if x < 0.12:
                script.append("xBlockingIOError")
                script.append("r0" if rng.random() < 0.8 else "x" + rng.choice(["OSError", "BlockingIOError", "ValueError"]))
                if script[-1] != "r0":
                    break
            elif x < 0.17:
                script.append("x" + rng.choice(["OSError", "ValueError", "SnmpEncodeError"]))
                break
            else:
                script.append("r0")
            for _ in range(rng.choice([0, 0, 0, 1, 2])):      # the descriptor was readable but nothing for us yet
                script.append("xBlockingIOError")
        x = rng.random()
        last = k == n_req - 1
        if x < 0.08 and mode == "a":
            script.append("t")
            break
        if x < 0.2 or (last and not single and x < 0.5):
            script.append("x" + rng.choice(SOCK_EXC if mode == "s" else [e for e in SOCK_EXC if e != "BlockingIOError"]))
            break
        if single:
            script.append("r%d" % nid())
        elif api_kind == "getnext" or (api_kind == "fetch" and not walk_bulk):
            script.append("r%d" % nid())
        else:
            n = rng.choice([0, 1, 2, 3, 6])
            l = [str(nid()) for _ in range(n)]
            if l and (last or rng.random() < 0.2):
                l.insert(rng.randint(0, len(l)), "n")
                if rng.random() < 0.3:
                    l.append(str(nid()))
            script.append("l" + ".".join(l))
            if not l or "n" in l:
                break
    return {"mode": mode, "pol": rng.choice([0, 1, 1]), "ver": ver, "allow_bulk": allow_bulk, "max_rep": rng.choice([1, 2, 20, 50]),
            "fuel": rng.choice([1, 3, 40, 40, 40]), "api": api, "script": script, "container": rng.choice(["list", "tuple", "iter", "gen"])}


def oracle(c, cs, out, prop):
    """Independent statements on the implementation's own trace."""
    if out.startswith("HANG") or "END exc:HANG" in out:
        c.violation("Python layer: %s on script %s never returns (%s client)" % (cs["api"][0], ",".join(cs["script"])[:80], "blocking" if cs["mode"] == "s" else "asyncio"),
                    {"case": cs, "outcome": out}, key="pylayer-hang:" + cs["api"][0])
        return
    if not out.startswith("EV "):
        return
    ev, items, end, rest = [x.split(" ", 1)[1] if " " in x else "" for x in out.split(" | ")]
    evs = [] if ev == "-" else ev.split(" ")
    sync = cs["mode"] == "s"
    # policing: every sending call is preceded by its own consultation (a repeated send right after a full buffer shares it)
    credit = 0
    prev = None
    for i, e in enumerate(evs):
        if e == "P":
            credit += 1
            if credit > 1 or not cs["pol"]:
                c.violation("Python layer (%s): the policer is consulted %s" % (pl.model_line(cs)[:80], "twice for one request" if cs["pol"] else "although none is configured"),
                            {"case": cs, "trace": out}, key="pylayer-policed-twice")
                break
        elif e.startswith("S:") and e.split(":")[1] in SENDS:
            if cs["pol"]:
                if credit == 1:
                    credit = 0
                elif not (not sync and prev == e):
                    c.violation("Python layer: request `%s` (event %d of `%s`) is sent without consulting the session's policer" % (e, i, " ".join(evs)[:160]),
                                {"case": cs, "trace": out}, key="pylayer-unpoliced:" + e.split(":")[1])
                    break
        prev = e
    if sync and end in ("exc:BlockingIOError",):
        c.violation("Python layer (sync): BlockingIOError reaches the caller of %s (documented: TimeoutError)" % cs["api"][0], {"case": cs, "trace": out}, key="pylayer-blockingio")
    if sync and cs["api"][0] not in ("get", "getmany") and end == "exc:StopAsyncIteration":
        c.violation("Python layer (sync): a blocking iterator ends with StopAsyncIteration", {"case": cs, "trace": out}, key="pylayer-stopasync")
    if cs["api"][0] == "getmany":
        want = "O" + ",".join(x.encode().hex() for x in cs["api"][1])
        for e in evs:
            if e.startswith("S:") and e.split(":")[1] in ("get_many", "send_get_many") and e.split(":", 2)[2] != want:
                c.violation("Python layer: get_many(%s) hands the socket %s" % (cs["api"][1], e), {"case": cs, "trace": out}, key="pylayer-getmany-args")
                break


def gen_prog(rng, ids):
    """A program on one session: iterators created, advanced in any interleaving, used again after they raised, abandoned;
    single calls in between.  The script is generated alongside by following what each command consumes."""
    mode = rng.choice(["s", "a"])
    ver = rng.choice(["v1", "v2c", "v3"])
    allow_bulk = rng.choice([0, 1, 1, 1])
    script, prog, its = [], [], []

    def nid():
        ids[0] += 1
        return ids[0]

    def send_part():
        """-> False when the send itself fails (nothing is received then)"""
        if mode != "a":
            return True
        x = rng.random()
        if x < 0.1:
            script.append("xBlockingIOError")
            if rng.random() < 0.85:
                script.append("r0")
            else:
                script.append("x" + rng.choice(["OSError", "BlockingIOError"]))
                return False
        elif x < 0.14:
            script.append("x" + rng.choice(["OSError", "ValueError"]))
            return False
        else:
            script.append("r0")
        for _ in range(rng.choice([0, 0, 0, 1, 2])):
            script.append("xBlockingIOError")
        return True

    def failure():
        """an exception or (async) the timer -> token"""
        if mode == "a" and rng.random() < 0.4:
            return "t"
        return "x" + rng.choice([e for e in SOCK_EXC if mode == "s" or e != "BlockingIOError"])
    for _ in range(rng.randint(4, 14)):
        x = rng.random()
        if (x < 0.25 and len(its) < 3) or (not its and x >= 0.4):
            kind = rng.choice(["getnext", "getbulk", "getbulk", "fetch"])
            oid = rng.choice(["1.3.6.1", "1.3.6.1.2.1.2.2", "1.0.8802"])
            api = [kind, oid] + ([rng.choice([None, 0, 1, 3, 50])] if kind == "getbulk" else [])
            bulk = kind == "getbulk" or (kind == "fetch" and ver != "v1" and allow_bulk)
            its.append({"bulk": bulk, "buf": []})
            prog.append(["n", api])
        elif x < 0.4:
            api = rng.choice([["get", "1.3.6.1.2.1.1.5.0"], ["getmany", [rng.choice(["1.3.6.1.2", "1.3.6.1.3", "0.0"]) for _ in range(rng.choice([0, 1, 3]))]]])
            prog.append(["c", api])
            if send_part():
                script.append("r%d" % nid() if rng.random() < 0.8 else failure())
        else:
            i = rng.randrange(len(its))
            it = its[i]
            prog.append(["x", i])
            if it["bulk"] and it["buf"]:
                it["buf"].pop(0)                    # an item, or the end marker: nothing is asked of the socket
                continue
            if not send_part():
                continue
            if rng.random() < 0.22:
                script.append(failure())            # the iterator raises; it may be used again later
                continue
            if not it["bulk"]:
                script.append("r%d" % nid())
                continue
            n = rng.choice([0, 1, 2, 3, 5])
            l = [str(nid()) for _ in range(n)]
            if l and rng.random() < 0.3:
                l.insert(rng.randint(0, len(l)), "n")
            script.append("l" + ".".join(l))
            it["buf"] = l[1:] if l else []
    return {"mode": mode, "pol": rng.choice([0, 1, 1]), "ver": ver, "allow_bulk": allow_bulk, "max_rep": rng.choice([1, 2, 20]), "prog": prog,
            "script": script, "container": rng.choice(["list", "tuple", "iter", "gen"])}


def prog_oracle(c, cs, out):
    """on the implementation's own record: a hang is a violation; the policing discipline holds for programs too"""
    if out.startswith("HANG") or "exc:HANG" in out:
        c.violation("Python layer: a program of calls and iterators on one session never returns: %s" % pl.prog_model_line(cs)[:160], {"case": cs, "outcome": out},
                    key="pyprog-hang")
        return
    if not out.startswith("EV "):
        return
    evs = out.split(" | ")[0][3:].split(" ")
    credit, prev = 0, None
    for i, e in enumerate(evs):
        if e == "P":
            credit += 1
            if credit > 1 or not cs["pol"]:
                c.violation("Python layer: in a program on one session the policer is consulted %s (event %d of `%s`)"
                            % ("twice for one request" if cs["pol"] else "although none is configured", i, " ".join(evs)[:200]), {"case": cs, "trace": out}, key="pyprog-policed-twice")
                return
        elif e.startswith("S:") and e.split(":")[1] in SENDS and cs["pol"]:
            if credit == 1:
                credit = 0
            elif not (cs["mode"] == "a" and prev == e):
                c.violation("Python layer: in a program on one session request `%s` (event %d of `%s`) goes out without consulting the policer" % (e, i, " ".join(evs)[:200]),
                            {"case": cs, "trace": out}, key="pyprog-unpoliced:" + e.split(":")[1])
                return
        prev = e


def run_progs(c, cexe, rng, n):
    """programs of several objects on one session against Model.PyLayer.run_prog -> (cases, disagreements)"""
    ids = [0]
    cases = [gen_prog(rng, ids) for _ in range(n)]
    mo = vf.run_lines(cexe, [pl.prog_model_line(cs) for cs in cases])
    keep = [(cs, m) for cs, m in zip(cases, mo) if "bad" not in m.split(" | ")[1] and m.startswith("EV ")]
    res, log = vf.run_api_worker("pylayer", {"pyprog_cases": [cs for cs, _ in keep]})
    if res is None:
        c.errors.append("Python-layer worker failed (programs): " + log[-1500:])
        return 0, 0
    outs = list(res["pyprog"])
    again = [i for i, ((cs, m), o) in enumerate(zip(keep, outs)) if o != m and "t" in cs["script"]]
    if again:
        res2, _l2 = vf.run_api_worker("pylayer", {"pyprog_cases": [dict(keep[i][0], timeout=1.5, watchdog=30.0) for i in again]})
        if res2 is not None:
            for i, o2 in zip(again, res2["pyprog"]):
                outs[i] = o2
    dis = 0
    multi = 0
    for (cs, m), o in zip(keep, outs):
        nit = sum(1 for x in cs["prog"] if x[0] == "n")
        multi += nit >= 2
        c.count(("pyprog", pl.prog_model_line(cs)), nit >= 2 or "exc:" in m)
        if o != m:
            dis += 1
            if dis <= 3:
                c.log("Model.PyLayer.run_prog and the Python layer differ on `%s`:\n     model %s\n     impl  %s" % (pl.prog_model_line(cs), m, o))
            if not any(b.startswith("correspondence (Python layer, programs)") for b in c.broken):
                c.broken = list(c.broken) + ["correspondence (Python layer, programs) `%s`: model `%s` impl `%s`" % (pl.prog_model_line(cs)[:300], m[:200], o[:200])]
            # an independent statement of what went wrong, when one applies: an item delivered twice or to the wrong iterator
            mi = [x for x in m.split(" | ")[1][5:].split(",") if x.startswith("ret:") and x != "ret:0"]
            oi = [x for x in o.split(" | ")[1][5:].split(",") if x.startswith("ret:") and x != "ret:0"] if " | OUTS " in o else []
            if len(oi) != len(set(oi)):
                c.violation("Python layer: an item is handed out twice within one session (iterators reused after an exception, or two iterators): %s"
                            % [x for x in oi if oi.count(x) > 1][:4], {"case": cs, "model": m, "observed": o}, key="pyprog-item-twice")
            elif oi != mi and sorted(oi) == sorted(mi):
                c.violation("Python layer: items reach the caller in another order / through another iterator than the one that asked for them",
                            {"case": cs, "model": m, "observed": o}, key="pyprog-item-misrouted")
        prog_oracle(c, cs, o)
    c.coverage["python_layer_programs"] = {"cases": len(keep), "dropped_misfit_scripts": len(cases) - len(keep), "with_two_or_more_iterators": multi, "disagreements": dis}
    return len(keep), dis


def run(c, cexe, rng, n, prop):
    """-> (cases, disagreements)"""
    ids = [0]
    cases = []
    while len(cases) < n:
        cases.append(gen_case(rng, ids))
    mo = vf.run_lines(cexe, [pl.model_line(cs) for cs in cases])
    # scripts that do not fit the calls (the model says `bad`) are not run: they say nothing about the code
    keep = [(cs, m) for cs, m in zip(cases, mo) if "END bad" not in m]
    res, log = vf.run_api_worker("pylayer", {"pylayer_cases": [cs for cs, _ in keep]})
    if res is None:
        c.errors.append("Python-layer worker failed: " + log[-1500:])
        return 0, 0
    dis = 0
    stats = {}
    outs = list(res["pylayer"])
    # a disagreement that involves the wall clock is repeated once with a ten times longer timeout before it counts
    again = [i for i, ((cs, m), o) in enumerate(zip(keep, outs)) if o != m and "t" in cs["script"]]
    if again:
        res2, log2 = vf.run_api_worker("pylayer", {"pylayer_cases": [dict(keep[i][0], timeout=1.5) for i in again]})
        if res2 is not None:
            for i, o2 in zip(again, res2["pylayer"]):
                outs[i] = o2
        c.coverage["python_layer_retried_for_timing"] = len(again)
    for (cs, m), o in zip(keep, outs):
        c.count(("pylayer", pl.model_line(cs)), len(cs["script"]) >= 2)
        k = (cs["mode"], cs["api"][0], m.split(" | ")[2].split(":")[0])
        stats[k] = stats.get(k, 0) + 1
        if o != m:
            dis += 1
            if dis <= 3:
                c.log("Model.PyLayer and the Python layer differ on `%s`:\n     model %s\n     impl  %s" % (pl.model_line(cs), m, o))
            if not any(b.startswith("correspondence (Python layer)") for b in c.broken):
                c.broken = list(c.broken) + ["correspondence (Python layer) `%s`: model `%s` impl `%s`" % (pl.model_line(cs), m[:200], o[:200])]
        oracle(c, cs, o, prop)
    np_, dp_ = run_progs(c, cexe, rng, max(60, n // 3))
    dis += dp_
    c.coverage["python_layer"] = {"cases": len(keep), "dropped_misfit_scripts": len(cases) - len(keep), "disagreements": dis,
                                  "by_mode_api_ending": {"%s/%s/%s" % k: v for k, v in sorted(stats.items())}}
    return len(keep), dis

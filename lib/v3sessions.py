"""A battery of SNMPv3 sessions that LEARN their engine id, shared by the v3 checks (C09, C10, C11, C12, C14): what a
session configured with keys sends and accepts must not depend on how the engine id became known.

Dimensions: engine id not given as None / as b"" x first discovery probe answered / lost and the entry retried x
{sync, async} x {MD5, SHA-1} x {none, DES, AES} x key types chosen independently for both keys.  Passwords come from
a small pool shared by both digests and by all sessions of the run (they all live in one worker process), so that
anything the library remembers per password is met again under the other digest.

`judge` yields (kind, message, detail) for every expectation a session fails; each check reports the kinds that are
its property's business under its own violation keys."""
import hashlib
import hmac
import os
import sys

from lib import gen, vf

sys.path.insert(0, os.path.join(vf.VERIF, "harness", "py"))
import ber  # noqa: E402
import scen  # noqa: E402

KS = {"md5": 16, "sha1": 20}


def build(rng, thorough, n_gets=3, extra_steps=None):
    pool = [gen.rbytes(rng, n, False).hex() for n in (8, 11, 16, 20)]
    scs = []
    combos = [(a, p) for a in ("md5", "sha1") for p in (None, "des", "aes")]
    for auth, priv in combos:
        for lost in (False, True):
            for empty in (False, True):
                modes = ("sync", "async") if thorough else (("sync", "async")[(len(scs) + lost) % 2],) if not (lost and not empty) else ("sync", "async")
                for mode in modes:
                    ks = KS[auth]
                    kt = rng.choice([0, 0, 1, 2])
                    pkt = rng.choice([0, 0, 1, 2])
                    akey = rng.choice(pool) if kt == 0 else gen.rbytes(rng, ks, False).hex()
                    pkey = rng.choice(pool) if pkt == 0 else gen.rbytes(rng, ks, False).hex()
                    eng = (b"\x80\x00\x1f\x88" + gen.rbytes(rng, rng.choice([1, 5, 13, 28]), False)).hex()
                    v3 = {"user": "user%d" % rng.randrange(100), "auth": [auth, kt, akey], "priv": [priv, pkt, pkey] if priv else None,
                          "engine_id": None, "agent_engine_id": eng, "boots": rng.randrange(2 ** 31), "time": rng.randrange(2 ** 31),
                          "engine_id_empty": empty}
                    report = {"pdu_tag": 0xA8, "mac": "absent", "encrypt": "no", "flags": 0, "boots": v3["boots"], "time": v3["time"]}
                    steps = [{"op": "enter", "replies": [[report]], "default_reply": report}]
                    if lost:
                        steps = [{"op": "enter", "replies": [[]], "_lost": True}] + steps
                    for k in range(n_gets):
                        vb = ber.varbind(ber.enc_oid([1, 3, 6, 1, 2, 1, 1, 3, 0]), ber.enc_value("tt", k))
                        steps.append({"op": "get", "args": ["1.3.6.1.2.1.1.3.0"], "replies": [[{"vbs": vb.hex(), "boots": v3["boots"], "time": v3["time"]}]], "_get": k})
                    for st in (extra_steps(v3) if extra_steps else []):
                        steps.append(st)
                    scs.append({"version": "v3", "mode": mode, "timeout": 0.25, "v3": v3, "steps": steps, "_lost": lost, "_empty": empty})
    return scs


def strip(sc):
    return dict({k: v for k, v in sc.items() if not k.startswith("_")}, steps=[{k: v for k, v in st.items() if not k.startswith("_")} for st in sc["steps"]])


def label(sc):
    v3 = sc["v3"]
    return "%s/%s/%s session, key types %s/%s, engine id not given (%s)%s" % (
        v3["auth"][0], v3["priv"] and v3["priv"][0], sc["mode"], v3["auth"][1], v3["priv"] and v3["priv"][1],
        'b""' if sc["_empty"] else "None", ", first probe lost and entry retried" if sc["_lost"] else "")


def judge(sc, rec):
    """-> list of (kind, message, detail); kinds: create, entry, user, engine-id, auth-flag, mac, priv-flag, decrypt, padding, salt, get"""
    out = []
    v3 = sc["v3"]
    if rec.get("create_error"):
        return [("create", "the session could not be created: %s" % rec["create_error"], None)]
    eng = bytes.fromhex(v3["agent_engine_id"])
    keys = scen.V3Keys(v3, eng)
    steps = list(zip(sc["steps"], rec["steps"]))
    if sc["_lost"]:
        st, o = steps.pop(0)
        if o["kind"] == "RET":
            out.append(("entry", "entry returned although the discovery probe was never answered", o))
    st, o = steps.pop(0)
    if o["kind"] != "RET":
        return out + [("entry", "entry failed: %s" % o.get("exc"), o)]
    salts = []
    for st, o in steps:
        if "_get" not in st:
            continue
        for q in o["requests"]:
            if "error" in q:
                out.append(("malformed", "request %d is not well formed: %s" % (st["_get"], q["error"]), q))
                continue
            if bytes.fromhex(q.get("user", "")) != v3["user"].encode():
                out.append(("user", "request %d carries user %r, the session's user is %r" % (st["_get"], bytes.fromhex(q.get("user", "")), v3["user"]), q))
            if q.get("engine_id") != v3["agent_engine_id"]:
                out.append(("engine-id", "request %d carries engine id %s, the agent's is %s" % (st["_get"], q.get("engine_id"), v3["agent_engine_id"]), q))
            raw = bytes.fromhex(o["emitted"][0]) if o["emitted"] else b""
            off = q.get("auth_offset")
            if not (q.get("flags", 0) & 1) or off is None or len(q.get("auth", "")) != 24:
                out.append(("auth-flag", "request %d: auth flag %d, %d-octet msgAuthenticationParameters; the session holds an authentication key"
                            % (st["_get"], q.get("flags", 0) & 1, len(q.get("auth", "")) // 2), q))
            else:
                z = raw[:off] + bytes(12) + raw[off + 12:]
                if hmac.new(keys.auth_key, z, keys.auth[0]).digest()[:12].hex() != q.get("auth"):
                    out.append(("mac", "request %d: msgAuthenticationParameters %s are not HMAC-%s-96 of the message under the user's key localized to the engine id in it"
                                % (st["_get"], q.get("auth"), keys.auth[0].upper()), q))
            if v3["priv"]:
                pp = q.get("priv", "")
                if not (q.get("flags", 0) & 2) or len(pp) != 16:
                    out.append(("priv-flag", "request %d: priv flag %d, %d-octet msgPrivacyParameters; the session holds a privacy key"
                                % (st["_get"], (q.get("flags", 0) >> 1) & 1, len(pp) // 2), q))
                    if q.get("pdu"):
                        out.append(("clear", "request %d: the scoped PDU (context engine id, OIDs) is readable in the datagram" % st["_get"], q))
                else:
                    salts.append(pp)
                    if q.get("decrypt_error") or not q.get("pdu"):
                        out.append(("decrypt", "request %d: msgData does not decrypt to a scoped PDU under the privacy key localized to the engine id in the message (%s)"
                                    % (st["_get"], q.get("decrypt_error")), {k: q.get(k) for k in ("flags", "priv", "engine_id", "decrypt_error")}))
                    else:
                        pad = bytes.fromhex(q.get("padding", ""))
                        if any(pad) or len(pad) >= (8 if v3["priv"][0] == "des" else 16):
                            out.append(("padding", "request %d: the scoped PDU is followed by %s" % (st["_get"], pad.hex()), q))
        if not (o["kind"] == "RET" and o.get("value") == "int:%d" % st["_get"]):
            out.append(("get", "get %d answered by the agent gave %s" % (st["_get"], o.get("value") or o.get("exc")), o))
    if len(set(salts)) != len(salts):
        out.append(("salt", "msgPrivacyParameters repeat within the session: %s" % salts, salts))
    return out


def run(c, v3exe, prop, kinds, scs=None, n_gets=3, extra_steps=None, key_prefix="discovered"):
    """Build (unless given), run and judge the battery for property `prop`, reporting the failure kinds in `kinds`
    (plus create / entry / get / malformed, which make any judgment impossible).  -> (scs, records)"""
    thorough = c.tier == "thorough"
    if scs is None:
        scs = build(c.rng, thorough, n_gets, extra_steps)
    res, log = vf.run_api_worker(prop, {"scenarios": [strip(sc) for sc in scs], "model_exe": v3exe}, timeout=1200)
    if res is None:
        c.errors.append("API worker failed: " + log[-1500:])
        return scs, None
    always = {"create", "entry", "get", "malformed"}
    # a reply that came too late for the 0.25 s timeout (a loaded machine) says nothing about these properties: sessions with a
    # timed-out step are run once more with a timeout of 1.5 s before they are judged
    slow = [i for i, (sc, rec) in enumerate(zip(scs, res["records"])) if "driver_error" not in rec and not rec.get("create_error")
            and any(o.get("exc") in ("TimeoutError", "BlockingIOError") for st, o in zip(sc["steps"], rec["steps"]) if not st.get("_lost") and "_forged" not in st)]
    if slow:
        res2, _log2 = vf.run_api_worker(prop, {"scenarios": [dict(strip(scs[i]), timeout=1.5) for i in slow], "model_exe": v3exe}, timeout=1200)
        if res2 is not None:
            for i, rec in zip(slow, res2["records"]):
                res["records"][i] = rec
        c.coverage["sessions_rerun_with_a_longer_timeout"] = len(slow)
    for sc, rec in zip(scs, res["records"]):
        if "driver_error" in rec:
            c.errors.append("API driver error: " + rec["driver_error"])
            continue
        c.count((key_prefix, label(sc), sc["v3"]["user"], sc["v3"]["agent_engine_id"]), True)
        for kind, msg, detail in judge(sc, rec):
            if kind in kinds or kind in always:
                c.violation("%s: %s" % (label(sc), msg), {"scenario": strip(sc), "detail": detail}, key="%s:%s" % (key_prefix, kind))
    c.coverage["sessions_learning_their_engine_id"] = len(scs)
    return scs, res["records"]

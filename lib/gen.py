"""Case generators shared by the property checks (all randomness from the rng handed in)."""
import os
import sys

from lib import vf

sys.path.insert(0, os.path.join(vf.VERIF, "harness", "py"))
import ber  # noqa: E402

BOUNDARY_BYTES = [0, 1, 2, 4, 5, 6, 9, 0x0d, 0x30, 0x7f, 0x80, 0x81, 0x82, 0x84, 0xff, 0x1f, 0x3f, 0x40, 0x41, 0x42, 0x43, 0x44,
                  0x46, 0x47, 0xa0, 0xa1, 0xa2, 0xa5, 0xa8]

INT_BOUNDS = sorted(set([0, 1, -1] + [s * (2 ** k) + d for k in (7, 8, 15, 16, 23, 24, 31, 32, 39, 40, 47, 48, 55, 56, 63)
                                      for s in (1, -1) for d in (-2, -1, 0, 1, 2)
                                      if -2 ** 63 <= s * (2 ** k) + d < 2 ** 63]))
ARC_BOUNDS = [0, 1, 39, 40, 127, 128, 255, 256, 16383, 16384, 2 ** 21 - 1, 2 ** 21, 2 ** 28 - 1, 2 ** 28, 2 ** 32 - 1]

VALUE_KINDS = ["int", "c32", "g32", "tt", "u32", "c64", "os", "op", "od", "ip", "oid", "bool", "null", "nso", "nsi", "eomv", "real"]
DATA_KINDS = ["int", "c32", "g32", "tt", "u32", "c64", "os", "op", "od", "ip", "oid", "bool"]


def hx(b):
    return bytes(b).hex() or "-"


def rbytes(rng, n, biased=True):
    if biased:
        return bytes(rng.choice(BOUNDARY_BYTES + [rng.randrange(256)] * 6) for _ in range(n))
    return bytes(rng.randrange(256) for _ in range(n))


def rarcs(rng, maxlen=8, valid=True):
    a0 = rng.randint(0, 2)
    a1 = rng.randint(0, 39)
    n = rng.choice([0, 1, 2, 3, 5, maxlen])
    return [a0, a1] + [rng.choice(ARC_BOUNDS + [rng.randrange(2 ** 32), rng.randrange(300)]) for _ in range(n)]


def rvalue(rng, kinds=None):
    """-> (kind, python-side value, extra) ; for real the value is the content octets"""
    k = rng.choice(kinds or VALUE_KINDS)
    if k == "int":
        v = rng.choice(INT_BOUNDS + [rng.randrange(-2 ** 63, 2 ** 63)] * 3 + [rng.randrange(-70000, 70000)] * 3)
    elif k in ("c32", "g32", "tt", "u32"):
        v = rng.choice([0, 1, 127, 128, 255, 256, 2 ** 31 - 1, 2 ** 31, 2 ** 32 - 1, rng.randrange(2 ** 32)])
    elif k == "c64":
        v = rng.choice([0, 1, 2 ** 32, 2 ** 63 - 1, 2 ** 63, 2 ** 64 - 1, rng.randrange(2 ** 64)])
    elif k in ("os", "op", "od"):
        v = rbytes(rng, rng.choice([0, 1, 2, 20, 127, 128, 255, 256, 300]), biased=False)
    elif k == "ip":
        v = [rng.randrange(256) for _ in range(4)]
    elif k == "oid":
        v = rarcs(rng)
    elif k == "bool":
        v = rng.random() < 0.5
    elif k == "real":
        v = rreal(rng)
    else:
        v = None
    return k, v


REAL_TEXTS = ["456", "-456", "456.7", "-456.7", "4567e-1", "-4567E-1", "1E+0", "15E-1", "+1.", ".5", "0", "-0", "1e400", "1e-400",
              "123456789012345678901234567890", "0.1", "2.2250738585072014e-308", "4.9e-324", "1.7976931348623157e308",
              "inf", "-inf", "nan", "infinity", "x", "1_0", "", " 1", "1 ", "1,5", "--1", "1e", "e5", ".", "+", "1.e3", "2147483647",
              "2147483648", "-2147483648", "-2147483649", "00012"]


def rreal(rng):
    t = rng.randint(0, 7)
    if t == 0:
        return b""
    if t == 1:
        return ber.real_dec_content(rng.choice([1, 2, 3, 4, 0]), rng.choice(REAL_TEXTS))
    if t == 2:
        return bytes([rng.choice([0x40, 0x41, 0x42, 0x43, 0x44, 0x45, 0x7f])])
    if t == 3:   # exactly an IEEE double
        import struct
        x = rng.choice([1.0, -1.5, 3.141592653589793, 1e-300, 1e300, 5e-324, 2.2250738585072014e-308, rng.uniform(-1e6, 1e6),
                        rng.random() * 10 ** rng.randint(-300, 300)])
        bits = struct.unpack(">Q", struct.pack(">d", x))[0]
        e = ((bits >> 52) & 0x7FF)
        m = bits & ((1 << 52) - 1)
        if e == 0:
            mant, ex = m, -1074
        else:
            mant, ex = m | (1 << 52), e - 1075
        return ber.real_bin_content(-1 if bits >> 63 else 1, mant, ex, 2, 0, rng.choice([None, None, 3, 4]))
    if t == 4:   # truncated / odd binary forms
        c = ber.real_bin_content(1, rng.randrange(2 ** 20), rng.randint(-20, 20), rng.choice([2, 8, 16]), rng.randint(0, 3))
        return c[:rng.randint(1, len(c))]
    return ber.real_bin_content(rng.choice([1, -1]),
                                rng.choice([0, 1, 3, 2 ** 53 - 1, 2 ** 53 + 1, 2 ** 64 - 1, 2 ** 70, 2 ** 128 - 1, 2 ** 128,
                                            rng.randrange(2 ** 64)]),
                                rng.choice([0, 1, -1, -1074, -1100, 1023, 971, 1024, -5, rng.randint(-1200, 1200), 2 ** 20, -2 ** 40,
                                            2 ** 62, -2 ** 63]),
                                rng.choice([2, 8, 16]), rng.randint(0, 3), rng.choice([None, None, 4, 5, 9]))


def enc_rvalue(rng, k, v, legal_variants=True):
    pad = rng.choice([0, 0, 0, 1, 2]) if (legal_variants and k in ("int", "c32", "g32", "tt", "u32", "c64")) else 0
    if k == "int" and pad:
        # keep INTEGER within 8 content octets
        if len(ber.int_content(v)) + pad > 8:
            pad = 0
    form = rng.choice([None, None, None, 1, 2, 3]) if legal_variants else None
    if form is not None:
        ln = len(ber.enc_value(k, v, pad)) - 2
        if ln >= 256 ** form:
            form = None
    return ber.enc_value(k, v, pad, form)


def mutate(rng, b):
    b = bytearray(b)
    if not b:
        return bytes([rng.randrange(256)])
    t = rng.randint(0, 6)
    if t == 0:
        return bytes(b[:rng.randrange(len(b))])
    if t == 1:
        b[rng.randrange(len(b))] = rng.choice([0, 0x7f, 0x80, 0x81, 0x82, 0x84, 0xff, 0x1f, rng.randrange(256)])
    elif t == 2:
        b += rbytes(rng, rng.randint(1, 3))
    elif t == 3:
        del b[rng.randrange(len(b))]
    elif t == 4:
        b.insert(rng.randrange(len(b)), rng.randrange(256))
    elif t == 5:
        # tamper a length octet: pick a position that looks like a short length
        idx = [i for i in range(1, len(b)) if b[i] < 0x80]
        if idx:
            i = rng.choice(idx)
            b[i] = (b[i] + rng.choice([1, 2, 5, 0x40, -1])) % 256
    else:
        i = rng.randrange(len(b))
        j = rng.randrange(len(b))
        b[i], b[j] = b[j], b[i]
    return bytes(b)


def rresponse(rng, nvb=None, kinds=None, rid=None, tag=None, legal=True):
    """A GetResponse-like PDU with random varbinds; returns (pdu bytes, [(arcs, kind, value)])"""
    n = rng.choice([0, 1, 1, 2, 3, 5, 12]) if nvb is None else nvb
    desc, vbs = [], []
    for _ in range(n):
        arcs = rarcs(rng)
        k, v = rvalue(rng, kinds)
        desc.append((arcs, k, v))
        vbs.append(ber.varbind(ber.enc_oid(arcs, rng.choice([None, None, 1]) if legal else None),
                               enc_rvalue(rng, k, v, legal), rng.choice([None, None, 1, 2]) if legal else None))
    p = ber.pdu(0xA2 if tag is None else tag, rng.randrange(2 ** 31) if rid is None else rid, 0, 0, vbs,
                rng.choice([None, None, 2]) if legal else None, rng.choice([None, None, 1, 2]) if legal else None)
    return p, desc


def all_bytes_upto(n):
    """Every byte string of length 0..n (n <= 2)."""
    yield b""
    for a in range(256):
        yield bytes([a])
    if n >= 2:
        for a in range(256):
            for b in range(256):
                yield bytes([a, b])


# ---- what a value is supposed to denote (independent of the library and of the Coq model) ----
import math as _math
import re as _re
import struct as _struct
from fractions import Fraction as _Fraction

_NR = _re.compile(r"^[+-]?(\d+\.?\d*|\.\d+)([eE][+-]?\d+)?$")


def real_expected(content):
    """X.690 8.5 reading of REAL content octets -> float, or None when the octets are not a legal/supported REAL
    (not judged by the C02 oracle)."""
    if len(content) == 0:
        return 0.0
    f = content[0]
    if f & 0x80:
        if f & 3 == 3:
            if len(content) < 2:
                return None
            n, start = content[1], 2
        else:
            n, start = (f & 3) + 1, 1
        if n == 0 or len(content) < start + n or len(content) - start - n > 16 or len(content) - start - n == 0:
            return None
        e = int.from_bytes(content[start:start + n], "big", signed=True)
        mant = int.from_bytes(content[start + n:], "big")
        bb = (f >> 4) & 3
        if bb == 3:
            return None
        k = {0: 1, 1: 3, 2: 4}[bb]
        scale = (f >> 2) & 3
        p = k * e + scale
        if abs(p) > 3000:
            return None
        try:
            v = float(_Fraction(mant) * (_Fraction(2) ** p))
        except OverflowError:
            v = _math.inf
        return -v if f & 0x40 else v
    if f & 0xC0 == 0:
        try:
            t = bytes(content[1:]).decode("ascii")
        except UnicodeDecodeError:
            return None
        form = f & 0x3F
        if form == 1 and _re.match(r"^[+-]?\d+$", t) and -2 ** 31 <= int(t) < 2 ** 31:
            return float(int(t))
        if form in (2, 3) and _NR.match(t):
            return float(t)
        return None
    if len(content) == 1:
        return {0x40: _math.inf, 0x41: -_math.inf, 0x42: _math.nan, 0x43: -0.0}.get(f)
    return None


def f64bits(x):
    return _struct.unpack(">Q", _struct.pack(">d", x))[0]


def expected_render(kind, v):
    """Canonical rendering (apilib.render_pyvalue format) of the documented Python value; None = not judged."""
    if kind in ("int", "c32", "g32", "tt", "u32", "c64"):
        return "int:%d" % v
    if kind in ("os", "op", "od"):
        return "bytes:" + hx(v)
    if kind == "ip":
        return "str:" + hx(".".join(str(x) for x in v).encode())
    if kind == "oid":
        return "str:" + hx(ber.oid_text(v).encode())
    if kind == "bool":
        return "bool:%d" % (1 if v else 0)
    if kind == "real":
        x = real_expected(v)
        if x is None:
            return None
        if _math.isnan(x):
            return "float:nan"
        return "float:%016x" % f64bits(x)
    return None


def float_close(a, b):
    """Compare two `float:<bits>` renderings; subnormal results may differ by one ulp (scaling in several steps)."""
    if a == b:
        return True
    if not (a.startswith("float:") and b.startswith("float:")):
        return False
    if "nan" in (a[6:], b[6:]):
        xa = a[6:] == "nan" or _math.isnan(_struct.unpack(">d", bytes.fromhex(a[6:]))[0])
        xb = b[6:] == "nan" or _math.isnan(_struct.unpack(">d", bytes.fromhex(b[6:]))[0])
        return xa and xb
    ia, ib = int(a[6:], 16), int(b[6:], 16)
    xa = _struct.unpack(">d", bytes.fromhex(a[6:]))[0]
    return abs(ia - ib) <= 1 and abs(xa) < 2.3e-308

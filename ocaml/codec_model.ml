
(** val negb : bool -> bool **)

let negb = function
| true -> false
| false -> true

type nat =
| O
| S of nat

(** val length : 'a1 list -> nat **)

let rec length = function
| [] -> O
| _ :: l' -> S (length l')

(** val app : 'a1 list -> 'a1 list -> 'a1 list **)

let rec app l m =
  match l with
  | [] -> m
  | a :: l1 -> a :: (app l1 m)

type comparison =
| Eq
| Lt
| Gt

(** val compOpp : comparison -> comparison **)

let compOpp = function
| Eq -> Eq
| Lt -> Gt
| Gt -> Lt

module Coq__1 = struct
 (** val add : nat -> nat -> nat **)
 let rec add n0 m =
   match n0 with
   | O -> m
   | S p -> S (add p m)
end
include Coq__1

type positive =
| XI of positive
| XO of positive
| XH

type n =
| N0
| Npos of positive

type z =
| Z0
| Zpos of positive
| Zneg of positive

module Pos =
 struct
  (** val succ : positive -> positive **)

  let rec succ = function
  | XI p -> XO (succ p)
  | XO p -> XI p
  | XH -> XO XH

  (** val add : positive -> positive -> positive **)

  let rec add x y =
    match x with
    | XI p ->
      (match y with
       | XI q -> XO (add_carry p q)
       | XO q -> XI (add p q)
       | XH -> XO (succ p))
    | XO p ->
      (match y with
       | XI q -> XI (add p q)
       | XO q -> XO (add p q)
       | XH -> XI p)
    | XH -> (match y with
             | XI q -> XO (succ q)
             | XO q -> XI q
             | XH -> XO XH)

  (** val add_carry : positive -> positive -> positive **)

  and add_carry x y =
    match x with
    | XI p ->
      (match y with
       | XI q -> XI (add_carry p q)
       | XO q -> XO (add_carry p q)
       | XH -> XI (succ p))
    | XO p ->
      (match y with
       | XI q -> XO (add_carry p q)
       | XO q -> XI (add p q)
       | XH -> XO (succ p))
    | XH ->
      (match y with
       | XI q -> XI (succ q)
       | XO q -> XO (succ q)
       | XH -> XI XH)

  (** val pred_double : positive -> positive **)

  let rec pred_double = function
  | XI p -> XI (XO p)
  | XO p -> XI (pred_double p)
  | XH -> XH

  (** val pred_N : positive -> n **)

  let pred_N = function
  | XI p -> Npos (XO p)
  | XO p -> Npos (pred_double p)
  | XH -> N0

  (** val mul : positive -> positive -> positive **)

  let rec mul x y =
    match x with
    | XI p -> add y (XO (mul p y))
    | XO p -> XO (mul p y)
    | XH -> y

  (** val iter : ('a1 -> 'a1) -> 'a1 -> positive -> 'a1 **)

  let rec iter f x = function
  | XI n' -> f (iter f (iter f x n') n')
  | XO n' -> iter f (iter f x n') n'
  | XH -> f x

  (** val div2 : positive -> positive **)

  let div2 = function
  | XI p0 -> p0
  | XO p0 -> p0
  | XH -> XH

  (** val div2_up : positive -> positive **)

  let div2_up = function
  | XI p0 -> succ p0
  | XO p0 -> p0
  | XH -> XH

  (** val compare_cont : comparison -> positive -> positive -> comparison **)

  let rec compare_cont r x y =
    match x with
    | XI p ->
      (match y with
       | XI q -> compare_cont r p q
       | XO q -> compare_cont Gt p q
       | XH -> Gt)
    | XO p ->
      (match y with
       | XI q -> compare_cont Lt p q
       | XO q -> compare_cont r p q
       | XH -> Gt)
    | XH -> (match y with
             | XH -> r
             | _ -> Lt)

  (** val compare : positive -> positive -> comparison **)

  let compare =
    compare_cont Eq

  (** val eqb : positive -> positive -> bool **)

  let rec eqb p q =
    match p with
    | XI p0 -> (match q with
                | XI q0 -> eqb p0 q0
                | _ -> false)
    | XO p0 -> (match q with
                | XO q0 -> eqb p0 q0
                | _ -> false)
    | XH -> (match q with
             | XH -> true
             | _ -> false)

  (** val coq_Nsucc_double : n -> n **)

  let coq_Nsucc_double = function
  | N0 -> Npos XH
  | Npos p -> Npos (XI p)

  (** val coq_Ndouble : n -> n **)

  let coq_Ndouble = function
  | N0 -> N0
  | Npos p -> Npos (XO p)

  (** val coq_lor : positive -> positive -> positive **)

  let rec coq_lor p q =
    match p with
    | XI p0 ->
      (match q with
       | XI q0 -> XI (coq_lor p0 q0)
       | XO q0 -> XI (coq_lor p0 q0)
       | XH -> p)
    | XO p0 ->
      (match q with
       | XI q0 -> XI (coq_lor p0 q0)
       | XO q0 -> XO (coq_lor p0 q0)
       | XH -> XI p0)
    | XH -> (match q with
             | XO q0 -> XI q0
             | _ -> q)

  (** val coq_land : positive -> positive -> n **)

  let rec coq_land p q =
    match p with
    | XI p0 ->
      (match q with
       | XI q0 -> coq_Nsucc_double (coq_land p0 q0)
       | XO q0 -> coq_Ndouble (coq_land p0 q0)
       | XH -> Npos XH)
    | XO p0 ->
      (match q with
       | XI q0 -> coq_Ndouble (coq_land p0 q0)
       | XO q0 -> coq_Ndouble (coq_land p0 q0)
       | XH -> N0)
    | XH -> (match q with
             | XO _ -> N0
             | _ -> Npos XH)

  (** val ldiff : positive -> positive -> n **)

  let rec ldiff p q =
    match p with
    | XI p0 ->
      (match q with
       | XI q0 -> coq_Ndouble (ldiff p0 q0)
       | XO q0 -> coq_Nsucc_double (ldiff p0 q0)
       | XH -> Npos (XO p0))
    | XO p0 ->
      (match q with
       | XI q0 -> coq_Ndouble (ldiff p0 q0)
       | XO q0 -> coq_Ndouble (ldiff p0 q0)
       | XH -> Npos p)
    | XH -> (match q with
             | XO _ -> Npos XH
             | _ -> N0)

  (** val iter_op : ('a1 -> 'a1 -> 'a1) -> positive -> 'a1 -> 'a1 **)

  let rec iter_op op p a =
    match p with
    | XI p0 -> op a (iter_op op p0 (op a a))
    | XO p0 -> iter_op op p0 (op a a)
    | XH -> a

  (** val to_nat : positive -> nat **)

  let to_nat x =
    iter_op Coq__1.add x (S O)

  (** val of_succ_nat : nat -> positive **)

  let rec of_succ_nat = function
  | O -> XH
  | S x -> succ (of_succ_nat x)
 end

module N =
 struct
  (** val succ_pos : n -> positive **)

  let succ_pos = function
  | N0 -> XH
  | Npos p -> Pos.succ p

  (** val coq_lor : n -> n -> n **)

  let coq_lor n0 m =
    match n0 with
    | N0 -> m
    | Npos p -> (match m with
                 | N0 -> n0
                 | Npos q -> Npos (Pos.coq_lor p q))

  (** val coq_land : n -> n -> n **)

  let coq_land n0 m =
    match n0 with
    | N0 -> N0
    | Npos p -> (match m with
                 | N0 -> N0
                 | Npos q -> Pos.coq_land p q)

  (** val ldiff : n -> n -> n **)

  let ldiff n0 m =
    match n0 with
    | N0 -> N0
    | Npos p -> (match m with
                 | N0 -> n0
                 | Npos q -> Pos.ldiff p q)
 end

module Z =
 struct
  (** val double : z -> z **)

  let double = function
  | Z0 -> Z0
  | Zpos p -> Zpos (XO p)
  | Zneg p -> Zneg (XO p)

  (** val succ_double : z -> z **)

  let succ_double = function
  | Z0 -> Zpos XH
  | Zpos p -> Zpos (XI p)
  | Zneg p -> Zneg (Pos.pred_double p)

  (** val pred_double : z -> z **)

  let pred_double = function
  | Z0 -> Zneg XH
  | Zpos p -> Zpos (Pos.pred_double p)
  | Zneg p -> Zneg (XI p)

  (** val pos_sub : positive -> positive -> z **)

  let rec pos_sub x y =
    match x with
    | XI p ->
      (match y with
       | XI q -> double (pos_sub p q)
       | XO q -> succ_double (pos_sub p q)
       | XH -> Zpos (XO p))
    | XO p ->
      (match y with
       | XI q -> pred_double (pos_sub p q)
       | XO q -> double (pos_sub p q)
       | XH -> Zpos (Pos.pred_double p))
    | XH ->
      (match y with
       | XI q -> Zneg (XO q)
       | XO q -> Zneg (Pos.pred_double q)
       | XH -> Z0)

  (** val add : z -> z -> z **)

  let add x y =
    match x with
    | Z0 -> y
    | Zpos x' ->
      (match y with
       | Z0 -> x
       | Zpos y' -> Zpos (Pos.add x' y')
       | Zneg y' -> pos_sub x' y')
    | Zneg x' ->
      (match y with
       | Z0 -> x
       | Zpos y' -> pos_sub y' x'
       | Zneg y' -> Zneg (Pos.add x' y'))

  (** val opp : z -> z **)

  let opp = function
  | Z0 -> Z0
  | Zpos x0 -> Zneg x0
  | Zneg x0 -> Zpos x0

  (** val sub : z -> z -> z **)

  let sub m n0 =
    add m (opp n0)

  (** val mul : z -> z -> z **)

  let mul x y =
    match x with
    | Z0 -> Z0
    | Zpos x' ->
      (match y with
       | Z0 -> Z0
       | Zpos y' -> Zpos (Pos.mul x' y')
       | Zneg y' -> Zneg (Pos.mul x' y'))
    | Zneg x' ->
      (match y with
       | Z0 -> Z0
       | Zpos y' -> Zneg (Pos.mul x' y')
       | Zneg y' -> Zpos (Pos.mul x' y'))

  (** val compare : z -> z -> comparison **)

  let compare x y =
    match x with
    | Z0 -> (match y with
             | Z0 -> Eq
             | Zpos _ -> Lt
             | Zneg _ -> Gt)
    | Zpos x' -> (match y with
                  | Zpos y' -> Pos.compare x' y'
                  | _ -> Gt)
    | Zneg x' ->
      (match y with
       | Zneg y' -> compOpp (Pos.compare x' y')
       | _ -> Lt)

  (** val leb : z -> z -> bool **)

  let leb x y =
    match compare x y with
    | Gt -> false
    | _ -> true

  (** val ltb : z -> z -> bool **)

  let ltb x y =
    match compare x y with
    | Lt -> true
    | _ -> false

  (** val eqb : z -> z -> bool **)

  let eqb x y =
    match x with
    | Z0 -> (match y with
             | Z0 -> true
             | _ -> false)
    | Zpos p -> (match y with
                 | Zpos q -> Pos.eqb p q
                 | _ -> false)
    | Zneg p -> (match y with
                 | Zneg q -> Pos.eqb p q
                 | _ -> false)

  (** val max : z -> z -> z **)

  let max n0 m =
    match compare n0 m with
    | Lt -> m
    | _ -> n0

  (** val min : z -> z -> z **)

  let min n0 m =
    match compare n0 m with
    | Gt -> m
    | _ -> n0

  (** val to_nat : z -> nat **)

  let to_nat = function
  | Zpos p -> Pos.to_nat p
  | _ -> O

  (** val of_nat : nat -> z **)

  let of_nat = function
  | O -> Z0
  | S n1 -> Zpos (Pos.of_succ_nat n1)

  (** val of_N : n -> z **)

  let of_N = function
  | N0 -> Z0
  | Npos p -> Zpos p

  (** val pos_div_eucl : positive -> z -> z * z **)

  let rec pos_div_eucl a b =
    match a with
    | XI a' ->
      let (q, r) = pos_div_eucl a' b in
      let r' = add (mul (Zpos (XO XH)) r) (Zpos XH) in
      if ltb r' b
      then ((mul (Zpos (XO XH)) q), r')
      else ((add (mul (Zpos (XO XH)) q) (Zpos XH)), (sub r' b))
    | XO a' ->
      let (q, r) = pos_div_eucl a' b in
      let r' = mul (Zpos (XO XH)) r in
      if ltb r' b
      then ((mul (Zpos (XO XH)) q), r')
      else ((add (mul (Zpos (XO XH)) q) (Zpos XH)), (sub r' b))
    | XH -> if leb (Zpos (XO XH)) b then (Z0, (Zpos XH)) else ((Zpos XH), Z0)

  (** val div_eucl : z -> z -> z * z **)

  let div_eucl a b =
    match a with
    | Z0 -> (Z0, Z0)
    | Zpos a' ->
      (match b with
       | Z0 -> (Z0, a)
       | Zpos _ -> pos_div_eucl a' b
       | Zneg b' ->
         let (q, r) = pos_div_eucl a' (Zpos b') in
         (match r with
          | Z0 -> ((opp q), Z0)
          | _ -> ((opp (add q (Zpos XH))), (add b r))))
    | Zneg a' ->
      (match b with
       | Z0 -> (Z0, a)
       | Zpos _ ->
         let (q, r) = pos_div_eucl a' b in
         (match r with
          | Z0 -> ((opp q), Z0)
          | _ -> ((opp (add q (Zpos XH))), (sub b r)))
       | Zneg b' -> let (q, r) = pos_div_eucl a' (Zpos b') in (q, (opp r)))

  (** val div : z -> z -> z **)

  let div a b =
    let (q, _) = div_eucl a b in q

  (** val modulo : z -> z -> z **)

  let modulo a b =
    let (_, r) = div_eucl a b in r

  (** val div2 : z -> z **)

  let div2 = function
  | Z0 -> Z0
  | Zpos p -> (match p with
               | XH -> Z0
               | _ -> Zpos (Pos.div2 p))
  | Zneg p -> Zneg (Pos.div2_up p)

  (** val shiftl : z -> z -> z **)

  let shiftl a = function
  | Z0 -> a
  | Zpos p -> Pos.iter (mul (Zpos (XO XH))) a p
  | Zneg p -> Pos.iter div2 a p

  (** val shiftr : z -> z -> z **)

  let shiftr a n0 =
    shiftl a (opp n0)

  (** val coq_lor : z -> z -> z **)

  let coq_lor a b =
    match a with
    | Z0 -> b
    | Zpos a0 ->
      (match b with
       | Z0 -> a
       | Zpos b0 -> Zpos (Pos.coq_lor a0 b0)
       | Zneg b0 -> Zneg (N.succ_pos (N.ldiff (Pos.pred_N b0) (Npos a0))))
    | Zneg a0 ->
      (match b with
       | Z0 -> a
       | Zpos b0 -> Zneg (N.succ_pos (N.ldiff (Pos.pred_N a0) (Npos b0)))
       | Zneg b0 ->
         Zneg (N.succ_pos (N.coq_land (Pos.pred_N a0) (Pos.pred_N b0))))

  (** val coq_land : z -> z -> z **)

  let coq_land a b =
    match a with
    | Z0 -> Z0
    | Zpos a0 ->
      (match b with
       | Z0 -> Z0
       | Zpos b0 -> of_N (Pos.coq_land a0 b0)
       | Zneg b0 -> of_N (N.ldiff (Npos a0) (Pos.pred_N b0)))
    | Zneg a0 ->
      (match b with
       | Z0 -> Z0
       | Zpos b0 -> of_N (N.ldiff (Npos b0) (Pos.pred_N a0))
       | Zneg b0 ->
         Zneg (N.succ_pos (N.coq_lor (Pos.pred_N a0) (Pos.pred_N b0))))
 end

(** val nth_error : 'a1 list -> nat -> 'a1 option **)

let rec nth_error l = function
| O -> (match l with
        | [] -> None
        | x :: _ -> Some x)
| S n1 -> (match l with
           | [] -> None
           | _ :: l0 -> nth_error l0 n1)

(** val rev : 'a1 list -> 'a1 list **)

let rec rev = function
| [] -> []
| x :: l' -> app (rev l') (x :: [])

(** val map : ('a1 -> 'a2) -> 'a1 list -> 'a2 list **)

let rec map f = function
| [] -> []
| a :: t -> (f a) :: (map f t)

(** val fold_left : ('a1 -> 'a2 -> 'a1) -> 'a2 list -> 'a1 -> 'a1 **)

let rec fold_left f l a0 =
  match l with
  | [] -> a0
  | b :: t -> fold_left f t (f a0 b)

type bytes = z list

type err =
| Incomplete
| UnexpectedTag
| InvalidTagFormat
| UnknownPdu
| InvalidPdu
| InvalidData
| InvalidKey
| UnsupportedTag
| TrailingData
| InvalidVersion
| OutOfBuffer
| NotImplemented
| NoSuchInstance
| SocketError
| WouldBlock
| ConnectionRefused
| UnknownSecurityModel
| AuthenticationFailed

type 'a res =
| Ok of 'a
| Err of err
| Panic

(** val bind : 'a1 res -> ('a1 -> 'a2 res) -> 'a2 res **)

let bind r f =
  match r with
  | Ok a -> f a
  | Err e -> Err e
  | Panic -> Panic

(** val len : bytes -> z **)

let len l =
  Z.of_nat (length l)

(** val idx : bytes -> nat -> z res **)

let idx l k =
  match nth_error l k with
  | Some b -> Ok b
  | None -> Panic

(** val takez : z -> bytes -> bytes **)

let rec takez n0 = function
| [] -> []
| x :: r -> if Z.leb n0 Z0 then [] else x :: (takez (Z.sub n0 (Zpos XH)) r)

(** val dropz : z -> bytes -> bytes **)

let rec dropz n0 l = match l with
| [] -> []
| _ :: r -> if Z.leb n0 Z0 then l else dropz (Z.sub n0 (Zpos XH)) r

(** val slice_to : bytes -> z -> bytes res **)

let slice_to l n0 =
  if (||) (Z.ltb n0 Z0) (Z.ltb (len l) n0) then Panic else Ok (takez n0 l)

(** val slice_from : bytes -> z -> bytes res **)

let slice_from l n0 =
  if (||) (Z.ltb n0 Z0) (Z.ltb (len l) n0) then Panic else Ok (dropz n0 l)

(** val wrap8 : z -> z **)

let wrap8 z0 =
  Z.modulo z0 (Zpos (XO (XO (XO (XO (XO (XO (XO (XO XH)))))))))

(** val wrap32 : z -> z **)

let wrap32 z0 =
  Z.modulo z0 (Zpos (XO (XO (XO (XO (XO (XO (XO (XO (XO (XO (XO (XO (XO (XO
    (XO (XO (XO (XO (XO (XO (XO (XO (XO (XO (XO (XO (XO (XO (XO (XO (XO (XO
    XH)))))))))))))))))))))))))))))))))

(** val wrap64 : z -> z **)

let wrap64 z0 =
  Z.modulo z0 (Zpos (XO (XO (XO (XO (XO (XO (XO (XO (XO (XO (XO (XO (XO (XO
    (XO (XO (XO (XO (XO (XO (XO (XO (XO (XO (XO (XO (XO (XO (XO (XO (XO (XO
    (XO (XO (XO (XO (XO (XO (XO (XO (XO (XO (XO (XO (XO (XO (XO (XO (XO (XO
    (XO (XO (XO (XO (XO (XO (XO (XO (XO (XO (XO (XO (XO (XO
    XH)))))))))))))))))))))))))))))))))))))))))))))))))))))))))))))))))

(** val swrap64 : z -> z **)

let swrap64 z0 =
  let m =
    Z.modulo z0 (Zpos (XO (XO (XO (XO (XO (XO (XO (XO (XO (XO (XO (XO (XO (XO
      (XO (XO (XO (XO (XO (XO (XO (XO (XO (XO (XO (XO (XO (XO (XO (XO (XO (XO
      (XO (XO (XO (XO (XO (XO (XO (XO (XO (XO (XO (XO (XO (XO (XO (XO (XO (XO
      (XO (XO (XO (XO (XO (XO (XO (XO (XO (XO (XO (XO (XO (XO
      XH)))))))))))))))))))))))))))))))))))))))))))))))))))))))))))))))))
  in
  if Z.ltb m (Zpos (XO (XO (XO (XO (XO (XO (XO (XO (XO (XO (XO (XO (XO (XO
       (XO (XO (XO (XO (XO (XO (XO (XO (XO (XO (XO (XO (XO (XO (XO (XO (XO
       (XO (XO (XO (XO (XO (XO (XO (XO (XO (XO (XO (XO (XO (XO (XO (XO (XO
       (XO (XO (XO (XO (XO (XO (XO (XO (XO (XO (XO (XO (XO (XO (XO
       XH))))))))))))))))))))))))))))))))))))))))))))))))))))))))))))))))
  then m
  else Z.sub m (Zpos (XO (XO (XO (XO (XO (XO (XO (XO (XO (XO (XO (XO (XO (XO
         (XO (XO (XO (XO (XO (XO (XO (XO (XO (XO (XO (XO (XO (XO (XO (XO (XO
         (XO (XO (XO (XO (XO (XO (XO (XO (XO (XO (XO (XO (XO (XO (XO (XO (XO
         (XO (XO (XO (XO (XO (XO (XO (XO (XO (XO (XO (XO (XO (XO (XO (XO
         XH)))))))))))))))))))))))))))))))))))))))))))))))))))))))))))))))))

(** val sat64 : z -> z **)

let sat64 z0 =
  Z.max (Zneg (XO (XO (XO (XO (XO (XO (XO (XO (XO (XO (XO (XO (XO (XO (XO (XO
    (XO (XO (XO (XO (XO (XO (XO (XO (XO (XO (XO (XO (XO (XO (XO (XO (XO (XO
    (XO (XO (XO (XO (XO (XO (XO (XO (XO (XO (XO (XO (XO (XO (XO (XO (XO (XO
    (XO (XO (XO (XO (XO (XO (XO (XO (XO (XO (XO
    XH))))))))))))))))))))))))))))))))))))))))))))))))))))))))))))))))
    (Z.min (Zpos (XI (XI (XI (XI (XI (XI (XI (XI (XI (XI (XI (XI (XI (XI (XI
      (XI (XI (XI (XI (XI (XI (XI (XI (XI (XI (XI (XI (XI (XI (XI (XI (XI (XI
      (XI (XI (XI (XI (XI (XI (XI (XI (XI (XI (XI (XI (XI (XI (XI (XI (XI (XI
      (XI (XI (XI (XI (XI (XI (XI (XI (XI (XI (XI
      XH))))))))))))))))))))))))))))))))))))))))))))))))))))))))))))))) z0)

(** val testbit : z -> z -> bool **)

let testbit b mask =
  negb (Z.eqb (Z.coq_land b mask) Z0)

(** val all_eqb : bytes -> bytes -> bool **)

let rec all_eqb a b =
  match a with
  | [] -> (match b with
           | [] -> true
           | _ :: _ -> false)
  | x :: a' ->
    (match b with
     | [] -> false
     | y :: b' -> (&&) (Z.eqb x y) (all_eqb a' b'))

(** val starts_with : bytes -> bytes -> bool **)

let rec starts_with l = function
| [] -> true
| x :: p' ->
  (match l with
   | [] -> false
   | y :: l' -> (&&) (Z.eqb x y) (starts_with l' p'))

(** val tAG_BOOL : z **)

let tAG_BOOL =
  Zpos XH

(** val tAG_INT : z **)

let tAG_INT =
  Zpos (XO XH)

(** val tAG_OCTET_STRING : z **)

let tAG_OCTET_STRING =
  Zpos (XO (XO XH))

(** val tAG_NULL : z **)

let tAG_NULL =
  Zpos (XI (XO XH))

(** val tAG_OBJECT_ID : z **)

let tAG_OBJECT_ID =
  Zpos (XO (XI XH))

(** val tAG_OBJECT_DESCRIPTOR : z **)

let tAG_OBJECT_DESCRIPTOR =
  Zpos (XI (XI XH))

(** val tAG_REAL : z **)

let tAG_REAL =
  Zpos (XI (XO (XO XH)))

(** val tAG_SEQUENCE : z **)

let tAG_SEQUENCE =
  Zpos (XO (XO (XO (XO XH))))

(** val tAG_RELATIVE_OID : z **)

let tAG_RELATIVE_OID =
  Zpos (XI (XO (XI XH)))

(** val tAG_APP_IPADDRESS : z **)

let tAG_APP_IPADDRESS =
  Z0

(** val tAG_APP_COUNTER32 : z **)

let tAG_APP_COUNTER32 =
  Zpos XH

(** val tAG_APP_GAUGE32 : z **)

let tAG_APP_GAUGE32 =
  Zpos (XO XH)

(** val tAG_APP_TIMETICKS : z **)

let tAG_APP_TIMETICKS =
  Zpos (XI XH)

(** val tAG_APP_OPAQUE : z **)

let tAG_APP_OPAQUE =
  Zpos (XO (XO XH))

(** val tAG_APP_COUNTER64 : z **)

let tAG_APP_COUNTER64 =
  Zpos (XO (XI XH))

(** val tAG_APP_UINTEGER32 : z **)

let tAG_APP_UINTEGER32 =
  Zpos (XI (XI XH))

(** val tAG_CTX_NO_SUCH_OBJECT : z **)

let tAG_CTX_NO_SUCH_OBJECT =
  Z0

(** val tAG_CTX_NO_SUCH_INSTANCE : z **)

let tAG_CTX_NO_SUCH_INSTANCE =
  Zpos XH

(** val tAG_CTX_END_OF_MIB_VIEW : z **)

let tAG_CTX_END_OF_MIB_VIEW =
  Zpos (XO XH)

(** val bUF_MAX_SIZE : z **)

let bUF_MAX_SIZE =
  Zpos (XO (XO (XO (XO (XI (XI (XI (XI (XI (XI (XI XH)))))))))))

(** val sNMP_V1 : z **)

let sNMP_V1 =
  Z0

(** val sNMP_V2C : z **)

let sNMP_V2C =
  Zpos XH

(** val sNMP_V3 : z **)

let sNMP_V3 =
  Zpos (XI XH)

(** val pDU_GET_REQUEST : z **)

let pDU_GET_REQUEST =
  Z0

(** val pDU_GETNEXT_REQUEST : z **)

let pDU_GETNEXT_REQUEST =
  Zpos XH

(** val pDU_GET_RESPONSE : z **)

let pDU_GET_RESPONSE =
  Zpos (XO XH)

(** val pDU_GET_BULK_REQUEST : z **)

let pDU_GET_BULK_REQUEST =
  Zpos (XI (XO XH))

(** val pDU_REPORT : z **)

let pDU_REPORT =
  Zpos (XO (XO (XO XH)))

(** val pDU_TAG_GET : z **)

let pDU_TAG_GET =
  Zpos (XO (XO (XO (XO (XO (XI (XO XH)))))))

(** val pDU_TAG_GETNEXT : z **)

let pDU_TAG_GETNEXT =
  Zpos (XI (XO (XO (XO (XO (XI (XO XH)))))))

(** val pDU_TAG_GETBULK : z **)

let pDU_TAG_GETBULK =
  Zpos (XI (XO (XI (XO (XO (XI (XO XH)))))))

(** val v3_MAX_SIZE : z **)

let v3_MAX_SIZE =
  Zpos (XO (XO (XO (XO (XO (XO (XO (XO (XO (XO (XO XH)))))))))))

(** val uSM_MODEL : z **)

let uSM_MODEL =
  Zpos (XI XH)

(** val fLAG_REPORT : z **)

let fLAG_REPORT =
  Zpos (XO (XO XH))

(** val fLAG_PRIV : z **)

let fLAG_PRIV =
  Zpos (XO XH)

(** val fLAG_AUTH : z **)

let fLAG_AUTH =
  Zpos XH

type hdr = { h_class : z; h_constructed : bool; h_tag : z; h_length : z }

(** val tag_loop : z -> bytes -> (z * bytes) res **)

let rec tag_loop n0 = function
| [] -> Err Incomplete
| t :: r ->
  let n' =
    wrap8
      (Z.coq_lor (Z.shiftl n0 (Zpos (XI (XI XH))))
        (Z.coq_land t (Zpos (XI (XI (XI (XI (XI (XI XH)))))))))
  in
  if Z.eqb (Z.coq_land t (Zpos (XO (XO (XO (XO (XO (XO (XO XH))))))))) Z0
  then Ok (n', r)
  else tag_loop n' r

(** val len_loop : nat -> z -> bytes -> (z * bytes) res **)

let rec len_loop k ln l =
  match k with
  | O -> Ok (ln, l)
  | S k' ->
    (match l with
     | [] -> Err Incomplete
     | b :: r ->
       len_loop k' (wrap64 (Z.add (Z.shiftl ln (Zpos (XO (XO (XO XH))))) b)) r)

(** val parse_header : bytes -> (bytes * hdr) res **)

let parse_header = function
| [] -> Err Incomplete
| id :: r1 ->
  (match r1 with
   | [] -> Err Incomplete
   | _ :: _ ->
     let class0 = Z.coq_land (Z.shiftr id (Zpos (XO (XI XH)))) (Zpos (XI XH))
     in
     let constructed =
       Z.eqb (Z.coq_land (Z.shiftr id (Zpos (XI (XO XH)))) (Zpos XH)) (Zpos
         XH)
     in
     bind
       (if Z.eqb (Z.coq_land id (Zpos (XI (XI (XI (XI XH)))))) (Zpos (XI (XI
             (XI (XI XH)))))
        then tag_loop Z0 r1
        else Ok ((Z.coq_land id (Zpos (XI (XI (XI (XI XH)))))), r1))
       (fun ab ->
       let (tag, r2) = ab in
       (match r2 with
        | [] -> Err Incomplete
        | n0 :: r3 ->
          bind
            (if Z.eqb
                  (Z.coq_land n0 (Zpos (XO (XO (XO (XO (XO (XO (XO XH)))))))))
                  Z0
             then Ok (n0, r3)
             else len_loop
                    (Z.to_nat
                      (Z.coq_land n0 (Zpos (XI (XI (XI (XI (XI (XI XH)))))))))
                    Z0 r3) (fun ab0 ->
            let (length0, r4) = ab0 in
            if Z.ltb (len r4) length0
            then Err Incomplete
            else Ok (r4, { h_class = class0; h_constructed = constructed;
                   h_tag = tag; h_length = length0 })))))

(** val from_ber :
    z -> bool -> bool -> (bytes -> hdr -> 'a1 res) -> bytes -> (bytes * 'a1)
    res **)

let from_ber tag allow_prim allow_constr decode i =
  if Z.ltb (len i) (Zpos (XO XH))
  then Err Incomplete
  else bind (parse_header i) (fun ab ->
         let (tail, h) = ab in
         if (||)
              ((||) (negb (Z.eqb h.h_tag tag))
                ((&&) h.h_constructed (negb allow_constr)))
              ((&&) (negb h.h_constructed) (negb allow_prim))
         then Err UnexpectedTag
         else bind (slice_from tail h.h_length) (fun rest ->
                bind (decode tail h) (fun v -> Ok (rest, v))))

(** val decode_bool : bytes -> hdr -> bool res **)

let decode_bool i h =
  if negb (Z.eqb h.h_length (Zpos XH))
  then Err InvalidData
  else bind (idx i O) (fun b -> Ok (negb (Z.eqb b Z0)))

(** val decode_null : bytes -> hdr -> unit res **)

let decode_null _ h =
  if negb (Z.eqb h.h_length Z0) then Err InvalidTagFormat else Ok ()

(** val fold_be : (z -> z) -> bytes -> z **)

let fold_be wrap = function
| [] -> Z0
| x :: r ->
  fold_left (fun acc b ->
    wrap
      (Z.add (Z.mul acc (Zpos (XO (XO (XO (XO (XO (XO (XO (XO XH)))))))))) b))
    r x

(** val decode_int : bytes -> hdr -> z res **)

let decode_int i h =
  if Z.eqb h.h_length Z0
  then Ok Z0
  else let v = fold_be swrap64 (takez h.h_length i) in
       bind (idx i O) (fun b0 ->
         if (||)
              (Z.eqb
                (Z.coq_land b0 (Zpos (XO (XO (XO (XO (XO (XO (XO XH)))))))))
                Z0) (Z.leb (Zpos (XO (XO (XO XH)))) h.h_length)
         then Ok v
         else Ok
                (Z.sub v
                  (Z.shiftl (Zpos XH)
                    (Z.mul (Zpos (XO (XO (XO XH)))) h.h_length))))

(** val decode_u32 : bytes -> hdr -> z res **)

let decode_u32 i h =
  Ok (fold_be wrap32 (takez h.h_length i))

(** val decode_u64 : bytes -> hdr -> z res **)

let decode_u64 i h =
  Ok (fold_be wrap64 (takez h.h_length i))

(** val decode_slice : bytes -> hdr -> bytes res **)

let decode_slice i h =
  slice_to i h.h_length

(** val decode_ip : bytes -> hdr -> (((z * z) * z) * z) res **)

let decode_ip i h =
  if negb (Z.eqb h.h_length (Zpos (XO (XO XH))))
  then Err InvalidTagFormat
  else bind (idx i O) (fun a ->
         bind (idx i (S O)) (fun b ->
           bind (idx i (S (S O))) (fun c ->
             bind (idx i (S (S (S O)))) (fun d -> Ok (((a, b), c), d)))))

type real =
| RZero
| RBin of bool * z * z
| RInt of z
| RDec of bytes
| RPlusInf
| RMinusInf
| RNaN
| RMinusZero

(** val is_digit : z -> bool **)

let is_digit b =
  (&&) (Z.leb (Zpos (XO (XO (XO (XO (XI XH)))))) b)
    (Z.leb b (Zpos (XI (XO (XO (XI (XI XH)))))))

(** val all_digits : bytes -> bool **)

let rec all_digits = function
| [] -> true
| x :: r -> (&&) (is_digit x) (all_digits r)

(** val digits_value : bytes -> z **)

let digits_value l =
  fold_left (fun acc b ->
    Z.add (Z.mul acc (Zpos (XO (XI (XO XH)))))
      (Z.sub b (Zpos (XO (XO (XO (XO (XI XH)))))))) l Z0

(** val parse_i32 : bytes -> z option **)

let parse_i32 l = match l with
| [] ->
  let neg = false in
  (match l with
   | [] -> None
   | _ :: _ ->
     if all_digits l
     then let v = digits_value l in
          let v0 = if neg then Z.opp v else v in
          if (&&)
               (Z.leb (Zneg (XO (XO (XO (XO (XO (XO (XO (XO (XO (XO (XO (XO
                 (XO (XO (XO (XO (XO (XO (XO (XO (XO (XO (XO (XO (XO (XO (XO
                 (XO (XO (XO (XO XH)))))))))))))))))))))))))))))))) v0)
               (Z.leb v0 (Zpos (XI (XI (XI (XI (XI (XI (XI (XI (XI (XI (XI
                 (XI (XI (XI (XI (XI (XI (XI (XI (XI (XI (XI (XI (XI (XI (XI
                 (XI (XI (XI (XI XH))))))))))))))))))))))))))))))))
          then Some v0
          else None
     else None)
| z0 :: r ->
  (match z0 with
   | Zpos p ->
     (match p with
      | XI p0 ->
        (match p0 with
         | XI p1 ->
           (match p1 with
            | XO p2 ->
              (match p2 with
               | XI p3 ->
                 (match p3 with
                  | XO p4 ->
                    (match p4 with
                     | XH ->
                       let neg = false in
                       (match r with
                        | [] -> None
                        | _ :: _ ->
                          if all_digits r
                          then let v = digits_value r in
                               let v0 = if neg then Z.opp v else v in
                               if (&&)
                                    (Z.leb (Zneg (XO (XO (XO (XO (XO (XO (XO
                                      (XO (XO (XO (XO (XO (XO (XO (XO (XO (XO
                                      (XO (XO (XO (XO (XO (XO (XO (XO (XO (XO
                                      (XO (XO (XO (XO
                                      XH)))))))))))))))))))))))))))))))) v0)
                                    (Z.leb v0 (Zpos (XI (XI (XI (XI (XI (XI
                                      (XI (XI (XI (XI (XI (XI (XI (XI (XI (XI
                                      (XI (XI (XI (XI (XI (XI (XI (XI (XI (XI
                                      (XI (XI (XI (XI
                                      XH))))))))))))))))))))))))))))))))
                               then Some v0
                               else None
                          else None)
                     | _ ->
                       let neg = false in
                       (match l with
                        | [] -> None
                        | _ :: _ ->
                          if all_digits l
                          then let v = digits_value l in
                               let v0 = if neg then Z.opp v else v in
                               if (&&)
                                    (Z.leb (Zneg (XO (XO (XO (XO (XO (XO (XO
                                      (XO (XO (XO (XO (XO (XO (XO (XO (XO (XO
                                      (XO (XO (XO (XO (XO (XO (XO (XO (XO (XO
                                      (XO (XO (XO (XO
                                      XH)))))))))))))))))))))))))))))))) v0)
                                    (Z.leb v0 (Zpos (XI (XI (XI (XI (XI (XI
                                      (XI (XI (XI (XI (XI (XI (XI (XI (XI (XI
                                      (XI (XI (XI (XI (XI (XI (XI (XI (XI (XI
                                      (XI (XI (XI (XI
                                      XH))))))))))))))))))))))))))))))))
                               then Some v0
                               else None
                          else None))
                  | _ ->
                    let neg = false in
                    (match l with
                     | [] -> None
                     | _ :: _ ->
                       if all_digits l
                       then let v = digits_value l in
                            let v0 = if neg then Z.opp v else v in
                            if (&&)
                                 (Z.leb (Zneg (XO (XO (XO (XO (XO (XO (XO (XO
                                   (XO (XO (XO (XO (XO (XO (XO (XO (XO (XO
                                   (XO (XO (XO (XO (XO (XO (XO (XO (XO (XO
                                   (XO (XO (XO
                                   XH)))))))))))))))))))))))))))))))) v0)
                                 (Z.leb v0 (Zpos (XI (XI (XI (XI (XI (XI (XI
                                   (XI (XI (XI (XI (XI (XI (XI (XI (XI (XI
                                   (XI (XI (XI (XI (XI (XI (XI (XI (XI (XI
                                   (XI (XI (XI
                                   XH))))))))))))))))))))))))))))))))
                            then Some v0
                            else None
                       else None))
               | _ ->
                 let neg = false in
                 (match l with
                  | [] -> None
                  | _ :: _ ->
                    if all_digits l
                    then let v = digits_value l in
                         let v0 = if neg then Z.opp v else v in
                         if (&&)
                              (Z.leb (Zneg (XO (XO (XO (XO (XO (XO (XO (XO
                                (XO (XO (XO (XO (XO (XO (XO (XO (XO (XO (XO
                                (XO (XO (XO (XO (XO (XO (XO (XO (XO (XO (XO
                                (XO XH)))))))))))))))))))))))))))))))) v0)
                              (Z.leb v0 (Zpos (XI (XI (XI (XI (XI (XI (XI (XI
                                (XI (XI (XI (XI (XI (XI (XI (XI (XI (XI (XI
                                (XI (XI (XI (XI (XI (XI (XI (XI (XI (XI (XI
                                XH))))))))))))))))))))))))))))))))
                         then Some v0
                         else None
                    else None))
            | _ ->
              let neg = false in
              (match l with
               | [] -> None
               | _ :: _ ->
                 if all_digits l
                 then let v = digits_value l in
                      let v0 = if neg then Z.opp v else v in
                      if (&&)
                           (Z.leb (Zneg (XO (XO (XO (XO (XO (XO (XO (XO (XO
                             (XO (XO (XO (XO (XO (XO (XO (XO (XO (XO (XO (XO
                             (XO (XO (XO (XO (XO (XO (XO (XO (XO (XO
                             XH)))))))))))))))))))))))))))))))) v0)
                           (Z.leb v0 (Zpos (XI (XI (XI (XI (XI (XI (XI (XI
                             (XI (XI (XI (XI (XI (XI (XI (XI (XI (XI (XI (XI
                             (XI (XI (XI (XI (XI (XI (XI (XI (XI (XI
                             XH))))))))))))))))))))))))))))))))
                      then Some v0
                      else None
                 else None))
         | XO p1 ->
           (match p1 with
            | XI p2 ->
              (match p2 with
               | XI p3 ->
                 (match p3 with
                  | XO p4 ->
                    (match p4 with
                     | XH ->
                       let neg = true in
                       (match r with
                        | [] -> None
                        | _ :: _ ->
                          if all_digits r
                          then let v = digits_value r in
                               let v0 = if neg then Z.opp v else v in
                               if (&&)
                                    (Z.leb (Zneg (XO (XO (XO (XO (XO (XO (XO
                                      (XO (XO (XO (XO (XO (XO (XO (XO (XO (XO
                                      (XO (XO (XO (XO (XO (XO (XO (XO (XO (XO
                                      (XO (XO (XO (XO
                                      XH)))))))))))))))))))))))))))))))) v0)
                                    (Z.leb v0 (Zpos (XI (XI (XI (XI (XI (XI
                                      (XI (XI (XI (XI (XI (XI (XI (XI (XI (XI
                                      (XI (XI (XI (XI (XI (XI (XI (XI (XI (XI
                                      (XI (XI (XI (XI
                                      XH))))))))))))))))))))))))))))))))
                               then Some v0
                               else None
                          else None)
                     | _ ->
                       let neg = false in
                       (match l with
                        | [] -> None
                        | _ :: _ ->
                          if all_digits l
                          then let v = digits_value l in
                               let v0 = if neg then Z.opp v else v in
                               if (&&)
                                    (Z.leb (Zneg (XO (XO (XO (XO (XO (XO (XO
                                      (XO (XO (XO (XO (XO (XO (XO (XO (XO (XO
                                      (XO (XO (XO (XO (XO (XO (XO (XO (XO (XO
                                      (XO (XO (XO (XO
                                      XH)))))))))))))))))))))))))))))))) v0)
                                    (Z.leb v0 (Zpos (XI (XI (XI (XI (XI (XI
                                      (XI (XI (XI (XI (XI (XI (XI (XI (XI (XI
                                      (XI (XI (XI (XI (XI (XI (XI (XI (XI (XI
                                      (XI (XI (XI (XI
                                      XH))))))))))))))))))))))))))))))))
                               then Some v0
                               else None
                          else None))
                  | _ ->
                    let neg = false in
                    (match l with
                     | [] -> None
                     | _ :: _ ->
                       if all_digits l
                       then let v = digits_value l in
                            let v0 = if neg then Z.opp v else v in
                            if (&&)
                                 (Z.leb (Zneg (XO (XO (XO (XO (XO (XO (XO (XO
                                   (XO (XO (XO (XO (XO (XO (XO (XO (XO (XO
                                   (XO (XO (XO (XO (XO (XO (XO (XO (XO (XO
                                   (XO (XO (XO
                                   XH)))))))))))))))))))))))))))))))) v0)
                                 (Z.leb v0 (Zpos (XI (XI (XI (XI (XI (XI (XI
                                   (XI (XI (XI (XI (XI (XI (XI (XI (XI (XI
                                   (XI (XI (XI (XI (XI (XI (XI (XI (XI (XI
                                   (XI (XI (XI
                                   XH))))))))))))))))))))))))))))))))
                            then Some v0
                            else None
                       else None))
               | _ ->
                 let neg = false in
                 (match l with
                  | [] -> None
                  | _ :: _ ->
                    if all_digits l
                    then let v = digits_value l in
                         let v0 = if neg then Z.opp v else v in
                         if (&&)
                              (Z.leb (Zneg (XO (XO (XO (XO (XO (XO (XO (XO
                                (XO (XO (XO (XO (XO (XO (XO (XO (XO (XO (XO
                                (XO (XO (XO (XO (XO (XO (XO (XO (XO (XO (XO
                                (XO XH)))))))))))))))))))))))))))))))) v0)
                              (Z.leb v0 (Zpos (XI (XI (XI (XI (XI (XI (XI (XI
                                (XI (XI (XI (XI (XI (XI (XI (XI (XI (XI (XI
                                (XI (XI (XI (XI (XI (XI (XI (XI (XI (XI (XI
                                XH))))))))))))))))))))))))))))))))
                         then Some v0
                         else None
                    else None))
            | _ ->
              let neg = false in
              (match l with
               | [] -> None
               | _ :: _ ->
                 if all_digits l
                 then let v = digits_value l in
                      let v0 = if neg then Z.opp v else v in
                      if (&&)
                           (Z.leb (Zneg (XO (XO (XO (XO (XO (XO (XO (XO (XO
                             (XO (XO (XO (XO (XO (XO (XO (XO (XO (XO (XO (XO
                             (XO (XO (XO (XO (XO (XO (XO (XO (XO (XO
                             XH)))))))))))))))))))))))))))))))) v0)
                           (Z.leb v0 (Zpos (XI (XI (XI (XI (XI (XI (XI (XI
                             (XI (XI (XI (XI (XI (XI (XI (XI (XI (XI (XI (XI
                             (XI (XI (XI (XI (XI (XI (XI (XI (XI (XI
                             XH))))))))))))))))))))))))))))))))
                      then Some v0
                      else None
                 else None))
         | XH ->
           let neg = false in
           (match l with
            | [] -> None
            | _ :: _ ->
              if all_digits l
              then let v = digits_value l in
                   let v0 = if neg then Z.opp v else v in
                   if (&&)
                        (Z.leb (Zneg (XO (XO (XO (XO (XO (XO (XO (XO (XO (XO
                          (XO (XO (XO (XO (XO (XO (XO (XO (XO (XO (XO (XO (XO
                          (XO (XO (XO (XO (XO (XO (XO (XO
                          XH)))))))))))))))))))))))))))))))) v0)
                        (Z.leb v0 (Zpos (XI (XI (XI (XI (XI (XI (XI (XI (XI
                          (XI (XI (XI (XI (XI (XI (XI (XI (XI (XI (XI (XI (XI
                          (XI (XI (XI (XI (XI (XI (XI (XI
                          XH))))))))))))))))))))))))))))))))
                   then Some v0
                   else None
              else None))
      | _ ->
        let neg = false in
        (match l with
         | [] -> None
         | _ :: _ ->
           if all_digits l
           then let v = digits_value l in
                let v0 = if neg then Z.opp v else v in
                if (&&)
                     (Z.leb (Zneg (XO (XO (XO (XO (XO (XO (XO (XO (XO (XO (XO
                       (XO (XO (XO (XO (XO (XO (XO (XO (XO (XO (XO (XO (XO
                       (XO (XO (XO (XO (XO (XO (XO
                       XH)))))))))))))))))))))))))))))))) v0)
                     (Z.leb v0 (Zpos (XI (XI (XI (XI (XI (XI (XI (XI (XI (XI
                       (XI (XI (XI (XI (XI (XI (XI (XI (XI (XI (XI (XI (XI
                       (XI (XI (XI (XI (XI (XI (XI
                       XH))))))))))))))))))))))))))))))))
                then Some v0
                else None
           else None))
   | _ ->
     let neg = false in
     (match l with
      | [] -> None
      | _ :: _ ->
        if all_digits l
        then let v = digits_value l in
             let v0 = if neg then Z.opp v else v in
             if (&&)
                  (Z.leb (Zneg (XO (XO (XO (XO (XO (XO (XO (XO (XO (XO (XO
                    (XO (XO (XO (XO (XO (XO (XO (XO (XO (XO (XO (XO (XO (XO
                    (XO (XO (XO (XO (XO (XO
                    XH)))))))))))))))))))))))))))))))) v0)
                  (Z.leb v0 (Zpos (XI (XI (XI (XI (XI (XI (XI (XI (XI (XI (XI
                    (XI (XI (XI (XI (XI (XI (XI (XI (XI (XI (XI (XI (XI (XI
                    (XI (XI (XI (XI (XI XH))))))))))))))))))))))))))))))))
             then Some v0
             else None
        else None))

(** val span_digits : bytes -> bytes * bytes **)

let rec span_digits l = match l with
| [] -> ([], [])
| x :: r ->
  if is_digit x then let (d, t) = span_digits r in ((x :: d), t) else ([], l)

(** val lower : z -> z **)

let lower b =
  if (&&) (Z.leb (Zpos (XI (XO (XO (XO (XO (XO XH))))))) b)
       (Z.leb b (Zpos (XO (XI (XO (XI (XI (XO XH))))))))
  then Z.add b (Zpos (XO (XO (XO (XO (XO XH))))))
  else b

(** val is_special_word : bytes -> bool **)

let is_special_word l =
  let w = map lower l in
  (||)
    ((||)
      (all_eqb w ((Zpos (XI (XO (XO (XI (XO (XI XH))))))) :: ((Zpos (XO (XI
        (XI (XI (XO (XI XH))))))) :: ((Zpos (XO (XI (XI (XO (XO (XI
        XH))))))) :: []))))
      (all_eqb w ((Zpos (XI (XO (XO (XI (XO (XI XH))))))) :: ((Zpos (XO (XI
        (XI (XI (XO (XI XH))))))) :: ((Zpos (XO (XI (XI (XO (XO (XI
        XH))))))) :: ((Zpos (XI (XO (XO (XI (XO (XI XH))))))) :: ((Zpos (XO
        (XI (XI (XI (XO (XI XH))))))) :: ((Zpos (XI (XO (XO (XI (XO (XI
        XH))))))) :: ((Zpos (XO (XO (XI (XO (XI (XI XH))))))) :: ((Zpos (XI
        (XO (XO (XI (XI (XI XH))))))) :: []))))))))))
    (all_eqb w ((Zpos (XO (XI (XI (XI (XO (XI XH))))))) :: ((Zpos (XI (XO (XO
      (XO (XO (XI XH))))))) :: ((Zpos (XO (XI (XI (XI (XO (XI
      XH))))))) :: []))))

(** val valid_exp : bytes -> bool **)

let valid_exp = function
| [] -> true
| e :: r ->
  if (||) (Z.eqb e (Zpos (XI (XO (XI (XO (XO (XI XH))))))))
       (Z.eqb e (Zpos (XI (XO (XI (XO (XO (XO XH))))))))
  then let ds =
         match r with
         | [] -> r
         | z0 :: t ->
           (match z0 with
            | Zpos p ->
              (match p with
               | XI p0 ->
                 (match p0 with
                  | XI p1 ->
                    (match p1 with
                     | XO p2 ->
                       (match p2 with
                        | XI p3 ->
                          (match p3 with
                           | XO p4 -> (match p4 with
                                       | XH -> t
                                       | _ -> r)
                           | _ -> r)
                        | _ -> r)
                     | _ -> r)
                  | XO p1 ->
                    (match p1 with
                     | XI p2 ->
                       (match p2 with
                        | XI p3 ->
                          (match p3 with
                           | XO p4 -> (match p4 with
                                       | XH -> t
                                       | _ -> r)
                           | _ -> r)
                        | _ -> r)
                     | _ -> r)
                  | XH -> r)
               | _ -> r)
            | _ -> r)
       in
       (match ds with
        | [] -> false
        | _ :: _ -> all_digits ds)
  else false

(** val is_rust_float : bytes -> bool **)

let is_rust_float l =
  let body =
    match l with
    | [] -> l
    | z0 :: r ->
      (match z0 with
       | Zpos p ->
         (match p with
          | XI p0 ->
            (match p0 with
             | XI p1 ->
               (match p1 with
                | XO p2 ->
                  (match p2 with
                   | XI p3 ->
                     (match p3 with
                      | XO p4 -> (match p4 with
                                  | XH -> r
                                  | _ -> l)
                      | _ -> l)
                   | _ -> l)
                | _ -> l)
             | XO p1 ->
               (match p1 with
                | XI p2 ->
                  (match p2 with
                   | XI p3 ->
                     (match p3 with
                      | XO p4 -> (match p4 with
                                  | XH -> r
                                  | _ -> l)
                      | _ -> l)
                   | _ -> l)
                | _ -> l)
             | XH -> l)
          | _ -> l)
       | _ -> l)
  in
  if is_special_word body
  then true
  else let (ip, t) = span_digits body in
       (match t with
        | [] -> (match ip with
                 | [] -> false
                 | _ :: _ -> valid_exp t)
        | z0 :: t' ->
          (match z0 with
           | Zpos p ->
             (match p with
              | XO p0 ->
                (match p0 with
                 | XI p1 ->
                   (match p1 with
                    | XI p2 ->
                      (match p2 with
                       | XI p3 ->
                         (match p3 with
                          | XO p4 ->
                            (match p4 with
                             | XH ->
                               let (fp, t'') = span_digits t' in
                               (match ip with
                                | [] ->
                                  (match fp with
                                   | [] -> false
                                   | _ :: _ -> valid_exp t'')
                                | _ :: _ -> valid_exp t'')
                             | _ ->
                               (match ip with
                                | [] -> false
                                | _ :: _ -> valid_exp t))
                          | _ ->
                            (match ip with
                             | [] -> false
                             | _ :: _ -> valid_exp t))
                       | _ ->
                         (match ip with
                          | [] -> false
                          | _ :: _ -> valid_exp t))
                    | _ -> (match ip with
                            | [] -> false
                            | _ :: _ -> valid_exp t))
                 | _ -> (match ip with
                         | [] -> false
                         | _ :: _ -> valid_exp t))
              | _ -> (match ip with
                      | [] -> false
                      | _ :: _ -> valid_exp t))
           | _ -> (match ip with
                   | [] -> false
                   | _ :: _ -> valid_exp t)))

(** val decode_real : bytes -> hdr -> real res **)

let decode_real i0 h =
  if Z.eqb h.h_length Z0
  then Ok RZero
  else bind (slice_to i0 h.h_length) (fun i ->
         bind (idx i O) (fun f ->
           if testbit f (Zpos (XO (XO (XO (XO (XO (XO (XO XH))))))))
           then bind
                  (if Z.eqb (Z.coq_land f (Zpos (XI XH))) (Zpos (XI XH))
                   then (match nth_error i (S O) with
                         | Some b -> Ok ((Zpos (XO XH)), b)
                         | None -> Err InvalidData)
                   else Ok ((Zpos XH),
                          (Z.add (Z.coq_land f (Zpos (XI XH))) (Zpos XH))))
                  (fun ab ->
                  let (e_start, e_len) = ab in
                  let e_end = Z.add e_start e_len in
                  if (||) ((||) (Z.eqb e_len Z0) (Z.ltb (len i) e_end))
                       (Z.ltb (Zpos (XO (XO (XO (XO XH)))))
                         (Z.sub (len i) e_end))
                  then Err InvalidData
                  else let eo = takez e_len (dropz e_start i) in
                       bind (idx i (Z.to_nat e_start)) (fun e0 ->
                         let e =
                           fold_left (fun acc n0 ->
                             sat64
                               (Z.add
                                 (sat64
                                   (Z.mul acc (Zpos (XO (XO (XO (XO (XO (XO
                                     (XO (XO XH))))))))))) n0)) eo
                             (if Z.eqb
                                   (Z.coq_land e0 (Zpos (XO (XO (XO (XO (XO
                                     (XO (XO XH))))))))) Z0
                              then Z0
                              else Zneg XH)
                         in
                         let n0 =
                           fold_left (fun acc x ->
                             Z.coq_lor
                               (Z.shiftl acc (Zpos (XO (XO (XO XH))))) x)
                             (dropz e_end i) Z0
                         in
                         let scale =
                           Z.shiftr (Z.coq_land f (Zpos (XO (XO (XI XH)))))
                             (Zpos (XO XH))
                         in
                         let bb =
                           Z.coq_land f (Zpos (XO (XO (XO (XO (XI XH))))))
                         in
                         if negb
                              ((||)
                                ((||) (Z.eqb bb Z0)
                                  (Z.eqb bb (Zpos (XO (XO (XO (XO XH)))))))
                                (Z.eqb bb (Zpos (XO (XO (XO (XO (XO XH))))))))
                         then Err InvalidData
                         else let base_bits =
                                if Z.eqb bb Z0
                                then Zpos XH
                                else if Z.eqb bb (Zpos (XO (XO (XO (XO XH)))))
                                     then Zpos (XI XH)
                                     else Zpos (XO (XO XH))
                              in
                              let p =
                                Z.max (Zneg (XO (XO (XO (XO (XO (XI (XO (XI
                                  (XI (XI (XI XH))))))))))))
                                  (Z.min (Zpos (XO (XO (XO (XO (XO (XI (XO
                                    (XI (XI (XI (XI XH))))))))))))
                                    (sat64
                                      (Z.add (sat64 (Z.mul base_bits e))
                                        scale)))
                              in
                              Ok (RBin
                              ((testbit f (Zpos (XO (XO (XO (XO (XO (XO
                                 XH)))))))), n0, p))))
           else if Z.eqb
                     (Z.coq_land f (Zpos (XO (XO (XO (XO (XO (XO (XI
                       XH))))))))) Z0
                then let t = dropz (Zpos XH) i in
                     let form =
                       Z.coq_land f (Zpos (XI (XI (XI (XI (XI XH))))))
                     in
                     if Z.eqb form (Zpos XH)
                     then (match parse_i32 t with
                           | Some v -> Ok (RInt v)
                           | None -> Err InvalidData)
                     else if (||) (Z.eqb form (Zpos (XO XH)))
                               (Z.eqb form (Zpos (XI XH)))
                          then if is_rust_float t
                               then Ok (RDec t)
                               else Err InvalidData
                          else Err InvalidData
                else if Z.eqb f (Zpos (XO (XO (XO (XO (XO (XO XH)))))))
                     then Ok RPlusInf
                     else if Z.eqb f (Zpos (XI (XO (XO (XO (XO (XO XH)))))))
                          then Ok RMinusInf
                          else if Z.eqb f (Zpos (XO (XI (XO (XO (XO (XO
                                    XH)))))))
                               then Ok RNaN
                               else if Z.eqb f (Zpos (XI (XI (XO (XO (XO (XO
                                         XH)))))))
                                    then Ok RMinusZero
                                    else Err InvalidData))

type value =
| VBool of bool
| VInt of z
| VNull
| VOctetString of bytes
| VOid of bytes
| VObjectDescriptor of bytes
| VReal of real
| VIpAddress of z * z * z * z
| VCounter32 of z
| VGauge32 of z
| VTimeTicks of z
| VOpaque of bytes
| VCounter64 of z
| VUInteger32 of z
| VNoSuchObject
| VNoSuchInstance
| VEndOfMibView

(** val value_from_ber : bytes -> (bytes * value) res **)

let value_from_ber i =
  bind (parse_header i) (fun ab ->
    let (tail, h) = ab in
    bind
      (if h.h_constructed
       then Err UnsupportedTag
       else let t = h.h_tag in
            if Z.eqb h.h_class Z0
            then if Z.eqb t tAG_BOOL
                 then bind (decode_bool tail h) (fun b -> Ok (VBool b))
                 else if Z.eqb t tAG_INT
                      then bind (decode_int tail h) (fun z0 -> Ok (VInt z0))
                      else if Z.eqb t tAG_OCTET_STRING
                           then bind (decode_slice tail h) (fun b -> Ok
                                  (VOctetString b))
                           else if Z.eqb t tAG_NULL
                                then bind (decode_null tail h) (fun _ -> Ok
                                       VNull)
                                else if Z.eqb t tAG_OBJECT_ID
                                     then bind (decode_slice tail h)
                                            (fun b -> Ok (VOid b))
                                     else if Z.eqb t tAG_OBJECT_DESCRIPTOR
                                          then bind (decode_slice tail h)
                                                 (fun b -> Ok
                                                 (VObjectDescriptor b))
                                          else if Z.eqb t tAG_REAL
                                               then bind (decode_real tail h)
                                                      (fun r -> Ok (VReal r))
                                               else Err UnsupportedTag
            else if Z.eqb h.h_class (Zpos XH)
                 then if Z.eqb t tAG_APP_IPADDRESS
                      then bind (decode_ip tail h) (fun ab0 ->
                             let (abc, d) = ab0 in
                             let (ab1, c) = abc in
                             let (a, b) = ab1 in Ok (VIpAddress (a, b, c, d)))
                      else if Z.eqb t tAG_APP_COUNTER32
                           then bind (decode_u32 tail h) (fun z0 -> Ok
                                  (VCounter32 z0))
                           else if Z.eqb t tAG_APP_GAUGE32
                                then bind (decode_u32 tail h) (fun z0 -> Ok
                                       (VGauge32 z0))
                                else if Z.eqb t tAG_APP_TIMETICKS
                                     then bind (decode_u32 tail h) (fun z0 ->
                                            Ok (VTimeTicks z0))
                                     else if Z.eqb t tAG_APP_OPAQUE
                                          then bind (decode_slice tail h)
                                                 (fun b -> Ok (VOpaque b))
                                          else if Z.eqb t tAG_APP_COUNTER64
                                               then bind (decode_u64 tail h)
                                                      (fun z0 -> Ok
                                                      (VCounter64 z0))
                                               else if Z.eqb t
                                                         tAG_APP_UINTEGER32
                                                    then bind
                                                           (decode_u32 tail h)
                                                           (fun z0 -> Ok
                                                           (VUInteger32 z0))
                                                    else Err UnsupportedTag
                 else if Z.eqb h.h_class (Zpos (XO XH))
                      then if Z.eqb t tAG_CTX_NO_SUCH_OBJECT
                           then Ok VNoSuchObject
                           else if Z.eqb t tAG_CTX_NO_SUCH_INSTANCE
                                then Ok VNoSuchInstance
                                else if Z.eqb t tAG_CTX_END_OF_MIB_VIEW
                                     then Ok VEndOfMibView
                                     else Err UnsupportedTag
                      else Err UnsupportedTag) (fun v ->
      bind (slice_from tail h.h_length) (fun rest -> Ok (rest, v))))

(** val int_from_ber : bytes -> (bytes * z) res **)

let int_from_ber =
  from_ber tAG_INT true false decode_int

(** val null_from_ber : bytes -> (bytes * unit) res **)

let null_from_ber =
  from_ber tAG_NULL true false decode_null

(** val oid_from_ber : bytes -> (bytes * bytes) res **)

let oid_from_ber =
  from_ber tAG_OBJECT_ID true false decode_slice

(** val octetstring_from_ber : bytes -> (bytes * bytes) res **)

let octetstring_from_ber =
  from_ber tAG_OCTET_STRING true false decode_slice

(** val reloid_from_ber : bytes -> (bytes * bytes) res **)

let reloid_from_ber =
  from_ber tAG_RELATIVE_OID true false decode_slice

(** val sequence_from_ber : bytes -> (bytes * bytes) res **)

let sequence_from_ber =
  from_ber tAG_SEQUENCE false true decode_slice

(** val bool_from_ber : bytes -> (bytes * bool) res **)

let bool_from_ber =
  from_ber tAG_BOOL true false decode_bool

(** val real_from_ber : bytes -> (bytes * real) res **)

let real_from_ber =
  from_ber tAG_REAL true false decode_real

(** val ip_from_ber : bytes -> (bytes * (((z * z) * z) * z)) res **)

let ip_from_ber =
  from_ber tAG_APP_IPADDRESS true false decode_ip

(** val counter32_from_ber : bytes -> (bytes * z) res **)

let counter32_from_ber =
  from_ber tAG_APP_COUNTER32 true false decode_u32

(** val gauge32_from_ber : bytes -> (bytes * z) res **)

let gauge32_from_ber =
  from_ber tAG_APP_GAUGE32 true false decode_u32

(** val timeticks_from_ber : bytes -> (bytes * z) res **)

let timeticks_from_ber =
  from_ber tAG_APP_TIMETICKS true false decode_u32

(** val uinteger32_from_ber : bytes -> (bytes * z) res **)

let uinteger32_from_ber =
  from_ber tAG_APP_UINTEGER32 true false decode_u32

(** val counter64_from_ber : bytes -> (bytes * z) res **)

let counter64_from_ber =
  from_ber tAG_APP_COUNTER64 true false decode_u64

(** val opaque_from_ber : bytes -> (bytes * bytes) res **)

let opaque_from_ber =
  from_ber tAG_APP_OPAQUE true false decode_slice

(** val objectdescriptor_from_ber : bytes -> (bytes * bytes) res **)

let objectdescriptor_from_ber =
  from_ber tAG_OBJECT_DESCRIPTOR true true decode_slice

(** val option_from_ber : bytes -> (bytes * (z * bytes)) res **)

let option_from_ber i =
  if Z.ltb (len i) (Zpos (XI XH))
  then Err Incomplete
  else bind (parse_header i) (fun ab ->
         let (tail, h) = ab in
         if (||) (negb h.h_constructed)
              ((&&) (negb (Z.eqb h.h_class (Zpos (XO XH))))
                (negb (Z.eqb h.h_class Z0)))
         then Err UnexpectedTag
         else bind (slice_from tail h.h_length) (fun rest ->
                bind (slice_to tail h.h_length) (fun v -> Ok (rest, (h.h_tag,
                  v)))))

(** val subelements : bytes -> z **)

let subelements d =
  fold_left (fun acc c ->
    if Z.eqb (Z.coq_land c (Zpos (XO (XO (XO (XO (XO (XO (XO XH))))))))) Z0
    then Z.add acc (Zpos XH)
    else acc) d Z0

(** val find_sub : bytes -> z -> z -> z -> z -> z option **)

let rec find_sub d total left start offset =
  match d with
  | [] -> None
  | c :: r ->
    if Z.eqb left Z0
    then if Z.ltb start total then Some start else None
    else if Z.eqb (Z.coq_land c (Zpos (XO (XO (XO (XO (XO (XO (XO XH)))))))))
              Z0
         then find_sub r total (Z.sub left (Zpos XH))
                (Z.add offset (Zpos XH)) (Z.add offset (Zpos XH))
         else find_sub r total left start (Z.add offset (Zpos XH))

(** val find_subelement : bytes -> z -> z option **)

let find_subelement d n0 =
  find_sub d (len d) n0 Z0 Z0

(** val normalize : bytes -> bytes -> bytes res **)

let normalize rel oid =
  bind (slice_from oid (Zpos XH)) (fun oid1 ->
    let rel_si = subelements rel in
    let base_si = Z.add (subelements oid1) (Zpos (XO XH)) in
    if Z.ltb rel_si (Z.sub base_si (Zpos (XO XH)))
    then let offset =
           Z.add
             (match find_subelement oid1
                      (Z.sub (Z.sub base_si rel_si) (Zpos (XO XH))) with
              | Some o -> o
              | None -> Z0) (Zpos XH)
         in
         bind (slice_to oid offset) (fun pre -> Ok (app pre rel))
    else if Z.ltb (len rel) (Zpos XH)
         then Panic
         else bind (idx rel O) (fun a ->
                bind (idx rel (S O)) (fun b ->
                  if Z.ltb (Zpos (XI (XI (XI (XI (XI (XI (XI XH))))))))
                       (Z.add (Z.mul a (Zpos (XO (XO (XO (XI (XO XH))))))) b)
                  then Panic
                  else bind (slice_from rel (Zpos (XO XH))) (fun r2 -> Ok
                         ((Z.add (Z.mul a (Zpos (XO (XO (XO (XI (XO XH)))))))
                            b) :: r2)))))

(** val try_normalize : bytes -> bytes -> bytes res **)

let try_normalize rel oid = match oid with
| [] -> Err InvalidData
| _ :: oid1 ->
  let rel_si = subelements rel in
  let base_si = subelements oid1 in
  if (&&) (Z.leb base_si rel_si)
       ((||) (Z.ltb (len rel) (Zpos (XO XH)))
         (match rel with
          | [] -> true
          | a :: l ->
            (match l with
             | [] -> true
             | b :: _ ->
               Z.ltb (Zpos (XI (XI (XI (XI (XI (XI (XI XH))))))))
                 (Z.add (Z.mul a (Zpos (XO (XO (XO (XI (XO XH))))))) b))))
  then Err InvalidData
  else normalize rel oid

type varbind = { vb_oid : bytes; vb_value : value }

type getresponse = { gr_request_id : z; gr_error_status : z;
                     gr_error_index : z; gr_vars : varbind list }

type getreq = { g_request_id : z; g_vars : bytes list }

type getbulk = { gb_request_id : z; gb_non_repeaters : z;
                 gb_max_repetitions : z; gb_vars : bytes list }

type pdu =
| PGetRequest of getreq
| PGetNextRequest of getreq
| PGetResponse of getresponse
| PGetBulkRequest of getbulk
| PReport of bytes

(** val resp_vars : nat -> bytes -> varbind list -> varbind list res **)

let rec resp_vars fuel v_tail acc =
  match v_tail with
  | [] -> Ok (rev acc)
  | _ :: _ ->
    (match fuel with
     | O -> Panic
     | S fuel' ->
       bind (sequence_from_ber v_tail) (fun ab ->
         let (rest, vs) = ab in
         (match vs with
          | [] -> Err Incomplete
          | t0 :: _ ->
            bind
              (if Z.eqb t0 tAG_OBJECT_ID
               then oid_from_ber vs
               else if Z.eqb t0 tAG_RELATIVE_OID
                    then (match acc with
                          | [] -> Err UnexpectedTag
                          | prev :: _ ->
                            bind (reloid_from_ber vs) (fun ab0 ->
                              let (t, r_oid) = ab0 in
                              bind (try_normalize r_oid prev.vb_oid)
                                (fun oid -> Ok (t, oid))))
                    else Err UnexpectedTag) (fun ab0 ->
              let (tail, oid) = ab0 in
              bind (value_from_ber tail) (fun ab1 ->
                let (_, v) = ab1 in
                resp_vars fuel' rest ({ vb_oid = oid; vb_value = v } :: acc))))))

(** val getresponse_decode : bytes -> getresponse res **)

let getresponse_decode i =
  bind (int_from_ber i) (fun ab ->
    let (tail, request_id) = ab in
    bind (int_from_ber tail) (fun ab0 ->
      let (tail0, error_status) = ab0 in
      bind (int_from_ber tail0) (fun ab1 ->
        let (tail1, error_index) = ab1 in
        bind (sequence_from_ber tail1) (fun ab2 ->
          let (tail2, vb) = ab2 in
          (match tail2 with
           | [] ->
             bind (resp_vars (length vb) vb []) (fun vars -> Ok
               { gr_request_id = request_id; gr_error_status = error_status;
               gr_error_index = error_index; gr_vars = vars })
           | _ :: _ -> Err TrailingData)))))

(** val parse_var : bytes -> (bytes * bytes) res **)

let parse_var i =
  bind (sequence_from_ber i) (fun ab ->
    let (rest, vs) = ab in
    bind (oid_from_ber vs) (fun ab0 ->
      let (tail, oid) = ab0 in
      bind (null_from_ber tail) (fun _ -> Ok (rest, oid))))

(** val req_vars : nat -> bytes -> bytes list -> bytes list res **)

let rec req_vars fuel v_tail acc =
  match v_tail with
  | [] -> Ok (rev acc)
  | _ :: _ ->
    (match fuel with
     | O -> Panic
     | S fuel' ->
       bind (parse_var v_tail) (fun ab ->
         let (rest, oid) = ab in req_vars fuel' rest (oid :: acc)))

(** val get_decode : bytes -> getreq res **)

let get_decode i =
  bind (int_from_ber i) (fun ab ->
    let (tail, request_id) = ab in
    bind (int_from_ber tail) (fun ab0 ->
      let (tail0, error_status) = ab0 in
      if negb (Z.eqb error_status Z0)
      then Err InvalidPdu
      else bind (int_from_ber tail0) (fun ab1 ->
             let (tail1, error_index) = ab1 in
             if negb (Z.eqb error_index Z0)
             then Err InvalidPdu
             else bind (sequence_from_ber tail1) (fun ab2 ->
                    let (tail2, vb) = ab2 in
                    (match tail2 with
                     | [] ->
                       bind (req_vars (length vb) vb []) (fun vars -> Ok
                         { g_request_id = request_id; g_vars = vars })
                     | _ :: _ -> Err TrailingData)))))

(** val getbulk_decode : bytes -> getbulk res **)

let getbulk_decode i =
  bind (int_from_ber i) (fun ab ->
    let (tail, request_id) = ab in
    bind (int_from_ber tail) (fun ab0 ->
      let (tail0, non_repeaters) = ab0 in
      bind (int_from_ber tail0) (fun ab1 ->
        let (tail1, max_repetitions0) = ab1 in
        bind (sequence_from_ber tail1) (fun ab2 ->
          let (tail2, vb) = ab2 in
          (match tail2 with
           | [] ->
             bind (req_vars (length vb) vb []) (fun vars -> Ok
               { gb_request_id = request_id; gb_non_repeaters =
               non_repeaters; gb_max_repetitions = max_repetitions0;
               gb_vars = vars })
           | _ :: _ -> Err TrailingData)))))

(** val pdu_decode : bytes -> pdu res **)

let pdu_decode i =
  bind (option_from_ber i) (fun ab ->
    let (_, opt) = ab in
    let (tag, v) = opt in
    if Z.eqb tag pDU_GET_REQUEST
    then bind (get_decode v) (fun g -> Ok (PGetRequest g))
    else if Z.eqb tag pDU_GETNEXT_REQUEST
         then bind (get_decode v) (fun g -> Ok (PGetNextRequest g))
         else if Z.eqb tag pDU_GET_RESPONSE
              then bind (getresponse_decode v) (fun r -> Ok (PGetResponse r))
              else if Z.eqb tag pDU_GET_BULK_REQUEST
                   then bind (getbulk_decode v) (fun b -> Ok (PGetBulkRequest
                          b))
                   else if Z.eqb tag pDU_REPORT
                        then Ok (PReport v)
                        else Err UnknownPdu)

(** val pdu_request_id : pdu -> z option **)

let pdu_request_id = function
| PGetRequest g -> Some g.g_request_id
| PGetNextRequest g -> Some g.g_request_id
| PGetResponse r -> Some r.gr_request_id
| PGetBulkRequest b -> Some b.gb_request_id
| PReport _ -> None

(** val pdu_check : pdu -> z -> bool **)

let pdu_check p request_id =
  match pdu_request_id p with
  | Some i -> Z.eqb request_id i
  | None -> true

type cmsg = { cm_community : bytes; cm_pdu : pdu }

(** val as_u8 : z -> z **)

let as_u8 z0 =
  Z.modulo z0 (Zpos (XO (XO (XO (XO (XO (XO (XO (XO XH)))))))))

(** val cmsg_decode : z -> bytes -> cmsg res **)

let cmsg_decode version i =
  bind (sequence_from_ber i) (fun ab ->
    let (tail, envelope) = ab in
    (match tail with
     | [] ->
       bind (int_from_ber envelope) (fun ab0 ->
         let (tail0, v_code) = ab0 in
         if negb (Z.eqb (as_u8 v_code) version)
         then Err InvalidVersion
         else bind (octetstring_from_ber tail0) (fun ab1 ->
                let (tail1, community) = ab1 in
                bind (pdu_decode tail1) (fun p -> Ok { cm_community =
                  community; cm_pdu = p })))
     | _ :: _ -> Err TrailingData))

(** val v1_decode : bytes -> cmsg res **)

let v1_decode =
  cmsg_decode sNMP_V1

(** val v2c_decode : bytes -> cmsg res **)

let v2c_decode =
  cmsg_decode sNMP_V2C

type usm = { u_engine_id : bytes; u_engine_boots : z; u_engine_time : 
             z; u_user_name : bytes; u_auth_params : bytes;
             u_privacy_params : bytes }

type scoped = { s_engine_id : bytes; s_pdu : pdu }

type msgdata =
| Plaintext of scoped
| Encrypted of bytes

type v3msg = { m_msg_id : z; m_flag_auth : bool; m_flag_priv : bool;
               m_flag_report : bool; m_usm : usm; m_data : msgdata }

(** val usm_decode : bytes -> usm res **)

let usm_decode i =
  bind (sequence_from_ber i) (fun ab ->
    let (tail, envelope) = ab in
    (match tail with
     | [] ->
       bind (octetstring_from_ber envelope) (fun ab0 ->
         let (tail0, engine_id) = ab0 in
         bind (int_from_ber tail0) (fun ab1 ->
           let (tail1, engine_boots) = ab1 in
           bind (int_from_ber tail1) (fun ab2 ->
             let (tail2, engine_time) = ab2 in
             bind (octetstring_from_ber tail2) (fun ab3 ->
               let (tail3, user_name) = ab3 in
               bind (octetstring_from_ber tail3) (fun ab4 ->
                 let (tail4, auth_parameters) = ab4 in
                 bind (octetstring_from_ber tail4) (fun ab5 ->
                   let (_, privacy_parameters) = ab5 in
                   Ok { u_engine_id = engine_id; u_engine_boots =
                   engine_boots; u_engine_time = engine_time; u_user_name =
                   user_name; u_auth_params = auth_parameters;
                   u_privacy_params = privacy_parameters }))))))
     | _ :: _ -> Err TrailingData))

(** val scoped_decode : bytes -> scoped res **)

let scoped_decode i =
  bind (sequence_from_ber i) (fun ab ->
    let (_, envelope) = ab in
    bind (octetstring_from_ber envelope) (fun ab0 ->
      let (tail, engine_id) = ab0 in
      bind (octetstring_from_ber tail) (fun ab1 ->
        let (tail0, _) = ab1 in
        bind (pdu_decode tail0) (fun p -> Ok { s_engine_id = engine_id;
          s_pdu = p }))))

(** val msgdata_decode : bytes -> msgdata res **)

let msgdata_decode i = match i with
| [] -> Err Incomplete
| t :: _ ->
  if Z.eqb t tAG_OCTET_STRING
  then bind (octetstring_from_ber i) (fun ab ->
         let (_, os) = ab in Ok (Encrypted os))
  else bind (scoped_decode i) (fun s -> Ok (Plaintext s))

(** val v3_decode : bytes -> v3msg res **)

let v3_decode i =
  bind (sequence_from_ber i) (fun ab ->
    let (tail, envelope) = ab in
    (match tail with
     | [] ->
       bind (int_from_ber envelope) (fun ab0 ->
         let (tail0, v_code) = ab0 in
         if negb (Z.eqb (as_u8 v_code) sNMP_V3)
         then Err InvalidVersion
         else bind (sequence_from_ber tail0) (fun ab1 ->
                let (sp_tail, envelope0) = ab1 in
                bind (int_from_ber envelope0) (fun ab2 ->
                  let (tail1, msg_id) = ab2 in
                  bind (int_from_ber tail1) (fun ab3 ->
                    let (tail2, _) = ab3 in
                    bind (octetstring_from_ber tail2) (fun ab4 ->
                      let (tail3, flags_data) = ab4 in
                      if negb (Z.eqb (len flags_data) (Zpos XH))
                      then Err InvalidPdu
                      else bind (idx flags_data O) (fun flags ->
                             bind (int_from_ber tail3) (fun ab5 ->
                               let (_, security_model) = ab5 in
                               if negb
                                    (Z.eqb (as_u8 security_model) uSM_MODEL)
                               then Err UnknownSecurityModel
                               else bind (octetstring_from_ber sp_tail)
                                      (fun ab6 ->
                                      let (tail4, security_parameters) = ab6
                                      in
                                      bind (usm_decode security_parameters)
                                        (fun u ->
                                        bind (msgdata_decode tail4) (fun d ->
                                          Ok { m_msg_id = msg_id;
                                          m_flag_auth =
                                          (testbit flags fLAG_AUTH);
                                          m_flag_priv =
                                          (testbit flags fLAG_PRIV);
                                          m_flag_report =
                                          (testbit flags fLAG_REPORT);
                                          m_usm = u; m_data = d }))))))))))
     | _ :: _ -> Err TrailingData))

type buffer = { data : bytes; bookmark : z }

(** val pOISON : z **)

let pOISON =
  Zneg XH

(** val empty_buffer : buffer **)

let empty_buffer =
  { data = []; bookmark = Z0 }

(** val blen : buffer -> z **)

let blen b =
  len b.data

(** val pos : buffer -> z **)

let pos b =
  Z.sub bUF_MAX_SIZE (blen b)

(** val with_data : buffer -> bytes -> buffer **)

let with_data b d =
  { data = d; bookmark = b.bookmark }

(** val push_u8 : buffer -> z -> buffer res **)

let push_u8 b v =
  if Z.eqb (pos b) Z0 then Err OutOfBuffer else Ok (with_data b (v :: b.data))

(** val push : buffer -> bytes -> buffer res **)

let push b chunk =
  if Z.ltb (pos b) (len chunk)
  then Err OutOfBuffer
  else Ok (with_data b (app chunk b.data))

(** val push_tag_len : buffer -> z -> z -> buffer res **)

let push_tag_len b tag v =
  if Z.ltb v (Zpos (XO (XO (XO (XO (XO (XO (XO XH))))))))
  then if Z.ltb (pos b) (Zpos (XO XH))
       then Err OutOfBuffer
       else Ok (with_data b (tag :: ((wrap8 v) :: b.data)))
  else if Z.ltb v (Zpos (XO (XO (XO (XO (XO (XO (XO (XO XH)))))))))
       then if Z.ltb (pos b) (Zpos (XI XH))
            then Err OutOfBuffer
            else Ok
                   (with_data b (tag :: ((Zpos (XI (XO (XO (XO (XO (XO (XO
                     XH)))))))) :: ((wrap8 v) :: b.data))))
       else if Z.ltb (pos b) (Zpos (XO (XO XH)))
            then Err OutOfBuffer
            else Ok
                   (with_data b (tag :: ((Zpos (XO (XI (XO (XO (XO (XO (XO
                     XH)))))))) :: ((wrap8
                                      (Z.shiftr v (Zpos (XO (XO (XO XH)))))) :: (
                     (wrap8 v) :: b.data)))))

(** val push_tagged : buffer -> z -> bytes -> buffer res **)

let push_tagged b tag d =
  bind (push b d) (fun b0 -> push_tag_len b0 tag (len d))

(** val set_bookmark : buffer -> z -> buffer **)

let set_bookmark b delta =
  { data = b.data; bookmark = (Z.add (pos b) delta) }

(** val get_bookmark : buffer -> z **)

let get_bookmark b =
  wrap64 (Z.sub b.bookmark (pos b))

(** val poison : nat -> bytes **)

let rec poison = function
| O -> []
| S k -> pOISON :: (poison k)

(** val skip : buffer -> z -> buffer **)

let skip b size =
  with_data b (app (poison (Z.to_nat (Z.min size (pos b)))) b.data)

(** val reset : buffer -> buffer **)

let reset b =
  with_data b []

(** val int_pos_loop : nat -> buffer -> z -> buffer res **)

let rec int_pos_loop fuel b left =
  match fuel with
  | O -> Panic
  | S f ->
    bind
      (push_u8 b
        (Z.coq_land left (Zpos (XI (XI (XI (XI (XI (XI (XI XH))))))))))
      (fun b0 ->
      if Z.ltb left (Zpos (XI (XI (XI (XI (XI (XI (XI XH))))))))
      then if Z.eqb
                (Z.coq_land left (Zpos (XO (XO (XO (XO (XO (XO (XO XH)))))))))
                (Zpos (XO (XO (XO (XO (XO (XO (XO XH))))))))
           then push_u8 b0 Z0
           else Ok b0
      else int_pos_loop f b0 (Z.shiftr left (Zpos (XO (XO (XO XH))))))

(** val int_neg_loop : nat -> buffer -> z -> buffer res **)

let rec int_neg_loop fuel b left =
  match fuel with
  | O -> Panic
  | S f ->
    bind
      (push_u8 b
        (Z.coq_land left (Zpos (XI (XI (XI (XI (XI (XI (XI XH))))))))))
      (fun b0 ->
      if Z.leb (Zneg (XO (XO (XO (XO (XO (XO (XO XH)))))))) left
      then Ok b0
      else int_neg_loop f b0 (Z.shiftr left (Zpos (XO (XO (XO XH))))))

(** val push_int : buffer -> z -> buffer res **)

let push_int b v =
  if Z.eqb v Z0
  then push b (tAG_INT :: ((Zpos XH) :: (Z0 :: [])))
  else let start = blen b in
       bind
         (if Z.ltb Z0 v
          then int_pos_loop (S (S (S (S (S (S (S (S (S (S O)))))))))) b v
          else int_neg_loop (S (S (S (S (S (S (S (S (S (S O)))))))))) b v)
         (fun b' -> push_tag_len b' tAG_INT (Z.sub (blen b') start))

(** val push_oid : buffer -> bytes -> buffer res **)

let push_oid b oid =
  bind (push b oid) (fun b0 -> push_tag_len b0 tAG_OBJECT_ID (len oid))

(** val push_null : buffer -> buffer res **)

let push_null b =
  push b ((Zpos (XI (XO XH))) :: (Z0 :: []))

(** val push_vars_rev : buffer -> bytes list -> buffer res **)

let rec push_vars_rev b = function
| [] -> Ok b
| oid :: r ->
  let start = blen b in
  bind (push_null b) (fun b0 ->
    bind (push_oid b0 oid) (fun b1 ->
      bind
        (push_tag_len b1 (Zpos (XO (XO (XO (XO (XI XH))))))
          (Z.sub (blen b1) start)) (fun b2 -> push_vars_rev b2 r)))

(** val push_get : buffer -> getreq -> buffer res **)

let push_get b g =
  let rest = blen b in
  bind (push_vars_rev b (rev g.g_vars)) (fun b0 ->
    bind
      (push_tag_len b0 (Zpos (XO (XO (XO (XO (XI XH))))))
        (Z.sub (blen b0) rest)) (fun b1 ->
      bind
        (push b1 ((Zpos (XO XH)) :: ((Zpos XH) :: (Z0 :: ((Zpos (XO
          XH)) :: ((Zpos XH) :: (Z0 :: []))))))) (fun b2 ->
        push_int b2 g.g_request_id)))

(** val push_getbulk : buffer -> getbulk -> buffer res **)

let push_getbulk b g =
  let rest = blen b in
  bind (push_vars_rev b (rev g.gb_vars)) (fun b0 ->
    bind
      (push_tag_len b0 (Zpos (XO (XO (XO (XO (XI XH))))))
        (Z.sub (blen b0) rest)) (fun b1 ->
      bind (push_int b1 g.gb_max_repetitions) (fun b2 ->
        bind (push_int b2 g.gb_non_repeaters) (fun b3 ->
          push_int b3 g.gb_request_id))))

(** val push_pdu : buffer -> pdu -> buffer res **)

let push_pdu b p =
  let rest = blen b in
  (match p with
   | PGetRequest g ->
     bind (push_get b g) (fun b0 ->
       push_tag_len b0 pDU_TAG_GET (Z.sub (blen b0) rest))
   | PGetNextRequest g ->
     bind (push_get b g) (fun b0 ->
       push_tag_len b0 pDU_TAG_GETNEXT (Z.sub (blen b0) rest))
   | PGetBulkRequest g ->
     bind (push_getbulk b g) (fun b0 ->
       push_tag_len b0 pDU_TAG_GETBULK (Z.sub (blen b0) rest))
   | _ -> Err NotImplemented)

(** val push_cmsg : z -> buffer -> cmsg -> buffer res **)

let push_cmsg version b m =
  bind (push_pdu b m.cm_pdu) (fun b0 ->
    bind (push_tagged b0 tAG_OCTET_STRING m.cm_community) (fun b1 ->
      bind (push b1 (tAG_INT :: ((Zpos XH) :: (version :: [])))) (fun b2 ->
        push_tag_len b2 (Zpos (XO (XO (XO (XO (XI XH)))))) (blen b2))))

(** val eMPTY_BER : bytes **)

let eMPTY_BER =
  tAG_OCTET_STRING :: (Z0 :: [])

(** val push_os_or_empty : buffer -> bytes -> buffer res **)

let push_os_or_empty b d = match d with
| [] -> push b eMPTY_BER
| _ :: _ -> push_tagged b tAG_OCTET_STRING d

(** val push_usm : buffer -> usm -> buffer res **)

let push_usm b u =
  let l0 = blen b in
  bind (push_os_or_empty b u.u_privacy_params) (fun b0 ->
    bind
      (match u.u_auth_params with
       | [] -> push b0 eMPTY_BER
       | z0 :: l ->
         bind (push_tagged b0 tAG_OCTET_STRING (z0 :: l)) (fun b1 -> Ok
           (set_bookmark b1 (Zpos (XO XH))))) (fun b1 ->
      bind (push_tagged b1 tAG_OCTET_STRING u.u_user_name) (fun b2 ->
        bind (push_int b2 u.u_engine_time) (fun b3 ->
          bind (push_int b3 u.u_engine_boots) (fun b4 ->
            bind (push_os_or_empty b4 u.u_engine_id) (fun b5 ->
              push_tag_len b5 (Zpos (XO (XO (XO (XO (XI XH))))))
                (Z.sub (blen b5) l0)))))))

(** val push_scoped : buffer -> scoped -> buffer res **)

let push_scoped b s =
  let rest = blen b in
  bind (push_pdu b s.s_pdu) (fun b0 ->
    bind (push b0 eMPTY_BER) (fun b1 ->
      bind (push_os_or_empty b1 s.s_engine_id) (fun b2 ->
        push_tag_len b2 (Zpos (XO (XO (XO (XO (XI XH))))))
          (Z.sub (blen b2) rest))))

(** val push_msgdata : buffer -> msgdata -> buffer res **)

let push_msgdata b = function
| Plaintext s -> push_scoped b s
| Encrypted x -> push_tagged b tAG_OCTET_STRING x

(** val flags_octet : v3msg -> z **)

let flags_octet m =
  Z.add
    (Z.add (if m.m_flag_auth then fLAG_AUTH else Z0)
      (if m.m_flag_priv then fLAG_PRIV else Z0))
    (if m.m_flag_report then fLAG_REPORT else Z0)

(** val push_v3 : buffer -> v3msg -> buffer res **)

let push_v3 b m =
  bind (push_msgdata b m.m_data) (fun b0 ->
    let ln = blen b0 in
    bind (push_usm b0 m.m_usm) (fun b1 ->
      bind (push_tag_len b1 tAG_OCTET_STRING (Z.sub (blen b1) ln)) (fun b2 ->
        let ln0 = blen b2 in
        bind (push b2 (tAG_INT :: ((Zpos XH) :: (uSM_MODEL :: []))))
          (fun b3 ->
          bind (push_u8 b3 (flags_octet m)) (fun b4 ->
            bind (push_tag_len b4 tAG_OCTET_STRING (Zpos XH)) (fun b5 ->
              bind (push_int b5 v3_MAX_SIZE) (fun b6 ->
                bind (push_int b6 m.m_msg_id) (fun b7 ->
                  bind
                    (push_tag_len b7 (Zpos (XO (XO (XO (XO (XI XH))))))
                      (Z.sub (blen b7) ln0)) (fun b8 ->
                    bind
                      (push b8 (tAG_INT :: ((Zpos XH) :: (sNMP_V3 :: []))))
                      (fun b9 ->
                      push_tag_len b9 (Zpos (XO (XO (XO (XO (XI XH))))))
                        (blen b9)))))))))))

(** val dOT : z **)

let dOT =
  Zpos (XO (XI (XI (XI (XO XH)))))

(** val split_dot : bytes -> bytes -> bytes list **)

let rec split_dot l cur =
  match l with
  | [] -> (rev cur) :: []
  | c :: r ->
    if Z.eqb c dOT
    then (rev cur) :: (split_dot r [])
    else split_dot r (c :: cur)

(** val parse_u32 : bytes -> z option **)

let parse_u32 p =
  let ds =
    match p with
    | [] -> p
    | z0 :: r ->
      (match z0 with
       | Zpos p0 ->
         (match p0 with
          | XI p1 ->
            (match p1 with
             | XI p2 ->
               (match p2 with
                | XO p3 ->
                  (match p3 with
                   | XI p4 ->
                     (match p4 with
                      | XO p5 -> (match p5 with
                                  | XH -> r
                                  | _ -> p)
                      | _ -> p)
                   | _ -> p)
                | _ -> p)
             | _ -> p)
          | _ -> p)
       | _ -> p)
  in
  (match ds with
   | [] -> None
   | _ :: _ ->
     if all_digits ds
     then let v = digits_value ds in
          if Z.leb v (Zpos (XI (XI (XI (XI (XI (XI (XI (XI (XI (XI (XI (XI
               (XI (XI (XI (XI (XI (XI (XI (XI (XI (XI (XI (XI (XI (XI (XI
               (XI (XI (XI (XI XH))))))))))))))))))))))))))))))))
          then Some v
          else None
     else None)

(** val enc_subid : z -> bytes **)

let enc_subid s =
  if Z.leb s (Zpos (XI (XI (XI (XI (XI (XI XH)))))))
  then s :: []
  else if Z.leb s (Zpos (XI (XI (XI (XI (XI (XI (XI (XI (XI (XI (XI (XI (XI
            XH))))))))))))))
       then (Z.coq_lor (wrap8 (Z.shiftr s (Zpos (XI (XI XH))))) (Zpos (XO (XO
              (XO (XO (XO (XO (XO XH))))))))) :: ((Z.coq_land (wrap8 s) (Zpos
                                                    (XI (XI (XI (XI (XI (XI
                                                    XH)))))))) :: [])
       else if Z.leb s (Zpos (XI (XI (XI (XI (XI (XI (XI (XI (XI (XI (XI (XI
                 (XI (XI (XI (XI (XI (XI (XI (XI XH)))))))))))))))))))))
            then (Z.coq_lor (wrap8 (Z.shiftr s (Zpos (XO (XI (XI XH))))))
                   (Zpos (XO (XO (XO (XO (XO (XO (XO XH))))))))) :: (
                   (Z.coq_lor
                     (Z.coq_land (wrap8 (Z.shiftr s (Zpos (XI (XI XH)))))
                       (Zpos (XI (XI (XI (XI (XI (XI XH)))))))) (Zpos (XO (XO
                     (XO (XO (XO (XO (XO XH))))))))) :: ((Z.coq_land
                                                           (wrap8 s) (Zpos
                                                           (XI (XI (XI (XI
                                                           (XI (XI XH)))))))) :: []))
            else if Z.leb s (Zpos (XI (XI (XI (XI (XI (XI (XI (XI (XI (XI (XI
                      (XI (XI (XI (XI (XI (XI (XI (XI (XI (XI (XI (XI (XI (XI
                      (XI (XI XH))))))))))))))))))))))))))))
                 then (Z.coq_lor
                        (wrap8 (Z.shiftr s (Zpos (XI (XO (XI (XO XH)))))))
                        (Zpos (XO (XO (XO (XO (XO (XO (XO XH))))))))) :: (
                        (Z.coq_lor
                          (Z.coq_land
                            (wrap8 (Z.shiftr s (Zpos (XO (XI (XI XH))))))
                            (Zpos (XI (XI (XI (XI (XI (XI XH)))))))) (Zpos
                          (XO (XO (XO (XO (XO (XO (XO XH))))))))) :: (
                        (Z.coq_lor
                          (Z.coq_land
                            (wrap8 (Z.shiftr s (Zpos (XI (XI XH))))) (Zpos
                            (XI (XI (XI (XI (XI (XI XH)))))))) (Zpos (XO (XO
                          (XO (XO (XO (XO (XO XH))))))))) :: ((Z.coq_land
                                                                (wrap8 s)
                                                                (Zpos (XI (XI
                                                                (XI (XI (XI
                                                                (XI XH)))))))) :: [])))
                 else (Z.coq_lor
                        (wrap8 (Z.shiftr s (Zpos (XO (XO (XI (XI XH)))))))
                        (Zpos (XO (XO (XO (XO (XO (XO (XO XH))))))))) :: (
                        (Z.coq_lor
                          (Z.coq_land
                            (wrap8 (Z.shiftr s (Zpos (XI (XO (XI (XO XH)))))))
                            (Zpos (XI (XI (XI (XI (XI (XI XH)))))))) (Zpos
                          (XO (XO (XO (XO (XO (XO (XO XH))))))))) :: (
                        (Z.coq_lor
                          (Z.coq_land
                            (wrap8 (Z.shiftr s (Zpos (XO (XI (XI XH))))))
                            (Zpos (XI (XI (XI (XI (XI (XI XH)))))))) (Zpos
                          (XO (XO (XO (XO (XO (XO (XO XH))))))))) :: (
                        (Z.coq_lor
                          (Z.coq_land
                            (wrap8 (Z.shiftr s (Zpos (XI (XI XH))))) (Zpos
                            (XI (XI (XI (XI (XI (XI XH)))))))) (Zpos (XO (XO
                          (XO (XO (XO (XO (XO XH))))))))) :: ((Z.coq_land
                                                                (wrap8 s)
                                                                (Zpos (XI (XI
                                                                (XI (XI (XI
                                                                (XI XH)))))))) :: []))))

(** val enc_rest : bytes list -> bytes res **)

let rec enc_rest = function
| [] -> Ok []
| p :: r ->
  (match parse_u32 p with
   | Some s -> bind (enc_rest r) (fun t -> Ok (app (enc_subid s) t))
   | None -> Err InvalidData)

(** val oid_of_text : bytes -> bytes res **)

let oid_of_text s =
  match split_dot s [] with
  | [] -> Err InvalidData
  | p1 :: rest ->
    (match parse_u32 p1 with
     | Some first ->
       (match rest with
        | [] -> Err InvalidData
        | p2 :: rest' ->
          (match parse_u32 p2 with
           | Some second ->
             if (||) (Z.ltb (Zpos (XO XH)) first)
                  (Z.ltb (Zpos (XI (XI (XI (XO (XO XH)))))) second)
             then Err InvalidData
             else bind (enc_rest rest') (fun t -> Ok
                    ((wrap8
                       (Z.add
                         (Z.mul (Zpos (XO (XO (XO (XI (XO XH)))))) first)
                         second)) :: t))
           | None -> Err InvalidData))
     | None -> Err InvalidData)

(** val dec_loop : nat -> z -> bytes -> bytes **)

let rec dec_loop fuel z0 acc =
  match fuel with
  | O -> acc
  | S f ->
    let acc' =
      (Z.add (Zpos (XO (XO (XO (XO (XI XH))))))
        (Z.modulo z0 (Zpos (XO (XI (XO XH)))))) :: acc
    in
    if Z.ltb z0 (Zpos (XO (XI (XO XH))))
    then acc'
    else dec_loop f (Z.div z0 (Zpos (XO (XI (XO XH))))) acc'

(** val dec : z -> bytes **)

let dec z0 =
  dec_loop (S (S (S (S (S (S (S (S (S (S (S (S (S (S (S (S (S (S (S (S (S (S
    (S (S O)))))))))))))))))))))))) z0 []

(** val dec_signed : z -> bytes **)

let dec_signed z0 =
  if Z.ltb z0 Z0
  then (Zpos (XI (XO (XI (XI (XO XH)))))) :: (dec (Z.opp z0))
  else dec z0

(** val print_rest : bytes -> z -> bytes **)

let rec print_rest l b =
  match l with
  | [] -> []
  | c :: r ->
    let b' =
      wrap32
        (Z.add (Z.mul b (Zpos (XO (XO (XO (XO (XO (XO (XO XH)))))))))
          (Z.coq_land c (Zpos (XI (XI (XI (XI (XI (XI XH)))))))))
    in
    if Z.eqb (Z.coq_land c (Zpos (XO (XO (XO (XO (XO (XO (XO XH))))))))) Z0
    then dOT :: (app (dec b') (print_rest r Z0))
    else print_rest r b'

(** val text_of_oid : bytes -> bytes res **)

let text_of_oid = function
| [] -> Err InvalidData
| first :: r ->
  Ok
    (app (dec (Z.div first (Zpos (XO (XO (XO (XI (XO XH))))))))
      (dOT :: (app (dec (Z.modulo first (Zpos (XO (XO (XO (XI (XO XH))))))))
                (print_rest r Z0))))

(** val subids : bytes -> z -> z list **)

let rec subids l b =
  match l with
  | [] -> []
  | c :: r ->
    let b' =
      wrap64
        (Z.coq_lor (Z.mul b (Zpos (XO (XO (XO (XO (XO (XO (XO XH)))))))))
          (Z.coq_land c (Zpos (XI (XI (XI (XI (XI (XI XH)))))))))
    in
    if Z.eqb (Z.coq_land c (Zpos (XO (XO (XO (XO (XO (XO (XO XH))))))))) Z0
    then b' :: (subids r Z0)
    else subids r b'

(** val list_gt : z list -> z list -> bool **)

let rec list_gt a b =
  match a with
  | [] -> false
  | x :: a' ->
    (match b with
     | [] -> true
     | y :: b' ->
       if Z.ltb y x then true else if Z.ltb x y then false else list_gt a' b')

(** val is_after : bytes -> bytes -> bool **)

let is_after a b =
  list_gt (subids a Z0) (subids b Z0)

(** val ip_text : z -> z -> z -> z -> bytes **)

let ip_text a b c d =
  app (dec a) (dOT :: (app (dec b) (dOT :: (app (dec c) (dOT :: (dec d))))))

type exc =
| ESnmpError
| EDecode
| EEncode
| EAuth
| ENoSuchInstance
| EValue
| ETimeout
| EBlockingIO
| EOSError
| ENotImplemented
| ERuntime
| EStopAsyncIteration
| EStopIteration
| EException

type 'a outcome =
| Return of 'a
| Raise of exc
| Crash

(** val err_to_exc : err -> exc **)

let err_to_exc = function
| InvalidKey -> EValue
| OutOfBuffer -> EEncode
| NotImplemented -> ENotImplemented
| NoSuchInstance -> ENoSuchInstance
| SocketError -> EOSError
| WouldBlock -> EBlockingIO
| ConnectionRefused -> ETimeout
| AuthenticationFailed -> EAuth
| _ -> EDecode

type pv =
| PvNone
| PvBool of bool
| PvInt of z
| PvBytes of bytes
| PvStr of bytes
| PvFloat of real

(** val value_to_py : value -> pv res **)

let value_to_py = function
| VBool b -> Ok (PvBool b)
| VInt z0 -> Ok (PvInt z0)
| VOctetString b -> Ok (PvBytes b)
| VOid o -> bind (text_of_oid o) (fun s -> Ok (PvStr s))
| VObjectDescriptor b -> Ok (PvBytes b)
| VReal r -> Ok (PvFloat r)
| VIpAddress (a, b, c, d) -> Ok (PvStr (ip_text a b c d))
| VCounter32 z0 -> Ok (PvInt z0)
| VGauge32 z0 -> Ok (PvInt z0)
| VTimeTicks z0 -> Ok (PvInt z0)
| VOpaque b -> Ok (PvBytes b)
| VCounter64 z0 -> Ok (PvInt z0)
| VUInteger32 z0 -> Ok (PvInt z0)
| _ -> Panic

(** val lift : 'a1 res -> 'a1 outcome **)

let lift = function
| Ok a -> Return a
| Err e -> Raise (err_to_exc e)
| Panic -> Crash

(** val obind : 'a1 outcome -> ('a1 -> 'a2 outcome) -> 'a2 outcome **)

let obind o f =
  match o with
  | Return a -> f a
  | Raise e -> Raise e
  | Crash -> Crash

(** val is_data_value : value -> bool **)

let is_data_value = function
| VNull -> false
| VNoSuchObject -> false
| VNoSuchInstance -> false
| VEndOfMibView -> false
| _ -> true

(** val get_to_python : pdu -> pv outcome **)

let get_to_python = function
| PGetResponse r ->
  (match r.gr_vars with
   | [] -> Return PvNone
   | vb :: l ->
     (match l with
      | [] ->
        (match vb.vb_value with
         | VNull -> Return PvNone
         | VNoSuchObject -> Raise (err_to_exc NoSuchInstance)
         | VNoSuchInstance -> Raise (err_to_exc NoSuchInstance)
         | VEndOfMibView -> Raise (err_to_exc NoSuchInstance)
         | x -> lift (value_to_py x))
      | _ :: _ -> Raise (err_to_exc InvalidPdu)))
| PReport _ -> Raise (err_to_exc AuthenticationFailed)
| _ -> Raise (err_to_exc InvalidPdu)

(** val dict_set : (bytes * pv) list -> bytes -> pv -> (bytes * pv) list **)

let rec dict_set d k v =
  match d with
  | [] -> (k, v) :: []
  | p :: r ->
    let (k', v') = p in
    if all_eqb k k' then (k', v) :: r else (k', v') :: (dict_set r k v)

(** val getmany_fold :
    varbind list -> (bytes * pv) list -> (bytes * pv) list outcome **)

let rec getmany_fold vars d =
  match vars with
  | [] -> Return d
  | vb :: r ->
    if is_data_value vb.vb_value
    then (match text_of_oid vb.vb_oid with
          | Ok k ->
            (match value_to_py vb.vb_value with
             | Ok v -> getmany_fold r (dict_set d k v)
             | Err _ -> Raise ERuntime
             | Panic -> Crash)
          | Err _ ->
            (match value_to_py vb.vb_value with
             | Panic -> Crash
             | _ -> Raise ERuntime)
          | Panic -> Crash)
    else getmany_fold r d

(** val getmany_to_python : pdu -> (bytes * pv) list outcome **)

let getmany_to_python = function
| PGetResponse r -> getmany_fold r.gr_vars []
| PReport _ -> Raise (err_to_exc AuthenticationFailed)
| _ -> Raise (err_to_exc InvalidPdu)

type getiter = { start_oid : bytes; next_oid : bytes; max_repetitions : z }

(** val getiter_new : bytes -> z option -> getiter outcome **)

let getiter_new oid_text max_rep =
  match oid_of_text oid_text with
  | Ok o ->
    Return { start_oid = o; next_oid = o; max_repetitions =
      (match max_rep with
       | Some m -> m
       | None -> Z0) }
  | Err _ -> Raise EValue
  | Panic -> Crash

(** val set_next_oid : getiter -> bytes -> getiter * bool **)

let set_next_oid it oid =
  if (&&) (starts_with oid it.start_oid) (is_after oid it.next_oid)
  then ({ start_oid = it.start_oid; next_oid = oid; max_repetitions =
         it.max_repetitions }, true)
  else (it, false)

(** val getnext_to_python :
    pdu -> getiter -> getiter * (bytes * pv) outcome **)

let getnext_to_python p it =
  match p with
  | PGetResponse r ->
    (match r.gr_vars with
     | [] -> (it, (Raise EStopAsyncIteration))
     | vb :: l ->
       (match l with
        | [] ->
          let (it', ok) = set_next_oid it vb.vb_oid in
          if negb ok
          then (it', (Raise EStopAsyncIteration))
          else (match vb.vb_value with
                | VNull -> (it', (Raise EStopAsyncIteration))
                | VNoSuchObject -> (it', (Raise EStopAsyncIteration))
                | VNoSuchInstance -> (it', (Raise EStopAsyncIteration))
                | VEndOfMibView -> (it', (Raise EStopAsyncIteration))
                | x ->
                  (it',
                    (obind (lift (text_of_oid vb.vb_oid)) (fun k ->
                      obind (lift (value_to_py x)) (fun x0 -> Return (k, x0))))))
        | _ :: _ -> (it, (Raise (err_to_exc InvalidPdu)))))
  | PReport _ -> (it, (Raise (err_to_exc AuthenticationFailed)))
  | _ -> (it, (Raise (err_to_exc InvalidPdu)))

(** val getbulk_fold :
    varbind list -> getiter -> (bytes * pv) option list ->
    getiter * (bytes * pv) option list outcome **)

let rec getbulk_fold vars it acc =
  match vars with
  | [] -> (it, (Return (rev acc)))
  | vb :: r ->
    if is_data_value vb.vb_value
    then let (it', ok) = set_next_oid it vb.vb_oid in
         if negb ok
         then (it', (Return (rev (None :: acc))))
         else (match text_of_oid vb.vb_oid with
               | Ok k ->
                 (match value_to_py vb.vb_value with
                  | Ok v -> getbulk_fold r it' ((Some (k, v)) :: acc)
                  | Err e -> (it', (Raise (err_to_exc e)))
                  | Panic -> (it', Crash))
               | Err e -> (it', (Raise (err_to_exc e)))
               | Panic -> (it', Crash))
    else getbulk_fold r it acc

(** val getbulk_to_python :
    pdu -> getiter -> getiter * (bytes * pv) option list outcome **)

let getbulk_to_python p it =
  match p with
  | PGetResponse r ->
    (match r.gr_vars with
     | [] -> (it, (Raise EStopAsyncIteration))
     | v :: l ->
       let (it', o) = getbulk_fold (v :: l) it [] in
       (match o with
        | Return a ->
          (match a with
           | [] -> (it', (Raise EStopAsyncIteration))
           | _ :: _ -> (it', o))
        | _ -> (it', o)))
  | PReport _ -> (it, (Raise (err_to_exc AuthenticationFailed)))
  | _ -> (it, (Raise (err_to_exc InvalidPdu)))

(** val c_unwrap : bytes -> z -> cmsg -> pdu option **)

let c_unwrap community request_id m =
  if negb (all_eqb m.cm_community community)
  then None
  else if negb (pdu_check m.cm_pdu request_id) then None else Some m.cm_pdu

type 'a recv_result =
| Delivered of 'a * bytes list
| Failed of exc * bytes list
| Crashed
| TimedOut

(** val c_recv_loop : z -> bytes -> z -> bytes list -> pdu recv_result **)

let rec c_recv_loop version community request_id = function
| [] -> TimedOut
| d :: rest ->
  (match cmsg_decode version d with
   | Ok m ->
     (match c_unwrap community request_id m with
      | Some p -> Delivered (p, rest)
      | None -> c_recv_loop version community request_id rest)
   | Err e -> Failed ((err_to_exc e), rest)
   | Panic -> Crashed)


val negb : bool -> bool

type nat =
| O
| S of nat

val length : 'a1 list -> nat

val app : 'a1 list -> 'a1 list -> 'a1 list

type comparison =
| Eq
| Lt
| Gt

val compOpp : comparison -> comparison

val add : nat -> nat -> nat

type positive =
| XI of positive
| XO of positive
| XH

type n =
| N0
| Npos of positive

type z =
| Z0
| Zpos of positive
| Zneg of positive

module Pos :
 sig
  val succ : positive -> positive

  val add : positive -> positive -> positive

  val add_carry : positive -> positive -> positive

  val pred_double : positive -> positive

  val pred_N : positive -> n

  val mul : positive -> positive -> positive

  val iter : ('a1 -> 'a1) -> 'a1 -> positive -> 'a1

  val div2 : positive -> positive

  val div2_up : positive -> positive

  val compare_cont : comparison -> positive -> positive -> comparison

  val compare : positive -> positive -> comparison

  val eqb : positive -> positive -> bool

  val coq_Nsucc_double : n -> n

  val coq_Ndouble : n -> n

  val coq_lor : positive -> positive -> positive

  val coq_land : positive -> positive -> n

  val ldiff : positive -> positive -> n

  val iter_op : ('a1 -> 'a1 -> 'a1) -> positive -> 'a1 -> 'a1

  val to_nat : positive -> nat

  val of_succ_nat : nat -> positive
 end

module N :
 sig
  val succ_pos : n -> positive

  val coq_lor : n -> n -> n

  val coq_land : n -> n -> n

  val ldiff : n -> n -> n
 end

module Z :
 sig
  val double : z -> z

  val succ_double : z -> z

  val pred_double : z -> z

  val pos_sub : positive -> positive -> z

  val add : z -> z -> z

  val opp : z -> z

  val sub : z -> z -> z

  val mul : z -> z -> z

  val compare : z -> z -> comparison

  val leb : z -> z -> bool

  val ltb : z -> z -> bool

  val eqb : z -> z -> bool

  val max : z -> z -> z

  val min : z -> z -> z

  val to_nat : z -> nat

  val of_nat : nat -> z

  val of_N : n -> z

  val pos_div_eucl : positive -> z -> z * z

  val div_eucl : z -> z -> z * z

  val div : z -> z -> z

  val modulo : z -> z -> z

  val div2 : z -> z

  val shiftl : z -> z -> z

  val shiftr : z -> z -> z

  val coq_lor : z -> z -> z

  val coq_land : z -> z -> z
 end

val nth_error : 'a1 list -> nat -> 'a1 option

val rev : 'a1 list -> 'a1 list

val map : ('a1 -> 'a2) -> 'a1 list -> 'a2 list

val fold_left : ('a1 -> 'a2 -> 'a1) -> 'a2 list -> 'a1 -> 'a1

type bytes = z list

type err =
| Incomplete
| UnexpectedTag
| InvalidTagFormat
| UnknownPdu
| InvalidPdu
| InvalidData
| InvalidKey
| UnsupportedTag
| TrailingData
| InvalidVersion
| OutOfBuffer
| NotImplemented
| NoSuchInstance
| SocketError
| WouldBlock
| ConnectionRefused
| UnknownSecurityModel
| AuthenticationFailed

type 'a res =
| Ok of 'a
| Err of err
| Panic

val bind : 'a1 res -> ('a1 -> 'a2 res) -> 'a2 res

val len : bytes -> z

val idx : bytes -> nat -> z res

val takez : z -> bytes -> bytes

val dropz : z -> bytes -> bytes

val slice_to : bytes -> z -> bytes res

val slice_from : bytes -> z -> bytes res

val wrap8 : z -> z

val wrap32 : z -> z

val wrap64 : z -> z

val swrap64 : z -> z

val sat64 : z -> z

val testbit : z -> z -> bool

val all_eqb : bytes -> bytes -> bool

val starts_with : bytes -> bytes -> bool

val tAG_BOOL : z

val tAG_INT : z

val tAG_OCTET_STRING : z

val tAG_NULL : z

val tAG_OBJECT_ID : z

val tAG_OBJECT_DESCRIPTOR : z

val tAG_REAL : z

val tAG_SEQUENCE : z

val tAG_RELATIVE_OID : z

val tAG_APP_IPADDRESS : z

val tAG_APP_COUNTER32 : z

val tAG_APP_GAUGE32 : z

val tAG_APP_TIMETICKS : z

val tAG_APP_OPAQUE : z

val tAG_APP_COUNTER64 : z

val tAG_APP_UINTEGER32 : z

val tAG_CTX_NO_SUCH_OBJECT : z

val tAG_CTX_NO_SUCH_INSTANCE : z

val tAG_CTX_END_OF_MIB_VIEW : z

val bUF_MAX_SIZE : z

val sNMP_V1 : z

val sNMP_V2C : z

val sNMP_V3 : z

val pDU_GET_REQUEST : z

val pDU_GETNEXT_REQUEST : z

val pDU_GET_RESPONSE : z

val pDU_GET_BULK_REQUEST : z

val pDU_REPORT : z

val pDU_TAG_GET : z

val pDU_TAG_GETNEXT : z

val pDU_TAG_GETBULK : z

val v3_MAX_SIZE : z

val uSM_MODEL : z

val fLAG_REPORT : z

val fLAG_PRIV : z

val fLAG_AUTH : z

type hdr = { h_class : z; h_constructed : bool; h_tag : z; h_length : z }

val tag_loop : z -> bytes -> (z * bytes) res

val len_loop : nat -> z -> bytes -> (z * bytes) res

val parse_header : bytes -> (bytes * hdr) res

val from_ber :
  z -> bool -> bool -> (bytes -> hdr -> 'a1 res) -> bytes -> (bytes * 'a1) res

val decode_bool : bytes -> hdr -> bool res

val decode_null : bytes -> hdr -> unit res

val fold_be : (z -> z) -> bytes -> z

val decode_int : bytes -> hdr -> z res

val decode_u32 : bytes -> hdr -> z res

val decode_u64 : bytes -> hdr -> z res

val decode_slice : bytes -> hdr -> bytes res

val decode_ip : bytes -> hdr -> (((z * z) * z) * z) res

type real =
| RZero
| RBin of bool * z * z
| RInt of z
| RDec of bytes
| RPlusInf
| RMinusInf
| RNaN
| RMinusZero

val is_digit : z -> bool

val all_digits : bytes -> bool

val digits_value : bytes -> z

val parse_i32 : bytes -> z option

val span_digits : bytes -> bytes * bytes

val lower : z -> z

val is_special_word : bytes -> bool

val valid_exp : bytes -> bool

val is_rust_float : bytes -> bool

val decode_real : bytes -> hdr -> real res

type value =
| VBool of bool
| VInt of z
| VNull
| VOctetString of bytes
| VOid of bytes
| VObjectDescriptor of bytes
| VReal of real
| VIpAddress of z * z * z * z
| VCounter32 of z
| VGauge32 of z
| VTimeTicks of z
| VOpaque of bytes
| VCounter64 of z
| VUInteger32 of z
| VNoSuchObject
| VNoSuchInstance
| VEndOfMibView

val value_from_ber : bytes -> (bytes * value) res

val int_from_ber : bytes -> (bytes * z) res

val null_from_ber : bytes -> (bytes * unit) res

val oid_from_ber : bytes -> (bytes * bytes) res

val octetstring_from_ber : bytes -> (bytes * bytes) res

val reloid_from_ber : bytes -> (bytes * bytes) res

val sequence_from_ber : bytes -> (bytes * bytes) res

val bool_from_ber : bytes -> (bytes * bool) res

val real_from_ber : bytes -> (bytes * real) res

val ip_from_ber : bytes -> (bytes * (((z * z) * z) * z)) res

val counter32_from_ber : bytes -> (bytes * z) res

val gauge32_from_ber : bytes -> (bytes * z) res

val timeticks_from_ber : bytes -> (bytes * z) res

val uinteger32_from_ber : bytes -> (bytes * z) res

val counter64_from_ber : bytes -> (bytes * z) res

val opaque_from_ber : bytes -> (bytes * bytes) res

val objectdescriptor_from_ber : bytes -> (bytes * bytes) res

val option_from_ber : bytes -> (bytes * (z * bytes)) res

val subelements : bytes -> z

val find_sub : bytes -> z -> z -> z -> z -> z option

val find_subelement : bytes -> z -> z option

val normalize : bytes -> bytes -> bytes res

val try_normalize : bytes -> bytes -> bytes res

type varbind = { vb_oid : bytes; vb_value : value }

type getresponse = { gr_request_id : z; gr_error_status : z;
                     gr_error_index : z; gr_vars : varbind list }

type getreq = { g_request_id : z; g_vars : bytes list }

type getbulk = { gb_request_id : z; gb_non_repeaters : z;
                 gb_max_repetitions : z; gb_vars : bytes list }

type pdu =
| PGetRequest of getreq
| PGetNextRequest of getreq
| PGetResponse of getresponse
| PGetBulkRequest of getbulk
| PReport of bytes

val resp_vars : nat -> bytes -> varbind list -> varbind list res

val getresponse_decode : bytes -> getresponse res

val parse_var : bytes -> (bytes * bytes) res

val req_vars : nat -> bytes -> bytes list -> bytes list res

val get_decode : bytes -> getreq res

val getbulk_decode : bytes -> getbulk res

val pdu_decode : bytes -> pdu res

val pdu_request_id : pdu -> z option

val pdu_check : pdu -> z -> bool

type cmsg = { cm_community : bytes; cm_pdu : pdu }

val as_u8 : z -> z

val cmsg_decode : z -> bytes -> cmsg res

val v1_decode : bytes -> cmsg res

val v2c_decode : bytes -> cmsg res

type usm = { u_engine_id : bytes; u_engine_boots : z; u_engine_time : 
             z; u_user_name : bytes; u_auth_params : bytes;
             u_privacy_params : bytes }

type scoped = { s_engine_id : bytes; s_pdu : pdu }

type msgdata =
| Plaintext of scoped
| Encrypted of bytes

type v3msg = { m_msg_id : z; m_flag_auth : bool; m_flag_priv : bool;
               m_flag_report : bool; m_usm : usm; m_data : msgdata }

val usm_decode : bytes -> usm res

val scoped_decode : bytes -> scoped res

val msgdata_decode : bytes -> msgdata res

val v3_decode : bytes -> v3msg res

type buffer = { data : bytes; bookmark : z }

val pOISON : z

val empty_buffer : buffer

val blen : buffer -> z

val pos : buffer -> z

val with_data : buffer -> bytes -> buffer

val push_u8 : buffer -> z -> buffer res

val push : buffer -> bytes -> buffer res

val push_tag_len : buffer -> z -> z -> buffer res

val push_tagged : buffer -> z -> bytes -> buffer res

val set_bookmark : buffer -> z -> buffer

val get_bookmark : buffer -> z

val poison : nat -> bytes

val skip : buffer -> z -> buffer

val reset : buffer -> buffer

val int_pos_loop : nat -> buffer -> z -> buffer res

val int_neg_loop : nat -> buffer -> z -> buffer res

val push_int : buffer -> z -> buffer res

val push_oid : buffer -> bytes -> buffer res

val push_null : buffer -> buffer res

val push_vars_rev : buffer -> bytes list -> buffer res

val push_get : buffer -> getreq -> buffer res

val push_getbulk : buffer -> getbulk -> buffer res

val push_pdu : buffer -> pdu -> buffer res

val push_cmsg : z -> buffer -> cmsg -> buffer res

val eMPTY_BER : bytes

val push_os_or_empty : buffer -> bytes -> buffer res

val push_usm : buffer -> usm -> buffer res

val push_scoped : buffer -> scoped -> buffer res

val push_msgdata : buffer -> msgdata -> buffer res

val flags_octet : v3msg -> z

val push_v3 : buffer -> v3msg -> buffer res

val dOT : z

val split_dot : bytes -> bytes -> bytes list

val parse_u32 : bytes -> z option

val enc_subid : z -> bytes

val enc_rest : bytes list -> bytes res

val oid_of_text : bytes -> bytes res

val dec_loop : nat -> z -> bytes -> bytes

val dec : z -> bytes

val dec_signed : z -> bytes

val print_rest : bytes -> z -> bytes

val text_of_oid : bytes -> bytes res

val subids : bytes -> z -> z list

val list_gt : z list -> z list -> bool

val is_after : bytes -> bytes -> bool

val ip_text : z -> z -> z -> z -> bytes

type exc =
| ESnmpError
| EDecode
| EEncode
| EAuth
| ENoSuchInstance
| EValue
| ETimeout
| EBlockingIO
| EOSError
| ENotImplemented
| ERuntime
| EStopAsyncIteration
| EStopIteration
| EException

type 'a outcome =
| Return of 'a
| Raise of exc
| Crash

val err_to_exc : err -> exc

type pv =
| PvNone
| PvBool of bool
| PvInt of z
| PvBytes of bytes
| PvStr of bytes
| PvFloat of real

val value_to_py : value -> pv res

val lift : 'a1 res -> 'a1 outcome

val obind : 'a1 outcome -> ('a1 -> 'a2 outcome) -> 'a2 outcome

val is_data_value : value -> bool

val get_to_python : pdu -> pv outcome

val dict_set : (bytes * pv) list -> bytes -> pv -> (bytes * pv) list

val getmany_fold :
  varbind list -> (bytes * pv) list -> (bytes * pv) list outcome

val getmany_to_python : pdu -> (bytes * pv) list outcome

type getiter = { start_oid : bytes; next_oid : bytes; max_repetitions : z }

val getiter_new : bytes -> z option -> getiter outcome

val set_next_oid : getiter -> bytes -> getiter * bool

val getnext_to_python : pdu -> getiter -> getiter * (bytes * pv) outcome

val getbulk_fold :
  varbind list -> getiter -> (bytes * pv) option list ->
  getiter * (bytes * pv) option list outcome

val getbulk_to_python :
  pdu -> getiter -> getiter * (bytes * pv) option list outcome

val c_unwrap : bytes -> z -> cmsg -> pdu option

type 'a recv_result =
| Delivered of 'a * bytes list
| Failed of exc * bytes list
| Crashed
| TimedOut

val c_recv_loop : z -> bytes -> z -> bytes list -> pdu recv_result

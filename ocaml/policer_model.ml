
(** val negb : bool -> bool **)

let negb = function
| true -> false
| false -> true

type nat =
| O
| S of nat

type comparison =
| Eq
| Lt
| Gt

(** val compOpp : comparison -> comparison **)

let compOpp = function
| Eq -> Eq
| Lt -> Gt
| Gt -> Lt

type positive =
| XI of positive
| XO of positive
| XH

type z =
| Z0
| Zpos of positive
| Zneg of positive

module Pos =
 struct
  (** val succ : positive -> positive **)

  let rec succ = function
  | XI p -> XO (succ p)
  | XO p -> XI p
  | XH -> XO XH

  (** val add : positive -> positive -> positive **)

  let rec add x y =
    match x with
    | XI p ->
      (match y with
       | XI q -> XO (add_carry p q)
       | XO q -> XI (add p q)
       | XH -> XO (succ p))
    | XO p ->
      (match y with
       | XI q -> XI (add p q)
       | XO q -> XO (add p q)
       | XH -> XI p)
    | XH -> (match y with
             | XI q -> XO (succ q)
             | XO q -> XI q
             | XH -> XO XH)

  (** val add_carry : positive -> positive -> positive **)

  and add_carry x y =
    match x with
    | XI p ->
      (match y with
       | XI q -> XI (add_carry p q)
       | XO q -> XO (add_carry p q)
       | XH -> XI (succ p))
    | XO p ->
      (match y with
       | XI q -> XO (add_carry p q)
       | XO q -> XI (add p q)
       | XH -> XO (succ p))
    | XH ->
      (match y with
       | XI q -> XI (succ q)
       | XO q -> XO (succ q)
       | XH -> XI XH)

  (** val pred_double : positive -> positive **)

  let rec pred_double = function
  | XI p -> XI (XO p)
  | XO p -> XI (pred_double p)
  | XH -> XH

  (** val mul : positive -> positive -> positive **)

  let rec mul x y =
    match x with
    | XI p -> add y (XO (mul p y))
    | XO p -> XO (mul p y)
    | XH -> y

  (** val compare_cont : comparison -> positive -> positive -> comparison **)

  let rec compare_cont r x y =
    match x with
    | XI p ->
      (match y with
       | XI q -> compare_cont r p q
       | XO q -> compare_cont Gt p q
       | XH -> Gt)
    | XO p ->
      (match y with
       | XI q -> compare_cont Lt p q
       | XO q -> compare_cont r p q
       | XH -> Gt)
    | XH -> (match y with
             | XH -> r
             | _ -> Lt)

  (** val compare : positive -> positive -> comparison **)

  let compare =
    compare_cont Eq

  (** val eqb : positive -> positive -> bool **)

  let rec eqb p q =
    match p with
    | XI p0 -> (match q with
                | XI q0 -> eqb p0 q0
                | _ -> false)
    | XO p0 -> (match q with
                | XO q0 -> eqb p0 q0
                | _ -> false)
    | XH -> (match q with
             | XH -> true
             | _ -> false)

  (** val of_succ_nat : nat -> positive **)

  let rec of_succ_nat = function
  | O -> XH
  | S x -> succ (of_succ_nat x)
 end

module Z =
 struct
  (** val double : z -> z **)

  let double = function
  | Z0 -> Z0
  | Zpos p -> Zpos (XO p)
  | Zneg p -> Zneg (XO p)

  (** val succ_double : z -> z **)

  let succ_double = function
  | Z0 -> Zpos XH
  | Zpos p -> Zpos (XI p)
  | Zneg p -> Zneg (Pos.pred_double p)

  (** val pred_double : z -> z **)

  let pred_double = function
  | Z0 -> Zneg XH
  | Zpos p -> Zpos (Pos.pred_double p)
  | Zneg p -> Zneg (XI p)

  (** val pos_sub : positive -> positive -> z **)

  let rec pos_sub x y =
    match x with
    | XI p ->
      (match y with
       | XI q -> double (pos_sub p q)
       | XO q -> succ_double (pos_sub p q)
       | XH -> Zpos (XO p))
    | XO p ->
      (match y with
       | XI q -> pred_double (pos_sub p q)
       | XO q -> double (pos_sub p q)
       | XH -> Zpos (Pos.pred_double p))
    | XH ->
      (match y with
       | XI q -> Zneg (XO q)
       | XO q -> Zneg (Pos.pred_double q)
       | XH -> Z0)

  (** val add : z -> z -> z **)

  let add x y =
    match x with
    | Z0 -> y
    | Zpos x' ->
      (match y with
       | Z0 -> x
       | Zpos y' -> Zpos (Pos.add x' y')
       | Zneg y' -> pos_sub x' y')
    | Zneg x' ->
      (match y with
       | Z0 -> x
       | Zpos y' -> pos_sub y' x'
       | Zneg y' -> Zneg (Pos.add x' y'))

  (** val opp : z -> z **)

  let opp = function
  | Z0 -> Z0
  | Zpos x0 -> Zneg x0
  | Zneg x0 -> Zpos x0

  (** val sub : z -> z -> z **)

  let sub m n =
    add m (opp n)

  (** val mul : z -> z -> z **)

  let mul x y =
    match x with
    | Z0 -> Z0
    | Zpos x' ->
      (match y with
       | Z0 -> Z0
       | Zpos y' -> Zpos (Pos.mul x' y')
       | Zneg y' -> Zneg (Pos.mul x' y'))
    | Zneg x' ->
      (match y with
       | Z0 -> Z0
       | Zpos y' -> Zneg (Pos.mul x' y')
       | Zneg y' -> Zpos (Pos.mul x' y'))

  (** val compare : z -> z -> comparison **)

  let compare x y =
    match x with
    | Z0 -> (match y with
             | Z0 -> Eq
             | Zpos _ -> Lt
             | Zneg _ -> Gt)
    | Zpos x' -> (match y with
                  | Zpos y' -> Pos.compare x' y'
                  | _ -> Gt)
    | Zneg x' ->
      (match y with
       | Zneg y' -> compOpp (Pos.compare x' y')
       | _ -> Lt)

  (** val leb : z -> z -> bool **)

  let leb x y =
    match compare x y with
    | Gt -> false
    | _ -> true

  (** val ltb : z -> z -> bool **)

  let ltb x y =
    match compare x y with
    | Lt -> true
    | _ -> false

  (** val eqb : z -> z -> bool **)

  let eqb x y =
    match x with
    | Z0 -> (match y with
             | Z0 -> true
             | _ -> false)
    | Zpos p -> (match y with
                 | Zpos q -> Pos.eqb p q
                 | _ -> false)
    | Zneg p -> (match y with
                 | Zneg q -> Pos.eqb p q
                 | _ -> false)

  (** val abs : z -> z **)

  let abs = function
  | Zneg p -> Zpos p
  | x -> x

  (** val of_nat : nat -> z **)

  let of_nat = function
  | O -> Z0
  | S n0 -> Zpos (Pos.of_succ_nat n0)

  (** val pos_div_eucl : positive -> z -> z * z **)

  let rec pos_div_eucl a b =
    match a with
    | XI a' ->
      let (q, r) = pos_div_eucl a' b in
      let r' = add (mul (Zpos (XO XH)) r) (Zpos XH) in
      if ltb r' b
      then ((mul (Zpos (XO XH)) q), r')
      else ((add (mul (Zpos (XO XH)) q) (Zpos XH)), (sub r' b))
    | XO a' ->
      let (q, r) = pos_div_eucl a' b in
      let r' = mul (Zpos (XO XH)) r in
      if ltb r' b
      then ((mul (Zpos (XO XH)) q), r')
      else ((add (mul (Zpos (XO XH)) q) (Zpos XH)), (sub r' b))
    | XH -> if leb (Zpos (XO XH)) b then (Z0, (Zpos XH)) else ((Zpos XH), Z0)

  (** val div_eucl : z -> z -> z * z **)

  let div_eucl a b =
    match a with
    | Z0 -> (Z0, Z0)
    | Zpos a' ->
      (match b with
       | Z0 -> (Z0, a)
       | Zpos _ -> pos_div_eucl a' b
       | Zneg b' ->
         let (q, r) = pos_div_eucl a' (Zpos b') in
         (match r with
          | Z0 -> ((opp q), Z0)
          | _ -> ((opp (add q (Zpos XH))), (add b r))))
    | Zneg a' ->
      (match b with
       | Z0 -> (Z0, a)
       | Zpos _ ->
         let (q, r) = pos_div_eucl a' b in
         (match r with
          | Z0 -> ((opp q), Z0)
          | _ -> ((opp (add q (Zpos XH))), (sub b r)))
       | Zneg b' -> let (q, r) = pos_div_eucl a' (Zpos b') in (q, (opp r)))
 end

type pstate = { _prev : z option; _delta : z }

(** val get_timeout : pstate -> z -> pstate * z option **)

let get_timeout st ts =
  match st._prev with
  | Some prev0 ->
    let elapsed = Z.sub ts prev0 in
    if Z.ltb elapsed Z0
    then ({ _prev = (Some ts); _delta = st._delta }, (Some st._delta))
    else if Z.ltb elapsed st._delta
         then ({ _prev = (Some (Z.add prev0 st._delta)); _delta =
                st._delta }, (Some (Z.sub st._delta elapsed)))
         else ({ _prev = (Some (Z.add prev0 st._delta)); _delta =
                st._delta }, None)
  | None -> ({ _prev = (Some ts); _delta = st._delta }, None)

(** val init : bool -> z -> pstate option **)

let init rps_le_zero q =
  if rps_le_zero
  then None
  else if Z.eqb q Z0 then None else Some { _prev = None; _delta = q }

(** val sleep_of : z option -> z **)

let sleep_of = function
| Some d -> if (&&) (negb (Z.eqb d Z0)) (Z.ltb Z0 d) then d else Z0
| None -> Z0

(** val release : pstate -> z -> pstate * z **)

let release st ts =
  let (st', o) = get_timeout st ts in (st', (Z.add ts (sleep_of o)))

(** val run : pstate -> z -> z list -> z list **)

let rec run st last = function
| [] -> []
| g :: gs ->
  let ts = Z.add last (Z.abs g) in
  let (st', r) = release st ts in r :: (run st' r gs)

(** val sleeps : pstate -> z -> z list -> z list **)

let rec sleeps st last = function
| [] -> []
| g :: gs ->
  let ts = Z.add last (Z.abs g) in
  let (st', r) = release st ts in (Z.sub r ts) :: (sleeps st' r gs)

(** val history : pstate -> z -> z list -> z list **)

let history st0 t0 gaps =
  let (st1, r0) = release st0 t0 in r0 :: (run st1 r0 gaps)

(** val history_sleeps : pstate -> z -> z list -> z list **)

let history_sleeps st0 t0 gaps =
  let (st1, r0) = release st0 t0 in (Z.sub r0 t0) :: (sleeps st1 r0 gaps)
